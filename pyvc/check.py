"""pyvc.check -- per-property check driver (run by ./check under python3-vt).

exit 0  property held on everything explored (all obligations discharged, bounded stand-ins clean)
exit 1  `VIOLATION property=<id> replay=<path>` printed: an obligation is not discharged and/or a real failing input
exit 3  the checker itself is broken (vacuous contract, zero obligations, crash)
"""
from __future__ import annotations

import hashlib
import json
import os, re
import shutil
import subprocess
import sys
import tempfile
import time
import traceback

VERIF = os.path.dirname(os.path.dirname(os.path.abspath(__file__)))
sys.path.insert(0, VERIF)

from pyvc.contracts import ContractSet  # noqa: E402
from pyvc import verify, source  # noqa: E402
from pyvc.source import Unsupported, ShapeMismatch  # noqa: E402

REPO = os.environ.get("PYVC_REPO", "/repo")
# where evidence/ and replays/ are written (default: /verif itself; tools/allseeds.sh redirects it for checks run on scratch copies)
OUT = os.environ.get("PYVC_OUT", VERIF)
VENV_PY = "/venv/bin/python"


def label_of(name):
    """obligation name without the path counter: 'C15/f/post:ensures[0].3#7' -> 'C15/f/post:ensures[0].3'"""
    return name.rsplit("#", 1)[0]


def func_of(name):
    return name.split("/")[1].split("@case")[0]


def load_known(prop):
    p = os.path.join(VERIF, "known_findings.json")
    if not os.path.exists(p):
        return []
    with open(p) as fh:
        data = json.load(fh)
    return [e for e in data.get("findings", []) if e.get("property") == prop and e.get("status") == "open"]


def run_twin(prop, tier, seed, only=None, timeout=3000):
    """bounded stand-in / replay search: executes the contracts natively on the real code"""
    cmd = [VENV_PY, os.path.join(VERIF, "pyvc", "twin_main.py"), prop, tier, str(seed)]
    if only:
        cmd += ["--only", ",".join(sorted(only))]
    env = dict(os.environ)
    env["PYTHONPATH"] = REPO + os.pathsep + VERIF + os.pathsep + env.get("PYTHONPATH", "")
    env["PYTHONDONTWRITEBYTECODE"] = "1"
    t0 = time.time()
    try:
        p = subprocess.run(cmd, capture_output=True, text=True, timeout=timeout, env=env, cwd=VERIF)
    except subprocess.TimeoutExpired:
        return {"error": "twin timed out", "cases": 0, "nontrivial": 0, "failures": []}
    out = p.stdout.strip().splitlines()
    for line in reversed(out):
        if line.startswith("{"):
            try:
                res = json.loads(line)
                res["wall_s"] = round(time.time() - t0, 2)
                return res
            except Exception:
                pass
    return {"error": "twin produced no result: rc=%s stderr=%s" % (p.returncode, p.stderr[-1500:]), "cases": 0,
            "nontrivial": 0, "failures": []}


def main(argv):
    if len(argv) >= 3 and argv[1] == "--replay":
        prop = argv[0]
        return replay(prop, argv[2])
    prop, tier = argv[0], (argv[1] if len(argv) > 1 else os.environ.get("VERIF_TIER", "quick"))
    seed = int(os.environ.get("VERIF_SEED", "0") or 0)
    t0 = time.time()
    evidence_path = os.path.join(OUT, "evidence", "%s.json" % prop)
    os.makedirs(os.path.join(OUT, "evidence"), exist_ok=True)
    os.makedirs(os.path.dirname(evidence_path), exist_ok=True)
    os.makedirs(os.path.join(OUT, "replays"), exist_ok=True)
    try:
        rc, ev = check(prop, tier, seed)
    except Exception:
        traceback.print_exc()
        sys.stderr.write("CHECK-BROKEN %s: checker crashed\n" % prop)
        return 3
    ev["wall_s"] = round(time.time() - t0, 2)
    with open(evidence_path, "w") as fh:
        json.dump(ev, fh, indent=1, sort_keys=True)
    return rc


def check(prop, tier, seed):
    cpath = os.path.join(VERIF, "contracts", "%s.py" % prop)
    cset = ContractSet(cpath, root=REPO)
    source.clear_cache()
    eng = verify.new_engine(cset)
    timeout_s = 20 if tier == "quick" else 90
    # a contract file may ask for larger per-obligation budgets (CPU seconds) when its queries are known to be slow
    timeout_s = int(getattr(cset.pymod, "QUICK_TIMEOUT" if tier == "quick" else "THOROUGH_TIMEOUT", timeout_s))
    jobs = int(os.environ.get("PYVC_JOBS", "12"))
    functions = []
    not_extracted = []
    gen_t0 = time.time()
    for key, c in cset.functions.items():
        if c.get("inline") or c.get("assumed"):
            continue
        relpath, qual = key.split("::")
        finfo = {"function": key, "cases": 0}
        if relpath == "lemma":
            finfo["lemma"] = True
        else:
            try:
                mod = source.module(relpath, REPO)
                node = mod.func(qual.split("~")[0])
                finfo["sha256"] = source.func_digest(node)
                finfo["lines"] = [node.lineno, node.end_lineno]
            except Exception as ex:
                not_extracted.append({"function": key, "reason": "not found: %s" % ex})
                continue
        n0 = len(eng.obligations)
        try:
            for i, kinds in enumerate(verify.param_cases(c)):
                verify.verify_function(eng, key, kinds, "" if i == 0 else "@case%d" % i)
                finfo["cases"] += 1
        except (Unsupported, ShapeMismatch) as ex:
            del eng.obligations[n0:]
            not_extracted.append({"function": key, "reason": "%s: %s" % (type(ex).__name__, ex)})
            continue
        finfo["obligations"] = len(eng.obligations) - n0
        functions.append(finfo)
    gen_s = time.time() - gen_t0
    workdir = tempfile.mkdtemp(prefix="pyvc_%s_" % prop)
    prefer = {}
    try:
        with open(os.path.join(VERIF, "baseline", "%s.json" % prop)) as fh:
            prefer = json.load(fh).get("by") or {}
    except Exception:
        prefer = {}
    try:
        d = verify.Discharger(eng, workdir=workdir, timeout_s=timeout_s, jobs=jobs,
                              solvers=["z3new", "cvc5", "z3old"], prefer=prefer)
        results = d.discharge_all(eng.obligations)
        # a second, longer attempt for anything left (so that load does not flip verdicts)
        retry = [i for i, r in enumerate(results) if r["status"] == "undischarged"]
        if retry and len(retry) <= 40:
            d2 = verify.Discharger(eng, workdir=workdir, timeout_s=timeout_s * 2, jobs=jobs, solvers=["z3new", "cvc5"])
            d2.cache, d2._bg, d2._str = d.cache, d._bg, getattr(d, "_str", None)
            d2.no_slices = True          # the sliced variants were tried in the first pass (budgets are CPU time: load does not flip them)
            d2.single_stage = True
            again = d2.discharge_all([eng.obligations[i] for i in retry])
            for i, r in zip(retry, again):
                if r["status"] == "discharged":
                    results[i] = r
        failed_files = {}
        for r in results:
            if r["status"] in ("undischarged", "refuted") and r.get("file"):
                with open(r["file"]) as fh:
                    failed_files[r["name"]] = fh.read()
    finally:
        shutil.rmtree(workdir, ignore_errors=True)
    obligations = [r for r in results if r["kind"] not in ("cover", "canary")]
    covers = [r for r in results if r["kind"] == "cover"]
    canaries = [r for r in results if r["kind"] == "canary"]
    broken = []
    bounded_only = bool(getattr(cset.pymod, "BOUNDED_ONLY", False)) and not cset.functions and not cset.lemmas
    if not obligations and not bounded_only and not not_extracted:
        # (a function that no longer has its contracted shape is "not extracted": its bounded stand-in decides, that is not vacuity)
        broken.append("zero obligations generated")
    for v in getattr(eng, "vacuous_exits", []) or []:
        # a for-loop whose invariants contradict its exit condition: everything after it would be proved vacuously
        broken.append("vacuous loop exit: %s" % v)
    for r in covers:
        if r["status"] == "vacuous":
            broken.append("vacuous precondition: %s" % r["name"])
    for r in canaries:
        if r["status"] == "vacuous":
            broken.append("canary proved (contradictory path condition): %s" % r["name"])
    # an unsupported construct on a branch that cannot be proved dead: the function is outside the verifier's reach on
    # this tree -> not extracted (its bounded stand-in decides), never an alarm by itself
    dead_fail = {func_of(r["name"]) for r in obligations if r["kind"] == "dead" and r["status"] != "discharged"}
    if dead_fail:
        for fn in sorted(dead_fail):
            not_extracted.append({"function": fn, "reason": "reachable code outside the supported subset: " + "; ".join(
                sorted({label_of(r["name"]).split("dead:")[-1] for r in obligations
                        if r["kind"] == "dead" and r["status"] != "discharged" and func_of(r["name"]) == fn}))[:300]})
        obligations = [r for r in obligations if func_of(r["name"]) not in dead_fail]
        functions = [f for f in functions if f["function"].split("::")[1] not in dead_fail]
    discharged = [r for r in obligations if r["status"] == "discharged"]
    failed = [r for r in obligations if r["status"] != "discharged"]
    # baseline: a function whose shape still matches must not lose obligations
    base_path = os.path.join(VERIF, "baseline", "%s.json" % prop)
    baseline = {}
    if os.path.exists(base_path):
        with open(base_path) as fh:
            baseline = json.load(fh)
    per_func = {}
    for r in obligations:
        per_func.setdefault(func_of(r["name"]), set()).add(label_of(r["name"]))
    extracted = {f["function"].split("::")[1] for f in functions}
    for fn, labels in (baseline.get("labels") or {}).items():
        if fn in extracted:
            # (a conjunctive goal is split into `.k` parts only when it stays a conjunction after simplification: compare without the part index)
            def base(lab):
                return re.sub(r"(\.\d+)+$", "", lab)
            have = {base(x) for x in per_func.get(fn, set())}
            missing = {m for m in set(labels) if base(m) not in have}
            # labels that disappear because a path became infeasible are legitimate only for path-specific kinds
            missing = {m for m in missing if "/post:" in m or "/inv-" in m or "/lemma" in m}
            if missing:
                broken.append("obligations lost for %s: %s" % (fn, sorted(missing)[:5]))
    if os.environ.get("PYVC_WRITE_BASELINE") and not failed and not not_extracted:
        os.makedirs(os.path.dirname(base_path), exist_ok=True)
        with open(base_path, "w") as fh:
            # "by": which strategy discharged an obligation that the first, short stage did not (tried first on later runs)
            by = {r["name"]: r["by"] for r in obligations if r["status"] == "discharged" and r.get("by") and r["by"] not in ("syntactic",)
                  and (r["time"] > 1.5 or "/slice" in r["by"])}
            json.dump({"labels": {fn: sorted(v) for fn, v in sorted(per_func.items())}, "by": by}, fh, indent=0, sort_keys=True)
    # bounded stand-in / replay search (always run: it is also the source of concrete failing inputs)
    only = None
    twin = run_twin(prop, tier, seed, only)
    if twin.get("error"):
        broken.append("twin: " + twin["error"])
    elif not twin.get("cases") or (bounded_only and not twin.get("nontrivial")):
        broken.append("bounded stand-in explored zero %s cases" % ("non-trivial" if twin.get("cases") else ""))
    known = load_known(prop)
    violations, known_seen = [], []
    lines = []
    twin_fail_by_func = {}
    for f in twin.get("failures", []):
        twin_fail_by_func.setdefault(f["function"], []).append(f)
    # (a) undischarged obligations
    seen_labels = set()
    for r in failed:
        lab = label_of(r["name"])
        if lab in seen_labels:
            continue
        seen_labels.add(lab)
        fn = func_of(r["name"])
        k = match_known(known, obligation=lab)
        if k is not None:
            known_seen.append(k["id"])
            continue
        concrete = [f for f in twin_fail_by_func.get(fn, []) if match_known(known, twin_failure=f) is None]
        rp = write_replay(prop, lab, r, failed_files.get(r["name"]), concrete[0] if concrete else None)
        violations.append(lab)
        lines.append("VIOLATION property=%s replay=%s%s" % (prop, rp, "" if concrete else " no-failing-input-found"))
    # (b) real failing inputs found by the twin that no undischarged obligation already reported
    reported_funcs = {func_of(v + "#0") for v in violations}
    for fn, fails in twin_fail_by_func.items():
        for f in fails:
            k = match_known(known, twin_failure=f)
            if k is not None:
                known_seen.append(k["id"])
                continue
            if fn in reported_funcs:
                continue
            reported_funcs.add(fn)
            rp = write_replay(prop, "%s/%s/bounded:%s" % (prop, fn, f["violations"][0] if f["violations"] else "?"), None, None, f)
            violations.append("bounded:" + fn)
            lines.append("VIOLATION property=%s replay=%s" % (prop, rp))
    for kid in sorted(set(known_seen)):
        k = [e for e in known if e["id"] == kid][0]
        print("KNOWN-FINDING: property=%s %s" % (prop, k["what"]))
    for ln in lines:
        print(ln)
    # ---------------- evidence
    by_backend = {}
    for r in discharged:
        by_backend[r["by"]] = by_backend.get(r["by"], 0) + 1
    solver_time = round(sum(r["time"] for r in results), 2)
    max_time = max([r["time"] for r in results] or [0])
    level = "proof"
    explanation = None
    if not_extracted or failed:
        level = "other"
        explanation = ("this run did not discharge every obligation (%d undischarged, %d functions not extracted); "
                       "the bounded stand-in results are reported under coverage.bounded" % (len(failed), len(not_extracted)))
    mod = cset.pymod
    samples = []
    for r in discharged[:3]:
        samples.append({"obligation": r["name"], "by": r["by"], "time_s": r["time"], "path": r.get("trail", [])[-4:]})
    coverage = {
        "obligations": len(obligations),
        "discharged": len(discharged),
        "checker_cmd": "python3-vt pyvc/check.py %s %s  (VC generation from %s working tree; z3-new 5.1 / cvc5 1.0.3 --enum-inst / z3 4.8.12, %d CPU-seconds per obligation per solver step)" % (prop, tier, REPO, timeout_s),
        "trusted_base": sorted(set(getattr(mod, "TRUSTED", []) + [
            "pyvc VC generator (Python subset semantics, DESIGN section 2)", "SMT solvers z3/cvc5"])),
        "functions_under_contract": functions,
        "not_extracted": not_extracted,
        "by_backend": by_backend,
        "solver_time_s": solver_time,
        "max_obligation_time_s": max_time,
        "vc_generation_s": round(gen_s, 2),
        "covers": {"total": len(covers), "non_vacuous": len([c for c in covers if c["status"] == "covered"])},
        "canaries_refuted": len([c for c in canaries if c["status"] == "covered"]),
        "undischarged": sorted({label_of(r["name"]) for r in failed}),
        "bounded": {
            "label": "bounded stand-in (executable twin of the same contracts on the real code) -- not counted in discharged",
            "cases": twin.get("cases", 0), "distinct_nontrivial": twin.get("nontrivial", 0), "bound": twin.get("bound", ""),
            "exhaustive": twin.get("exhaustive", False), "failures": len(twin.get("failures", [])),
            "wall_s": twin.get("wall_s"), "samples": twin.get("samples", [])[:3],
        },
        "not_applicable_clauses": getattr(mod, "NOT_APPLICABLE_CLAUSES", []),
        "known_findings_seen": sorted(set(known_seen)),
        "samples": samples,
        "evaluations": max(1, twin.get("cases", 0)),
        "distinct_nontrivial": max(2, twin.get("nontrivial", 0)) if twin.get("nontrivial", 0) >= 2 else 0,
        "rule": twin.get("rule", ""),
    }
    if coverage["distinct_nontrivial"] == 0:
        del coverage["distinct_nontrivial"]
        del coverage["evaluations"]
    if bounded_only:
        # nothing is proved for this property: the evidence is that of a bounded exploration
        level = "exploration"
        for k in ("obligations", "discharged", "checker_cmd"):
            coverage.pop(k, None)
        coverage["evaluations"] = twin.get("cases", 0)
        coverage["distinct_nontrivial"] = twin.get("nontrivial", 0)
        coverage["samples"] = twin.get("samples", [])[:3] or samples
        coverage["exhaustive"] = bool(twin.get("exhaustive", False))
    if explanation:
        coverage["explanation"] = explanation
    ev = {
        "property_id": prop, "tier": tier, "seed": seed, "level": level, "coverage": coverage,
        "assumptions": sorted(set(list(getattr(mod, "ASSUMPTIONS", [])) + sorted(eng.assumptions_used))),
        "violations": len(violations),
    }
    sys.stderr.write("pyvc %s %s: obligations=%d discharged=%d undischarged=%s not_extracted=%d twin_cases=%s twin_failures=%d "
                     "violations=%d known=%s\n" % (prop, tier, len(obligations), len(discharged),
                                                   sorted({label_of(r["name"]) for r in failed})[:6], len(not_extracted),
                                                   twin.get("cases"), len(twin.get("failures", [])), len(violations),
                                                   sorted(set(known_seen))))
    if broken:
        for b in broken:
            sys.stderr.write("CHECK-BROKEN %s: %s\n" % (prop, b))
        # a violation that was found and printed stays a violation (exit 1) even if the run also noticed something wrong with itself
        return (1 if violations else 3), ev
    return (1 if violations else 0), ev


def match_known(known, obligation=None, twin_failure=None):
    for k in known:
        if obligation is not None and obligation in (k.get("obligations") or []):
            return k
        if twin_failure is not None:
            m = k.get("twin_match")
            if m and m.get("function") == twin_failure.get("function") and \
                    any(v.startswith(m.get("clause", "")) for v in twin_failure.get("violations", [])) and \
                    all(twin_failure.get("tags", {}).get(t) == v for t, v in (m.get("tags") or {}).items()):
                return k
    return None


def write_replay(prop, label, result, smt_text, concrete):
    h = hashlib.sha1(label.encode()).hexdigest()[:10]
    rel = os.path.join("replays", "%s-%s.json" % (prop, h))
    data = {"property": prop, "obligation": label}
    if result is not None:
        data["solver_results"] = result.get("tried")
        data["path"] = result.get("trail")
    if smt_text is not None:
        data["smt2_head"] = smt_text[-3000:]
    if concrete is not None:
        data["failing_input"] = concrete
    else:
        data["note"] = "no-failing-input-found: the verifier could not discharge this obligation and the bounded search found no concrete input"
    with open(os.path.join(OUT, rel), "w") as fh:
        json.dump(data, fh, indent=1, sort_keys=True, default=str)
    return rel


def replay(prop, path):
    with open(os.path.join(VERIF, path) if not os.path.isabs(path) else path) as fh:
        data = json.load(fh)
    print("obligation:", data.get("obligation"))
    fi = data.get("failing_input")
    if not fi:
        print(data.get("note"))
        print("solver results:", data.get("solver_results"))
        return 0
    cmd = [VENV_PY, os.path.join(VERIF, "pyvc", "twin_main.py"), prop, "--replay", json.dumps(fi)]
    env = dict(os.environ)
    env["PYTHONPATH"] = REPO + os.pathsep + VERIF + os.pathsep + env.get("PYTHONPATH", "")
    p = subprocess.run(cmd, env=env, cwd=VERIF)
    return p.returncode


if __name__ == "__main__":
    sys.exit(main(sys.argv[1:]))
