"""pyvc.interp -- symbolic execution of the supported Python subset over typed term trees.

One evaluator serves both the real code (code mode: forks on control flow, emits definedness and
frame obligations) and contract expressions (pure mode: total semantics, no forks, no obligations).
"""
from __future__ import annotations

import ast
import itertools
import sys

import z3

from . import core
from .core import (NONE, ANY, BOOL, DICT, INT, LIST, OBJ, OPT, REAL, SET, STR, TUP, Kind, Val, VList, STRINGS,
                   box, unbox, has_kind, keysort, to_key, from_key, tselect, tstore, tite, teq, tfresh,
                   tmap, tmap2, default_tree, sort_tree, parse_kind)
from .source import Unsupported, ShapeMismatch, module as src_module, strip_docstring, decorators, loops_of, \
    dotted_to_relpath

sys.setrecursionlimit(20000)


# =========================================================================== values
class SV:
    """symbolic value: kind + term tree (+ origin = where a mutable container lives)"""
    __slots__ = ("kind", "tree", "origin", "lits", "meta")

    def __init__(self, kind, tree, origin=None, lits=None, meta=None):
        self.kind, self.tree, self.origin, self.lits, self.meta = kind, tree, origin, lits, meta

    def __repr__(self):
        return "SV(%r)" % (self.kind,)


class Alias:
    """a name bound to a container that lives elsewhere (re-read through its origin on every use)"""
    __slots__ = ("origin", "kind")

    def __init__(self, origin, kind):
        self.origin, self.kind = origin, kind


class FuncVal:
    def __init__(self, node, frame, mod, qualname, self_val=None, cls=None):
        self.node, self.frame, self.mod, self.qualname, self.self_val, self.cls = node, frame, mod, qualname, self_val, cls


class ClassVal:
    def __init__(self, name, mod=None):
        self.name, self.mod = name, mod


class ModuleVal:
    def __init__(self, dotted):
        self.dotted = dotted


class BuiltinVal:
    def __init__(self, name, fn):
        self.name, self.fn = name, fn


class BoundBuiltin:
    def __init__(self, recv, name):
        self.recv, self.name = recv, name


class ViewVal:
    """dict views / iteration specs: kind in {'keys','values','items'} over a dict SV (snapshot)"""
    def __init__(self, what, dsv):
        self.what, self.dsv = what, dsv


class IterSpec:
    """what a for-loop iterates: mode 'set' (arbitrary duplicate-free order over a membership array),
    'seq' (index order) or 'concrete' (python list of values, unrolled)."""
    def __init__(self, mode, **kw):
        self.mode = mode
        self.__dict__.update(kw)


class LambdaVal:
    def __init__(self, node, frame, mod):
        self.node, self.frame, self.mod = node, frame, mod


MUTABLE_TAGS = ("set", "dict", "list")


def is_container(v):
    return isinstance(v, SV) and v.kind.tag in MUTABLE_TAGS


# =========================================================================== state
class State:
    __slots__ = ("frames", "cur", "heap", "nref", "pc", "old", "modstack", "pure", "entry", "entry2", "iter0", "ghost", "trail")

    def __init__(self):
        self.frames = {}      # frame id -> (env dict, parent frame id or None, module)
        self.cur = 0
        self.heap = {}        # (cls, field) -> lifted tree over Int
        self.nref = None
        self.pc = []
        self.old = None       # State at function entry (for old())
        self.modstack = ()    # active frame conditions
        self.pure = False
        self.entry = None     # loop-entry state (for at_entry())
        self.entry2 = None    # entry state of the enclosing loop (for at_entry2())
        self.iter0 = None     # state at the start of the current iteration of the enclosing loop (for at_iter())
        self.ghost = {}
        self.trail = ()       # human-readable path description

    def copy(self):
        s = State()
        s.frames = dict(self.frames)
        s.cur, s.heap, s.nref, s.pc = self.cur, dict(self.heap), self.nref, list(self.pc)
        s.old, s.modstack, s.pure, s.entry = self.old, self.modstack, self.pure, self.entry
        s.entry2 = self.entry2
        s.iter0 = self.iter0
        s.ghost = dict(self.ghost)
        s.trail = self.trail
        return s

    def assume(self, *conds):
        s = self.copy()
        for c in conds:
            if z3.is_true(c):
                continue
            s.pc.append(c)
        return s

    def note(self, txt):
        s = self.copy()
        s.trail = self.trail + (txt,)
        return s

    # -- environment
    def env(self, fid=None):
        return self.frames[self.cur if fid is None else fid][0]

    def lookup_frame(self, name):
        fid = self.cur
        while fid is not None:
            env, parent, _ = self.frames[fid]
            if name in env:
                return fid
            fid = parent
        return None

    def setvar(self, name, value, fid=None):
        s = self.copy()
        fid = s.cur if fid is None else fid
        env, parent, mod = s.frames[fid]
        env = dict(env)
        env[name] = value
        s.frames[fid] = (env, parent, mod)
        return s

    def push_frame(self, parent, mod, env=None):
        s = self.copy()
        fid = max(s.frames) + 1 if s.frames else 0
        s.frames[fid] = (dict(env or {}), parent, mod)
        s.cur = fid
        return s, fid

    def pop_frame(self, back_to, drop=None):
        s = self.copy()
        if drop is not None and drop in s.frames and drop != back_to:
            del s.frames[drop]
        s.cur = back_to
        return s


class Obligation:
    def __init__(self, name, kind, pc, goal, trail=(), expect="unsat"):
        self.name, self.kind, self.pc, self.goal, self.trail, self.expect = name, kind, list(pc), goal, trail, expect

    def __repr__(self):
        return "<Ob %s>" % self.name


class PathLimit(Exception):
    pass


# =========================================================================== interpreter
MUTATING_METHODS = {"add", "discard", "remove", "pop", "update", "append", "extend", "clear", "setdefault",
                    "insert", "popitem", "sort", "reverse", "difference_update", "intersection_update"}


class Interp:
    def __init__(self, cset, max_paths=4000):
        self.cset = cset                  # contracts.ContractSet
        self.obligations = []
        self.axioms = []                  # global background axioms (z3 Bool)
        self.fmt_funcs = {}
        self.uf = {}
        self.max_paths = max_paths
        self.npaths = 0
        self.cur_func = None
        self.ob_prefix = ""
        self.ob_count = {}
        self.prune_solver = None
        self.assumptions_used = set()
        self.lib = {}
        self.defs = []
        self.raise_sink = [[]]
        from . import lib_builtins, lib_nx
        lib_builtins.install(self)
        lib_nx.install(self)

    # ------------------------------------------------------------------ obligations
    def emit(self, st, kind, label, goal, expect="unsat", focus=None):
        if st.pure:
            return
        # conjunctive goals are split into one obligation per conjunct (smaller queries, precise names)
        parts = []

        def flat(g):
            if z3.is_and(g):
                for ch in g.children():
                    flat(ch)
            else:
                parts.append(g)
        flat(goal)
        if not parts:
            parts = [goal]
        for j, g in enumerate(parts):
            base = "%s/%s:%s%s" % (self.ob_prefix, kind, label, "" if len(parts) == 1 else ".%d" % j)
            n = self.ob_count.get(base, 0)
            self.ob_count[base] = n + 1
            ob = Obligation("%s#%d" % (base, n), kind, st.pc, g, st.trail, expect)
            if focus is not None:
                # `using`: the contract names the earlier staged asserts this step follows from; all of them are hypotheses of the
                # path already (each was proved before it was assumed), so a query over this subset is a sound, smaller variant
                ob.focus = [f for f in focus if any(f.eq(h) for h in st.pc)]
            self.obligations.append(ob)

    def feasible(self, st, extra=None):
        """cheap pruning: False only when z3 proves the path condition unsatisfiable"""
        if self.prune_solver is None:
            return True
        s = self.prune_solver
        s.push()
        try:
            for c in st.pc:
                s.add(c)
            if extra is not None:
                s.add(extra)
            r = s.check()
        finally:
            s.pop()
        return r != z3.unsat

    def as_static_tuple(self, st, v, max_len=8):
        """components of a `Val` that the path condition proves to be a tuple of one fixed length (else None).  Sound: the
        decomposition is used only when `pc => is_tuple(v) and len(v) == n` is proved (the definitions in force are added)."""
        if self.prune_solver is None:
            return None
        items = Val.items(v.tree)
        s = self.prune_solver
        for n in range(0, max_len + 1):
            fact = z3.And(Val.is_VTup(v.tree), core.vlist_has_len(items, n))
            s.push()
            try:
                for c in st.pc:
                    s.add(c)
                s.add(z3.Not(fact))
                r = s.check()
            finally:
                s.pop()
            if r == z3.unsat:
                return tuple(SV(ANY, core.vlist_nth(items, i)) for i in range(n))
        return None

    # ------------------------------------------------------------------ helpers: values
    def lit(self, v):
        """python constant -> SV"""
        if isinstance(v, SV):
            return v
        if v is None:
            return SV(NONE, ())
        if isinstance(v, bool):
            return SV(BOOL, z3.BoolVal(v))
        if isinstance(v, int):
            return SV(INT, z3.IntVal(v))
        if isinstance(v, float):
            return SV(REAL, z3.RealVal(repr(v)))
        if isinstance(v, str):
            return SV(STR, STRINGS.lit(v))
        if isinstance(v, tuple):
            parts = [self.lit(x) for x in v]
            return SV(TUP(*[p.kind for p in parts]), tuple(p.tree for p in parts))
        if isinstance(v, list) and all(not isinstance(x, SV) or x.kind.tag not in MUTABLE_TAGS for x in v):
            # a list literal used as an (immutable) attribute value: modelled as the tuple of its items
            self.assumptions_used.add("A-attrlist: list literals stored as attribute values are modelled as tuples "
                                      "(their identity/mutability is not tracked)")
            parts = [self.lit(x) for x in v]
            return SV(TUP(*[p.kind for p in parts]), tuple(p.tree for p in parts))
        raise Unsupported("cannot lift python value %r" % (v,))

    def as_any(self, v):
        """-> z3 Val term"""
        v = self.lit(v) if not isinstance(v, SV) else v
        if v.kind.tag == "list":
            v = self.list_as_tuple(v)
        return box(v.kind, v.tree)

    def coerce(self, v, kind, st=None, what="value"):
        """convert value to `kind` (boxing/unboxing/opt-wrapping); no run-time check is generated here"""
        if not isinstance(v, SV):
            if v is None and kind.tag == "opt":
                return SV(kind, (z3.BoolVal(True), default_tree(kind.args[0])))
            if isinstance(v, (list, set, dict)) and not v and kind.tag in MUTABLE_TAGS:
                return SV(kind, default_tree(kind))
            if isinstance(v, bool) and kind.tag == "int":
                return SV(INT, z3.IntVal(int(v)))
            if isinstance(v, int) and not isinstance(v, bool) and kind.tag == "real":
                return SV(REAL, z3.RealVal(v))
            v = self.lit(v)
        if v.kind == kind:
            return v
        k0 = v.kind
        if kind.tag == "any":
            return SV(ANY, self.as_any(v))
        if k0.tag == "none":
            if kind.tag == "opt":
                return SV(kind, (z3.BoolVal(True), default_tree(kind.args[0])))
            raise Unsupported("None where %r is required (%s)" % (kind, what))
        if kind.tag == "opt":
            if k0.tag == "opt":
                inner0, inner1 = k0.args[0], kind.args[0]
                iv = self.coerce(SV(inner0, v.tree[1]), inner1)
                return SV(kind, (v.tree[0], iv.tree))
            iv = self.coerce(v, kind.args[0])
            return SV(kind, (z3.BoolVal(False), iv.tree))
        if k0.tag == "any":
            return SV(kind, unbox(kind, v.tree))
        if k0.tag == "opt":
            return self.coerce(SV(k0.args[0], v.tree[1]), kind)
        if k0.tag == "int" and kind.tag == "real":
            return SV(REAL, z3.ToReal(v.tree))
        if k0.tag == "bool" and kind.tag == "int":
            return SV(INT, z3.If(v.tree, z3.IntVal(1), z3.IntVal(0)))
        if k0.tag == "bool" and kind.tag == "real":
            return SV(REAL, z3.If(v.tree, z3.RealVal(1), z3.RealVal(0)))
        if k0.tag == "tuple" and kind.tag == "tuple" and len(k0.args) == len(kind.args):
            parts = [self.coerce(SV(a, t), b) for a, t, b in zip(k0.args, v.tree, kind.args)]
            return SV(kind, tuple(p.tree for p in parts))
        if k0.tag in MUTABLE_TAGS and kind.tag == k0.tag:
            # element-kind conversion of containers is only done for identical sorts
            if sort_tree(k0) == sort_tree(kind) or str(sort_tree(k0)) == str(sort_tree(kind)):
                return SV(kind, v.tree, v.origin)
            if k0.tag == "set" and self._is_empty_const(v):
                return SV(kind, default_tree(kind))
        raise Unsupported("cannot convert %r to %r (%s)" % (k0, kind, what))

    def _is_empty_const(self, v):
        return False

    def join_kinds(self, a, b):
        if a == b:
            return a
        if a.tag == "none":
            return OPT(b)
        if b.tag == "none":
            return OPT(a)
        if a.tag == "opt" and b.tag == "opt":
            return OPT(self.join_kinds(a.args[0], b.args[0]))
        if a.tag == "opt":
            return OPT(self.join_kinds(a.args[0], b))
        if b.tag == "opt":
            return OPT(self.join_kinds(a, b.args[0]))
        num = ("bool", "int", "real")
        if a.tag in num and b.tag in num:
            return Kind(num[max(num.index(a.tag), num.index(b.tag))])
        scal = ("bool", "int", "real", "str", "any", "tuple", "obj")
        if (a.tag == "list" and b.tag in scal) or (b.tag == "list" and a.tag in scal):
            return ANY      # a fixed-length list literal used as an attribute value (boxed as a tuple, A-attrlist)
        if a.tag in scal and b.tag in scal:
            if a.tag == "tuple" and b.tag == "tuple" and len(a.args) == len(b.args):
                return TUP(*[self.join_kinds(x, y) for x, y in zip(a.args, b.args)])
            return ANY
        raise Unsupported("cannot join kinds %r and %r" % (a, b))

    def ite(self, c, a, b):
        # an empty literal container joined with a typed container takes that type
        def empty(x):
            return (isinstance(x, (list, set, dict)) and not x) or type(x).__name__ == "EmptyLit"
        if empty(a) and isinstance(b, SV) and b.kind.tag in MUTABLE_TAGS:
            a = SV(b.kind, default_tree(b.kind))
        if empty(b) and isinstance(a, SV) and a.kind.tag in MUTABLE_TAGS:
            b = SV(a.kind, default_tree(a.kind))
        a = self.lit(a) if not isinstance(a, SV) else a
        b = self.lit(b) if not isinstance(b, SV) else b
        if z3.is_true(c):
            return a
        if z3.is_false(c):
            return b
        if a.kind == b.kind:
            return SV(a.kind, tite(c, a.tree, b.tree))
        k = self.join_kinds(a.kind, b.kind)
        a2, b2 = self.coerce(a, k), self.coerce(b, k)
        return SV(k, tite(c, a2.tree, b2.tree))

    def truthy(self, v):
        """-> z3 Bool"""
        if not isinstance(v, SV):
            if isinstance(v, (FuncVal, ClassVal, ModuleVal, BuiltinVal, LambdaVal)):
                return z3.BoolVal(True)
            if isinstance(v, ViewVal):
                return self.truthy(v.dsv)
            return z3.BoolVal(bool(v))
        t = v.kind.tag
        if t == "bool":
            return v.tree
        if t == "none":
            return z3.BoolVal(False)
        if t == "int":
            return v.tree != 0
        if t == "real":
            return v.tree != 0
        if t == "str":
            return v.tree != STRINGS.lit("")
        if t == "any":
            return core.val_truthy(v.tree)
        if t == "obj":
            return z3.BoolVal(True)
        if t == "tuple":
            return z3.BoolVal(len(v.kind.args) > 0)
        if t == "opt":
            return z3.And(z3.Not(v.tree[0]), self.truthy(SV(v.kind.args[0], v.tree[1])))
        if t == "set":
            return v.tree != default_tree(v.kind)
        if t == "dict":
            return v.tree[0] != default_tree(v.kind)[0]
        if t == "list":
            return v.tree[0] > 0
        raise Unsupported("truthiness of %r" % (v.kind,))

    def py_eq(self, a, b):
        """Python == -> z3 Bool"""
        if not isinstance(a, SV) and not isinstance(b, SV):
            if isinstance(a, (FuncVal, ClassVal)) or isinstance(b, (FuncVal, ClassVal)):
                return z3.BoolVal(a is b)
            return z3.BoolVal(a == b)
        a = self.lit(a) if not isinstance(a, SV) else a
        b = self.lit(b) if not isinstance(b, SV) else b
        ka, kb = a.kind, b.kind
        if ka.tag == "none" or kb.tag == "none":
            o = b if ka.tag == "none" else a
            if o.kind.tag == "none":
                return z3.BoolVal(True)
            if o.kind.tag == "opt":
                return o.tree[0]
            if o.kind.tag == "any":
                return o.tree == Val.VNone
            return z3.BoolVal(False)
        if ka.tag == "opt" or kb.tag == "opt":
            na = a.tree[0] if ka.tag == "opt" else z3.BoolVal(False)
            nb = b.tree[0] if kb.tag == "opt" else z3.BoolVal(False)
            ia = SV(ka.args[0], a.tree[1]) if ka.tag == "opt" else a
            ib = SV(kb.args[0], b.tree[1]) if kb.tag == "opt" else b
            if z3.is_true(na):
                return nb if kb.tag == "opt" else (ib.tree == Val.VNone if ib.kind.tag == "any" else z3.BoolVal(False))
            if z3.is_true(nb):
                return na if ka.tag == "opt" else (ia.tree == Val.VNone if ia.kind.tag == "any" else z3.BoolVal(False))
            return z3.Or(z3.And(na, nb), z3.And(z3.Not(na), z3.Not(nb), self.py_eq(ia, ib)))
        num = ("bool", "int", "real")
        if ka.tag in num and kb.tag in num:
            if ka == kb:
                return a.tree == b.tree
            k = self.join_kinds(ka, kb)
            return self.coerce(a, k).tree == self.coerce(b, k).tree
        if ka.tag == "any" or kb.tag == "any":
            if (kb.tag if ka.tag == "any" else ka.tag) in MUTABLE_TAGS:
                return z3.BoolVal(False)
            return core.val_pyeq(self.as_any(a), self.as_any(b))
        if ka.tag != kb.tag:
            return z3.BoolVal(False)
        if ka.tag == "tuple":
            if len(ka.args) != len(kb.args):
                return z3.BoolVal(False)
            return z3.And(*[self.py_eq(SV(x, s), SV(y, t)) for x, s, y, t in zip(ka.args, a.tree, kb.args, b.tree)]) \
                if ka.args else z3.BoolVal(True)
        if ka.tag in ("str", "obj"):
            return a.tree == b.tree
        if ka.tag == "set":
            if str(sort_tree(ka)) != str(sort_tree(kb)):
                raise Unsupported("== on sets of different element sorts")
            return a.tree == b.tree
        if ka.tag == "dict":
            if str(sort_tree(ka)) != str(sort_tree(kb)):
                raise Unsupported("== on dicts of different sorts")
            return self.dict_eq(a, b)
        if ka.tag == "list":
            return self.list_eq(a, b)
        raise Unsupported("== on %r / %r" % (ka, kb))

    def dict_eq(self, a, b):
        ks = keysort(a.kind.args[0])
        k = z3.Const(core.fresh_name("k"), ks)
        va, vb = tselect(a.tree[1], k), tselect(b.tree[1], k)
        inner = self.py_eq(SV(a.kind.args[1], va), SV(b.kind.args[1], vb))
        return z3.And(a.tree[0] == b.tree[0], z3.ForAll([k], z3.Implies(z3.Select(a.tree[0], k), inner)))

    def list_eq(self, a, b):
        i = z3.Int(core.fresh_name("i"))
        va, vb = tselect(a.tree[1], i), tselect(b.tree[1], i)
        inner = self.py_eq(SV(a.kind.args[0], va), SV(b.kind.args[0], vb))
        return z3.And(a.tree[0] == b.tree[0], z3.ForAll([i], z3.Implies(z3.And(0 <= i, i < a.tree[0]), inner)))

    # ------------------------------------------------------------------ origins (lvalues)
    def load(self, st, origin, kind):
        tag = origin[0]
        if tag == "var":
            v = st.frames[origin[1]][0][origin[2]]
            if isinstance(v, Alias):
                return self.load(st, v.origin, v.kind)
            return SV(v.kind, v.tree, origin, None, v.meta)
        if tag == "fld":
            _, ref, cls, fld = origin
            return SV(kind, tselect(self.heap_get(st, cls, fld), ref), origin)
        if tag == "item":
            _, porigin, pkind, key = origin
            parent = self.load(st, porigin, pkind)
            return SV(kind, tselect(parent.tree[1], key), origin)
        if tag == "optval":
            _, porigin, pkind = origin
            parent = self.load(st, porigin, pkind)
            return SV(kind, parent.tree[1], origin)
        h = getattr(self, "origin_handlers", {}).get(tag)
        if h:
            return h[0](st, origin, kind)
        raise Unsupported("origin %r" % (tag,))

    def store(self, st, origin, sv):
        """write a (container) value back to where it lives; returns new state"""
        tag = origin[0]
        if tag == "var":
            cur = st.frames[origin[1]][0].get(origin[2])
            if isinstance(cur, Alias):
                return self.store(st, cur.origin, sv)
            return st.setvar(origin[2], SV(sv.kind, sv.tree, origin), origin[1])
        if tag == "fld":
            _, ref, cls, fld = origin
            return self.heap_write(st, cls, fld, ref, sv)
        if tag == "item":
            _, porigin, pkind, key = origin
            parent = self.load(st, porigin, pkind)
            vk = pkind.args[1] if pkind.tag == "dict" else pkind.args[0]
            sv = self.coerce(sv, vk)
            newp = SV(pkind, (parent.tree[0], tstore(parent.tree[1], key, sv.tree)))
            return self.store(st, porigin, newp)
        if tag == "optval":
            _, porigin, pkind = origin
            sv = self.coerce(sv, pkind.args[0])
            return self.store(st, porigin, SV(pkind, (z3.BoolVal(False), sv.tree)))
        h = getattr(self, "origin_handlers", {}).get(tag)
        if h:
            return h[1](st, origin, sv)
        raise Unsupported("origin %r" % (tag,))

    # ------------------------------------------------------------------ heap
    def field_kind(self, cls, fld):
        c = self.cset.classes.get(cls)
        if c is None or fld not in c["fields"]:
            raise Unsupported("field %s.%s is not declared in CLASSES" % (cls, fld))
        return c["fields"][fld]

    def heap_get(self, st, cls, fld):
        key = (cls, fld)
        if key not in st.heap:
            raise Unsupported("heap field %s.%s not initialised" % key)
        return st.heap[key]

    def heap_write(self, st, cls, fld, ref, sv):
        k = self.field_kind(cls, fld)
        sv = self.coerce(sv, k, what="field %s.%s" % (cls, fld))
        self.check_frame(st, cls, fld, ref)
        s = st.copy()
        s.heap[(cls, fld)] = tstore(self.heap_get(st, cls, fld), ref, sv.tree)
        return s

    def check_frame(self, st, cls, fld, ref):
        if st.pure:
            return
        for i, frame in enumerate(st.modstack):
            allowed = [z3.BoolVal(False)]
            for (c, f, target) in frame["items"]:
                if c == cls and f == fld:
                    allowed.append(z3.BoolVal(True) if target is None else ref == target)
            allowed.append(ref >= frame["nref"])     # objects allocated after the frame was entered
            goal = z3.simplify(z3.Or(*allowed))
            if z3.is_true(goal):
                continue
            self.emit(st, "frame", "%s.%s@%s" % (cls, fld, frame["name"]), goal)

    def alloc(self, st, cls):
        s = st.copy()
        ref = s.nref
        s.nref = s.nref + 1
        return s, ref

    # ------------------------------------------------------------------ definitions under binders
    def under_binder(self, xs, thunk):
        """Evaluate `thunk()` -> list of trees while xs (z3 constants) are bound variables of an enclosing quantifier or
        comprehension.  Fresh symbols created meanwhile (comprehension results, witnesses, ...) depend on xs: they are
        turned into functions of xs, their definitions are universally closed over xs, and the returned trees are
        rewritten accordingly.  Without this a definition made under a binder would silently denote one fixed value."""
        n0, c0 = len(self.defs), core._fresh_ctr[0]
        self._binder_depth = getattr(self, "_binder_depth", 0) + 1
        try:
            res = thunk()
        finally:
            self._binder_depth -= 1
        new_defs = self.defs[n0:]
        if not new_defs:
            return res
        del self.defs[n0:]
        xs = list(xs)
        xnames = {x.decl().name() for x in xs}
        def syms_of(e):
            """(fresh uninterpreted decls, mentions a bound var?) of one expression"""
            found, dep = {}, False
            stack, seen = [e], set()
            while stack:
                t = stack.pop()
                if t.get_id() in seen:
                    continue
                seen.add(t.get_id())
                if z3.is_quantifier(t):
                    stack.append(t.body())
                elif z3.is_app(t):
                    d = t.decl()
                    if d.kind() == z3.Z3_OP_UNINTERPRETED:
                        nm = d.name()
                        if nm in xnames:
                            dep = True
                        elif "!" in nm:
                            try:
                                idx = int(nm.rsplit("!", 1)[1])
                            except ValueError:
                                idx = -1
                            if idx > c0:
                                found[nm] = d
                    stack.extend(t.children())
            return found, dep
        info = [syms_of(d) for d in new_defs]
        # only definitions that (transitively) depend on the bound variables are lifted
        dependent = [dep for _, dep in info]
        dep_syms = {}
        changed = True
        while changed:
            changed = False
            for i, (found, _) in enumerate(info):
                if dependent[i]:
                    for nm, d in found.items():
                        if nm not in dep_syms:
                            dep_syms[nm] = d
                            changed = True
                elif any(nm in dep_syms for nm in found):
                    dependent[i] = True
                    changed = True
        for i, d in enumerate(new_defs):
            if not dependent[i]:
                self.defs.append(d)
        new_defs = [d for i, d in enumerate(new_defs) if dependent[i]]
        decls = dict(dep_syms)
        const_sub, fun_sub = [], []
        for nm, d in decls.items():
            dom = [x.sort() for x in xs] + [d.domain(i) for i in range(d.arity())]
            F = z3.Function(core.fresh_name(nm.split("!")[0] + "_of"), *(dom + [d.range()]))
            if d.arity() == 0:
                const_sub.append((d(), F(*xs)))
            else:
                fun_sub.append((d, F(*(xs + [z3.Var(i, d.domain(i)) for i in range(d.arity())]))))

        def rw(e):
            if fun_sub:
                e = z3.substitute_funs(e, *fun_sub)
            if const_sub:
                e = z3.substitute(e, *const_sub)
            return e
        rng = self.__dict__.setdefault("def_range", {})
        for d in new_defs:
            q = z3.ForAll(xs, rw(d))
            self.defs.append(q)
            rng[q.get_id()] = (c0, core._fresh_ctr[0], q)      # defines the lifted symbols created during this binder
        return [core.tmap(rw, tr) for tr in res]

    def define(self, axioms):
        """definitional axioms about fresh symbols (conservative extensions); attached to an obligation only
        when one of their symbols occurs in it"""
        lo = getattr(self, "_def_lo", 0)
        hi = core._fresh_ctr[0]
        rng = self.__dict__.setdefault("def_range", {})
        for a in axioms:
            self.defs.append(a)
            rng[a.get_id()] = (lo, hi, a)          # (the axiom is kept alive by self.defs / this entry: ids stay unique)
        self._def_lo = hi

    # ------------------------------------------------------------------ uninterpreted helpers
    def ufunc(self, name, *sorts):
        key = (name,) + tuple(str(s) for s in sorts)
        if key not in self.uf:
            self.uf[key] = z3.Function(name, *sorts)
        return self.uf[key]

    # ------------------------------------------------------------------ name resolution
    def resolve_name(self, st, name):
        fid = st.lookup_frame(name)
        if fid is not None:
            v = st.frames[fid][0][name]
            if isinstance(v, Alias):
                return self.load(st, v.origin, v.kind)
            if isinstance(v, SV) and v.kind.tag in MUTABLE_TAGS:
                return SV(v.kind, v.tree, ("var", fid, name), None, v.meta)
            return v
        # ghost / spec names
        if name in st.ghost:
            return st.ghost[name]
        mod = st.frames[st.cur][2]
        return self.resolve_global(st, mod, name)

    def resolve_global(self, st, mod, name):
        if name in self.lib and name in getattr(self.cset, "native_only", ()):
            return self.lib[name]       # the contract file only supplies the native (twin) meaning of this builtin
        if name in self.lib:
            v = self.lib[name]
            # module-level names of the repo shadow library names only if defined there
            if mod is None or (name not in mod.funcs and name not in mod.classes and name not in mod.imports
                               and name not in mod.globals):
                return v
        spec = self.cset.spec_funcs.get(name)
        if spec is not None and (mod is None or mod is self.cset.spec_mod or name not in mod.funcs):
            return FuncVal(spec, None, self.cset.spec_mod, "spec:" + name)
        if mod is not None:
            if name in mod.funcs and "." not in name:
                return FuncVal(mod.funcs[name], None, mod, name)
            if name in mod.classes:
                return ClassVal(name, mod)
            if name in mod.imports:
                dotted, attr = mod.imports[name]
                if attr is None:
                    return ModuleVal(dotted)
                rel = dotted_to_relpath(dotted, getattr(self.cset, "root", None))
                if rel is not None:
                    m2 = src_module(rel, getattr(self.cset, "root", None))
                    if attr in m2.classes:
                        return ClassVal(attr, m2)
                    if attr in m2.funcs:
                        return FuncVal(m2.funcs[attr], None, m2, attr)
                    if attr in m2.imports:
                        return self.resolve_global(st, m2, attr)
                    if attr in m2.globals:
                        return self.eval_const_global(st, m2, attr)
                    sub = dotted_to_relpath(dotted + "." + attr, getattr(self.cset, "root", None))
                    if sub:
                        return ModuleVal(dotted + "." + attr)
                key = "%s.%s" % (dotted, attr)
                if key in self.lib:
                    return self.lib[key]
                if attr in self.lib:
                    return self.lib[attr]
                if attr in self.cset.classes:
                    return ClassVal(attr, None)
                return ModuleVal(key)
            if name in mod.globals:
                return self.eval_const_global(st, mod, name)
        if name in self.cset.classes:
            return ClassVal(name, None)
        sm = self.cset.spec_mod
        if mod is not sm and name in sm.globals:
            return self.eval_const_global(st, sm, name)
        raise Unsupported("unresolved name %r" % name)

    def eval_const_global(self, st, mod, name):
        node = mod.globals[name]
        s2, fid = st.push_frame(None, mod)
        s2.pure = True
        outs = list(self.eval(node, s2))
        if len(outs) != 1:
            raise Unsupported("module constant %s" % name)
        return outs[0][0]

    # ------------------------------------------------------------------ expression evaluation
    def eval(self, e, st):
        """generator of (value, state)"""
        m = getattr(self, "e_" + type(e).__name__, None)
        if m is None:
            raise Unsupported("expression %s (line %s)" % (type(e).__name__, getattr(e, "lineno", "?")))
        yield from m(e, st)

    def eval1(self, e, st):
        """single-outcome evaluation (pure contexts)"""
        outs = list(self.eval(e, st))
        if len(outs) != 1:
            raise Unsupported("expression has %d outcomes in a context that needs one value: %s" % (len(outs), ast.unparse(e)[:120]))
        return outs[0]

    def eval_list(self, es, st):
        """evaluate expressions left to right; generator of (values list, state)"""
        if not es:
            yield [], st
            return
        for v, s1 in self.eval(es[0], st):
            for rest, s2 in self.eval_list(es[1:], s1):
                yield [v] + rest, s2

    def e_Constant(self, e, st):
        v = e.value
        if v is Ellipsis:
            raise Unsupported("Ellipsis")
        yield v, st

    def e_Name(self, e, st):
        yield self.resolve_name(st, e.id), st

    def e_Tuple(self, e, st):
        if any(isinstance(x, ast.Starred) for x in e.elts):
            for vals, s in self.eval_starred(e.elts, st):
                yield tuple(vals), s
            return
        for vals, s in self.eval_list(e.elts, st):
            yield tuple(vals), s

    def eval_starred(self, elts, st):
        if not elts:
            yield [], st
            return
        first = elts[0]
        if isinstance(first, ast.Starred):
            for v, s1 in self.eval(first.value, st):
                items = self.concrete_items(v)
                for rest, s2 in self.eval_starred(elts[1:], s1):
                    yield list(items) + rest, s2
        else:
            for v, s1 in self.eval(first, st):
                for rest, s2 in self.eval_starred(elts[1:], s1):
                    yield [v] + rest, s2

    def concrete_items(self, v):
        if isinstance(v, (tuple, list)):
            return list(v)
        if isinstance(v, SV) and v.kind.tag == "tuple":
            return [SV(k, t) for k, t in zip(v.kind.args, v.tree)]
        raise Unsupported("star-unpacking of a non-static sequence")

    def e_List(self, e, st):
        for vals, s in self.eval_list(e.elts, st):
            yield self.make_list(vals), s

    def make_list(self, vals, ekind=None):
        if not vals:
            return [] if ekind is None else SV(LIST(ekind), default_tree(LIST(ekind)))
        svs = [self.tup_to_sv(v) for v in vals]
        k = ekind
        if k is None:
            k = svs[0].kind
            for x in svs[1:]:
                k = self.join_kinds(k, x.kind)
        tree = default_tree(LIST(k))
        elts = tree[1]
        for i, x in enumerate(svs):
            elts = tstore(elts, z3.IntVal(i), self.coerce(x, k).tree)
        return SV(LIST(k), (z3.IntVal(len(svs)), elts))

    def tup_to_sv(self, v):
        """python tuple of values / constants -> SV"""
        if isinstance(v, SV):
            return v
        if isinstance(v, tuple):
            parts = [self.tup_to_sv(x) for x in v]
            return SV(TUP(*[p.kind for p in parts]), tuple(p.tree for p in parts))
        if isinstance(v, ViewVal) or isinstance(v, IterSpec):
            raise Unsupported("a view / iterator used as a value")
        return self.lit(v)

    def e_Set(self, e, st):
        for vals, s in self.eval_list(e.elts, st):
            yield self.make_set(vals), s

    def make_set(self, vals, ekind=None):
        svs = [self.tup_to_sv(v) for v in vals]
        k = ekind
        if k is None:
            if not svs:
                return set()
            k = svs[0].kind
            for x in svs[1:]:
                k = self.join_kinds(k, x.kind)
        if k.tag == "opt":
            k = k.args[0]      # a set display over an Optional value: the element is used unwrapped
        tree = default_tree(SET(k))
        lits = []
        for x in svs:
            kt = to_key(k, self.coerce(x, k).tree)
            lits.append(kt)
            tree = z3.Store(tree, kt, z3.BoolVal(True))
        return SV(SET(k), tree, None, lits)

    def e_Dict(self, e, st):
        if any(k is None for k in e.keys):
            raise Unsupported("dict display with ** unpacking")
        for ks, s1 in self.eval_list(e.keys, st):
            for vs, s2 in self.eval_list(e.values, s1):
                if not ks:
                    yield {}, s2
                    continue
                if all(isinstance(k, str) for k in ks) and any(not self.boxable(v) for v in vs):
                    yield dict(zip(ks, vs)), s2        # static record (holds functions / lists): read-only use
                    continue
                yield self.make_dict(list(zip(ks, vs))), s2

    def boxable(self, v):
        if isinstance(v, SV):
            return True
        if v is None or isinstance(v, (bool, int, float, str)):
            return True
        if isinstance(v, (tuple, list)):
            return all(self.boxable(x) for x in v)
        return False

    def list_as_tuple(self, v):
        """a list value of statically known length used as an (immutable) attribute value -> tuple (A-attrlist)"""
        if isinstance(v, SV) and v.kind.tag == "list" and z3.is_int_value(z3.simplify(v.tree[0])):
            n = z3.simplify(v.tree[0]).as_long()
            ek = v.kind.args[0]
            self.assumptions_used.add("A-attrlist: list literals stored as attribute values are modelled as tuples "
                                      "(their identity/mutability is not tracked)")
            return SV(TUP(*([ek] * n)), tuple(z3.simplify(tselect(v.tree[1], z3.IntVal(i))) if not isinstance(v.tree[1], tuple)
                                                else tmap(lambda a: z3.simplify(z3.Select(a, z3.IntVal(i))), v.tree[1]) for i in range(n)))
        return v

    def make_dict(self, pairs, kk=None, vk=None):
        ksv = [self.tup_to_sv(k) for k, _ in pairs]
        vsv = [self.list_as_tuple(self.tup_to_sv(v)) for _, v in pairs]
        if kk is None:
            kk = ksv[0].kind
            for x in ksv[1:]:
                kk = self.join_kinds(kk, x.kind)
        if vk is None:
            vk = vsv[0].kind
            for x in vsv[1:]:
                vk = self.join_kinds(vk, x.kind)
        kind = DICT(kk, vk)
        dom, val = default_tree(kind)
        for k, v in zip(ksv, vsv):
            kt = to_key(kk, self.coerce(k, kk).tree)
            dom = z3.Store(dom, kt, z3.BoolVal(True))
            val = tstore(val, kt, self.coerce(v, vk).tree)
        return SV(kind, (dom, val))

    def e_JoinedStr(self, e, st):
        # f-string: an uninterpreted formatter per template (injectivity is an assumption named per use)
        parts, exprs = [], []
        for v in e.values:
            if isinstance(v, ast.Constant):
                parts.append(str(v.value).replace("{", "{{").replace("}", "}}"))
            else:
                conv = {-1: "", 115: "!s", 114: "!r", 97: "!a"}[v.conversion]
                spec = ""
                if v.format_spec is not None:
                    spec = ":" + "".join(str(x.value) for x in v.format_spec.values if isinstance(x, ast.Constant))
                parts.append("{%s%s}" % (conv, spec))
                exprs.append(v.value)
        template = "".join(parts)
        for vals, s in self.eval_list(exprs, st):
            if all(not isinstance(v, SV) and isinstance(v, (str, int, float, bool, type(None))) for v in vals):
                try:
                    yield template.format(*vals), s
                    continue
                except Exception:
                    pass
            # concrete pieces are folded into the template text, so f"{prefix}{s}" with prefix == "S:" and f"S:{s}"
            # denote the same formatter
            pieces, rest, k = [], [], 0
            import re as _re
            for tok in _re.split(r"(\{[^{}]*\})", template):
                if _re.fullmatch(r"\{[^{}]*\}", tok):
                    v = vals[k]
                    k += 1
                    if tok == "{}" and not isinstance(v, SV) and isinstance(v, (str, int)) and not isinstance(v, bool):
                        pieces.append(str(v).replace("{", "{{").replace("}", "}}"))
                    else:
                        pieces.append(tok)
                        rest.append(v)
                else:
                    pieces.append(tok)
            yield self.format_str("".join(pieces), rest), s

    def format_str(self, template, vals):
        terms = [self.as_any(self.tup_to_sv(v)) if not is_container(v) else None for v in vals]
        if any(t is None for t in terms):
            # containers inside messages (error texts): the text is irrelevant -> fresh string
            return SV(STR, z3.Int(core.fresh_name("msg")))
        f = self.fmt_funcs.get(template)
        if f is None:
            f = z3.Function("fmt%d" % len(self.fmt_funcs), *([Val] * len(terms) + [core.I]))
            self.fmt_funcs[template] = f
        return SV(STR, f(*terms) if terms else STRINGS.lit(template))

    def e_Attribute(self, e, st):
        for base, s in self.eval(e.value, st):
            yield self.getattr(s, base, e.attr), s

    def getattr(self, st, base, attr):
        if isinstance(base, ModuleVal):
            key = "%s.%s" % (base.dotted, attr)
            if key in self.lib:
                return self.lib[key]
            rel = dotted_to_relpath(base.dotted, getattr(self.cset, "root", None))
            if rel:
                m2 = src_module(rel, getattr(self.cset, "root", None))
                if attr in m2.funcs:
                    return FuncVal(m2.funcs[attr], None, m2, attr)
                if attr in m2.classes:
                    return ClassVal(attr, m2)
            return ModuleVal(key)
        if isinstance(base, ClassVal):
            mod = base.mod or self.class_module(base.name)
            q = "%s.%s" % (base.name, attr)
            if mod is not None and q in mod.funcs:
                node = mod.funcs[q]
                decs = decorators(node)
                if "classmethod" in decs:
                    return FuncVal(node, None, mod, q, self_val=base, cls=base.name)
                return FuncVal(node, None, mod, q, cls=base.name)
            key = "%s.%s" % (base.name, attr)
            if key in self.lib:
                return self.lib[key]
            if mod is not None and (base.name, attr) in mod.class_consts:
                s2, _ = st.push_frame(None, mod)
                s2.pure = True
                v, _ = self.eval1(mod.class_consts[(base.name, attr)], s2)
                return v
            raise Unsupported("class attribute %s.%s" % (base.name, attr))
        if isinstance(base, SV) and base.kind.tag == "obj":
            cls = base.kind.extra
            c = self.cset.classes.get(cls)
            if c and attr in c["fields"]:
                k = c["fields"][attr]
                return SV(k, tselect(self.heap_get(st, cls, attr), base.tree), ("fld", base.tree, cls, attr))
            if c and attr in (c.get("funcs") or {}):
                # a function-valued field with an assumed representation invariant: calling it is the spec lambda with
                # `self` bound (justified per class in the contract file)
                lam = self.cset.parse_expr(c["funcs"][attr])
                return LambdaVal(ast.Lambda(args=ast.arguments(posonlyargs=[], args=lam.args.args[1:], kwonlyargs=[], kw_defaults=[],
                                                                 defaults=[], vararg=lam.args.vararg), body=lam.body),
                                 self._bind_self_frame(st, lam.args.args[0].arg, base), self.cset.spec_mod)
            mod = self.class_module(cls)
            q = "%s.%s" % (cls, attr)
            if mod is not None and q in mod.funcs:
                node = mod.funcs[q]
                decs = decorators(node)
                if "property" in decs:
                    # a read-only property: its getter is evaluated like a side-effect-free method call (by contract when it has
                    # one, inline otherwise); getters that fork or write are not supported
                    s2 = st.copy()
                    s2.pure = True
                    outs = list(self.call(s2, FuncVal(node, None, mod, q, self_val=base, cls=cls), [], {}))
                    if len(outs) != 1:
                        raise Unsupported("property %s: getter forks (use a contract)" % q)
                    return outs[0][0]
                if "staticmethod" in decs:
                    return FuncVal(node, None, mod, q, cls=cls)
                if "classmethod" in decs:
                    return FuncVal(node, None, mod, q, self_val=ClassVal(cls, mod), cls=cls)
                return FuncVal(node, None, mod, q, self_val=base, cls=cls)
            key = "%s.%s" % (cls, attr)
            if key in self.lib:
                return BoundBuiltin(base, key)
            raise Unsupported("attribute %s of class %s" % (attr, cls))
        if isinstance(base, (SV, ViewVal, tuple, list, set, dict, str)) or base is None:
            return BoundBuiltin(base, attr)
        raise Unsupported("attribute %s on %r" % (attr, base))

    def _bind_self_frame(self, st, name, obj):
        """a fresh frame (registered in the shared frame table of this state's lineage) holding `name` = obj"""
        fid = max(st.frames) + 1000 + len(getattr(self, "_synthetic_frames", {}))
        self.__dict__.setdefault("_synthetic_frames", {})[fid] = ({name: obj}, None, self.cset.spec_mod)
        return fid

    def class_module(self, cls):
        c = self.cset.classes.get(cls)
        if c and c.get("file"):
            return src_module(c["file"], getattr(self.cset, "root", None))
        return None

    # -- subscripts
    def e_Subscript(self, e, st):
        for base, s1 in self.eval(e.value, st):
            if isinstance(e.slice, ast.Slice):
                yield from self.eval_slice(base, e.slice, s1)
                continue
            for idx, s2 in self.eval(e.slice, s1):
                yield from self.getitem(s2, base, idx)

    def eval_slice(self, base, sl, st):
        def ev(x):
            if x is None:
                return None
            v, _ = self.eval1(x, st)
            return v
        lo, hi, step = ev(sl.lower), ev(sl.upper), ev(sl.step)
        if isinstance(base, SV) and base.kind.tag == "list" and step is None:
            n = base.tree[0]
            lo_t = z3.IntVal(0) if lo is None else self.coerce(lo, INT).tree
            hi_t = n if hi is None else self.coerce(hi, INT).tree
            # Python clamps slice bounds (negative bounds are relative to the end)
            norm = lambda t: z3.If(t < 0, z3.If(t + n < 0, z3.IntVal(0), t + n), z3.If(t > n, n, t))
            lo_t, hi_t = norm(lo_t), norm(hi_t)
            res = tfresh(base.kind, "slice")
            i = z3.Int(core.fresh_name("i"))
            self.define([res[0] == z3.If(hi_t > lo_t, hi_t - lo_t, 0),
                         z3.ForAll([i], z3.Implies(z3.And(0 <= i, i < res[0]), teq(tselect(res[1], i), tselect(base.tree[1], lo_t + i))))])
            yield SV(base.kind, res), st
            return
        if any(isinstance(x, SV) for x in (lo, hi, step)):
            raise Unsupported("symbolic slice bound")
        if isinstance(base, SV) and base.kind.tag == "any":
            # a scalar that the path condition forces to be a tuple of one fixed length: slice its components
            st_t = self.as_static_tuple(st, base)
            if st_t is not None:
                yield st_t[lo:hi:step], st
                return
        if isinstance(base, (tuple, list, str)):
            yield base[lo:hi:step], st
            return
        if isinstance(base, SV) and base.kind.tag == "tuple":
            items = [SV(k, t) for k, t in zip(base.kind.args, base.tree)]
            yield tuple(items[lo:hi:step]), st
            return
        raise Unsupported("slice of %r" % (base,))

    def getitem(self, st, base, idx):
        if isinstance(base, (tuple, list)) and not isinstance(idx, SV):
            yield base[idx], st
            return
        if isinstance(base, dict) and not base:
            # empty literal dict: KeyError
            yield from self.raise_exc(st, "KeyError")
            return
        if isinstance(base, dict) and isinstance(idx, str):
            if idx in base:
                yield base[idx], st
            else:
                yield from self.raise_exc(st, "KeyError")
            return
        if isinstance(base, BoundBuiltin) or isinstance(base, ViewVal):
            h = self.lib.get("getitem:" + getattr(base, "name", getattr(base, "what", "")))
            if h:
                yield from h.fn(self, st, base, idx)
                return
        if isinstance(base, tuple):
            base = self.tup_to_sv(base)
        if not isinstance(base, SV):
            raise Unsupported("subscript of %r" % (base,))
        t = base.kind.tag
        if t == "tuple":
            if isinstance(idx, SV):
                raise Unsupported("symbolic index into a static tuple")
            yield SV(base.kind.args[idx], base.tree[idx]), st
            return
        if t == "dict":
            kk, vk = base.kind.args
            key = to_key(kk, self.coerce(self.tup_to_sv(idx), kk, what="dict key").tree)
            present = z3.Select(base.tree[0], key)
            if base.kind.extra is not None and not st.pure:
                # defaultdict: a missing key is inserted with the factory's value
                dflt = self.default_factory_value(base.kind)
                if base.origin is None:
                    raise Unsupported("defaultdict lookup on a temporary")
                newval = tite(present, tselect(base.tree[1], key), dflt.tree)
                newd = SV(base.kind, (z3.Store(base.tree[0], key, z3.BoolVal(True)), tstore(base.tree[1], key, newval)))
                s2 = self.store(st, base.origin, newd)
                yield SV(vk, newval, ("item", base.origin, base.kind, key)), s2
                return
            val = SV(vk, tselect(base.tree[1], key), ("item", base.origin, base.kind, key) if base.origin else None)
            if st.pure:
                yield val, st
                return
            yield from self.partial(st, present, "KeyError", val)
            return
        if t == "list":
            ek = base.kind.args[0]
            i = self.coerce(idx, INT).tree
            n = base.tree[0]
            pos = z3.If(i < 0, i + n, i)
            val = SV(ek, tselect(base.tree[1], pos), ("item", base.origin, base.kind, pos) if base.origin else None)
            if st.pure:
                yield val, st
                return
            yield from self.partial(st, z3.And(pos >= 0, pos < n), "IndexError", val)
            return
        if t == "any":
            # tuple stored as a scalar Val
            if isinstance(idx, SV):
                raise Unsupported("symbolic index into a Val tuple")
            items = Val.items(base.tree)
            if idx >= 0:
                val = SV(ANY, core.vlist_nth(items, idx))
                ok = z3.And(Val.is_VTup(base.tree), core.vlist_len_ge(items, idx + 1))
                if st.pure:
                    yield val, st
                    return
                yield from self.partial(st, ok, "IndexError", val)
                return
            raise Unsupported("negative index into a Val tuple")
        if t == "opt":
            inner = SV(base.kind.args[0], base.tree[1], ("optval", base.origin, base.kind) if base.origin else None)
            if st.pure:
                yield from self.getitem(st, inner, idx)
                return
            for v, s in self.partial(st, z3.Not(base.tree[0]), "TypeError", inner):
                yield from self.getitem(s, inner, idx)
            return
        if t == "obj":
            f = self.getattr(st, base, "__getitem__")
            yield from self.call(st, f, [idx], {})
            return
        raise Unsupported("subscript of kind %r" % (base.kind,))

    def default_factory_value(self, kind):
        d = kind.extra
        vk = kind.args[1]
        if d in ("set", "list", "dict", "default"):
            return SV(vk, default_tree(vk))
        if d == "int":
            return SV(vk, default_tree(vk))
        raise Unsupported("defaultdict factory %r" % (d,))

    def partial(self, st, defined, exc, val):
        """a partial operation: the defined path continues with `val`; the exception path is diverted to
        the raise sink of the enclosing statement (so expression code never sees exceptional values)"""
        defined = z3.simplify(defined)
        if z3.is_true(defined) or st.pure:
            yield val, st
            return
        s_bad = st.assume(z3.Not(defined))
        if self.feasible(s_bad):
            self.raise_sink[-1].append((exc, s_bad.note("raises %s" % exc)))
        if not z3.is_false(defined):
            yield val, st.assume(defined)

    def raise_exc(self, st, exc):
        if not st.pure:
            self.raise_sink[-1].append((exc, st.note("raises %s" % exc)))
        return
        yield  # pragma: no cover  (makes this a generator)

    # -- operators
    def e_UnaryOp(self, e, st):
        for v, s in self.eval(e.operand, st):
            if isinstance(e.op, ast.Not):
                t = z3.simplify(z3.Not(self.truthy(v)))
                yield (z3.is_true(t) if (z3.is_true(t) or z3.is_false(t)) else SV(BOOL, t)), s
            elif isinstance(e.op, ast.USub):
                if not isinstance(v, SV):
                    yield -v, s
                else:
                    yield self.arith("-", 0, v, s), s
            elif isinstance(e.op, ast.UAdd):
                yield v, s
            else:
                raise Unsupported("unary op")

    def e_BoolOp(self, e, st):
        is_and = isinstance(e.op, ast.And)
        yield from self.boolop(is_and, e.values, st)

    def boolop(self, is_and, exprs, st):
        if len(exprs) == 1:
            yield from self.eval(exprs[0], st)
            return
        for a, s1 in self.eval(exprs[0], st):
            ta = z3.simplify(self.truthy(a))
            go_on = ta if is_and else z3.Not(ta)   # condition under which the rest is evaluated
            go_on = z3.simplify(go_on)
            if z3.is_false(go_on):
                yield a, s1
                continue
            if z3.is_true(go_on):
                yield from self.boolop(is_and, exprs[1:], s1)
                continue
            # try the side-effect-free merge: evaluate the rest under the assumption, combine by ite
            s_guard = s1.assume(go_on)
            nob = len(self.obligations)
            outs = list(self.boolop(is_and, exprs[1:], s_guard))
            if len(outs) == 1 and (st.pure or (self.same_store(outs[0][1], s_guard)
                                               and len(outs[0][1].pc) == len(s_guard.pc))):
                b = outs[0][0]
                yield self.merge_bool(is_and, ta, a, b), s1
                continue
            # fork
            if self.feasible(s1, z3.Not(go_on)):
                yield a, s1.assume(z3.Not(go_on))
            for b, s2 in outs:
                yield b, s2

    def merge_bool(self, is_and, ta, a, b):
        if self.is_boolish(a) and self.is_boolish(b):
            tb = self.truthy(b)
            return SV(BOOL, z3.And(ta, tb) if is_and else z3.Or(ta, tb))
        return self.ite(ta, b, a) if is_and else self.ite(ta, a, b)

    def is_boolish(self, v):
        return isinstance(v, bool) or (isinstance(v, SV) and v.kind.tag == "bool")

    def same_store(self, s1, s2):
        if s1.nref is not s2.nref and not s1.nref.eq(s2.nref):
            return False
        if s1.heap.keys() != s2.heap.keys():
            return False
        for k in s1.heap:
            if s1.heap[k] is not s2.heap[k]:
                a, b = list(core.tleaves(s1.heap[k])), list(core.tleaves(s2.heap[k]))
                if any(not x.eq(y) for x, y in zip(a, b)):
                    return False
        if s1.frames.keys() != s2.frames.keys():
            return False
        for f in s1.frames:
            e1, e2 = s1.frames[f][0], s2.frames[f][0]
            if e1 is e2:
                continue
            if e1.keys() != e2.keys():
                return False
            for n in e1:
                if e1[n] is not e2[n]:
                    return False
        return True

    def truthy_in(self, c, st):
        """truthiness that may need the state (a graph view is true iff its set is non-empty); extended by lib_nx"""
        return self.truthy(c)

    def e_IfExp(self, e, st):
        for c, s1 in self.eval(e.test, st):
            tc = z3.simplify(self.truthy_in(c, s1))
            if z3.is_true(tc):
                yield from self.eval(e.body, s1)
                continue
            if z3.is_false(tc):
                yield from self.eval(e.orelse, s1)
                continue
            sa, sb = s1.assume(tc), s1.assume(z3.Not(tc))
            oa = self.eval_or_dead(e.body, sa, "ifexp-then@%d" % getattr(e, "lineno", 0))
            ob = self.eval_or_dead(e.orelse, sb, "ifexp-else@%d" % getattr(e, "lineno", 0))
            if oa is None and ob is None:
                raise Unsupported("both branches of a conditional expression are unsupported")
            if oa is None:
                yield from ob
                continue
            if ob is None:
                yield from oa
                continue
            if len(oa) == 1 and len(ob) == 1 and (st.pure or (
                    self.same_store(oa[0][1], sa) and self.same_store(ob[0][1], sb)
                    and len(oa[0][1].pc) == len(sa.pc) and len(ob[0][1].pc) == len(sb.pc))):
                try:
                    yield self.ite(tc, self.tup_to_sv(oa[0][0]) if isinstance(oa[0][0], tuple) else oa[0][0],
                                   self.tup_to_sv(ob[0][0]) if isinstance(ob[0][0], tuple) else ob[0][0]), s1
                    continue
                except Unsupported:
                    pass
            for v, s in oa + ob:
                yield v, s

    def eval_or_dead(self, expr, st, label):
        """evaluate; if the expression is outside the supported subset, demand that this point is unreachable
        (obligation `dead:`) instead of giving up on the whole function"""
        nob = len(self.obligations)
        try:
            return list(self.eval(expr, st))
        except Unsupported as ex:
            if st.pure:
                raise
            del self.obligations[nob:]
            self.emit(st, "dead", "%s(%s)" % (label, str(ex)[:60].replace("/", "|")), z3.BoolVal(False))
            return None

    CMP = {ast.Lt: "<", ast.LtE: "<=", ast.Gt: ">", ast.GtE: ">="}

    def e_Compare(self, e, st):
        operands = [e.left] + list(e.comparators)
        for vals, s in self.eval_list(operands, st):
            conds = []
            cur = s
            raised = False
            for op, a, b in zip(e.ops, vals, vals[1:]):
                c = self.compare(op, a, b, cur)
                conds.append(c)
            c = z3.simplify(z3.And(*conds)) if len(conds) > 1 else z3.simplify(conds[0])
            if z3.is_true(c):
                yield True, s
            elif z3.is_false(c):
                yield False, s
            else:
                yield SV(BOOL, c), s

    def compare(self, op, a, b, st):
        if isinstance(op, ast.Eq):
            return self.py_eq(a, b)
        if isinstance(op, ast.NotEq):
            return z3.Not(self.py_eq(a, b))
        if isinstance(op, (ast.Is, ast.IsNot)):
            r = self.is_same(a, b)
            return r if isinstance(op, ast.Is) else z3.Not(r)
        if isinstance(op, (ast.In, ast.NotIn)):
            r = self.contains(st, b, a)
            return r if isinstance(op, ast.In) else z3.Not(r)
        sym = self.CMP[type(op)]
        return self.order(sym, a, b)

    def is_same(self, a, b):
        if isinstance(a, SV) and a.kind.tag == "none":
            a = None
        if isinstance(b, SV) and b.kind.tag == "none":
            b = None
        if a is None or b is None:
            other = b if a is None else a
            if other is None:
                return z3.BoolVal(True)
            if isinstance(other, SV):
                if other.kind.tag == "opt":
                    return other.tree[0]
                if other.kind.tag == "any":
                    return other.tree == Val.VNone
            return z3.BoolVal(False)
        if isinstance(a, SV) and isinstance(b, SV) and a.kind.tag == "obj" and b.kind.tag == "obj":
            return a.tree == b.tree
        if isinstance(a, bool) or isinstance(b, bool):
            return self.py_eq(a, b)
        if isinstance(a, str) and isinstance(b, str):
            return z3.BoolVal(a == b)       # enum members are represented by their (interned) values
        if (isinstance(a, str) or (isinstance(a, SV) and a.kind.tag == "str")) and \
                (isinstance(b, str) or (isinstance(b, SV) and b.kind.tag == "str")):
            return self.py_eq(a, b)
        if is_container(a) or is_container(b):
            return z3.BoolVal(False)     # containers are values here; identity of two container arguments is not tracked
        if isinstance(a, SV) and isinstance(b, SV) and a.kind.tag == "opt" and b.kind.tag == "obj":
            return z3.And(z3.Not(a.tree[0]), a.tree[1] == b.tree)
        raise Unsupported("`is` on %r / %r" % (a, b))

    def order(self, sym, a, b):
        a = self.tup_to_sv(a)
        b = self.tup_to_sv(b)
        ka, kb = a.kind, b.kind
        if ka.tag == "none" or kb.tag == "none":
            return z3.BoolVal(False)      # only reachable in total (contract) mode; the code path raises TypeError
        f = {"<": lambda x, y: x < y, "<=": lambda x, y: x <= y, ">": lambda x, y: x > y, ">=": lambda x, y: x >= y}[sym]
        num = ("bool", "int", "real")
        if ka.tag in num and kb.tag in num:
            k = self.join_kinds(self.join_kinds(ka, kb), INT)
            return f(self.coerce(a, k).tree, self.coerce(b, k).tree)
        if ka.tag == "str" and kb.tag == "str":
            le = STRINGS.le
            x, y = a.tree, b.tree
            return {"<": z3.And(le(x, y), x != y), "<=": le(x, y), ">": z3.And(le(y, x), x != y), ">=": le(y, x)}[sym]
        if ka.tag == "any" or kb.tag == "any":
            # numeric comparison of Vals (definedness: both numeric) -- callers in code mode guard via num_check
            x, y = core.num_of(self.as_any(a)), core.num_of(self.as_any(b))
            return f(x, y)
        if ka.tag == "set" and kb.tag == "set":
            x = z3.Const(core.fresh_name("x"), keysort(ka.args[0]))
            sub = lambda p, q: z3.ForAll([x], z3.Implies(z3.Select(p, x), z3.Select(q, x)))
            if sym == "<=":
                return sub(a.tree, b.tree)
            if sym == ">=":
                return sub(b.tree, a.tree)
            if sym == "<":
                return z3.And(sub(a.tree, b.tree), a.tree != b.tree)
            return z3.And(sub(b.tree, a.tree), a.tree != b.tree)
        if ka.tag == "tuple" and kb.tag == "tuple":
            return self.lex_order(sym, a, b)
        if ka.tag == "opt" or kb.tag == "opt":
            ia = SV(ka.args[0], a.tree[1]) if ka.tag == "opt" else a
            ib = SV(kb.args[0], b.tree[1]) if kb.tag == "opt" else b
            return self.order(sym, ia, ib)
        raise Unsupported("ordering %s on %r / %r" % (sym, ka, kb))

    def lex_order(self, sym, a, b):
        n = min(len(a.kind.args), len(b.kind.args))
        strict = sym in ("<", ">")
        base = "<" if sym in ("<", "<=") else ">"
        # a < b  lexicographically
        def rec(i):
            if i == n:
                la, lb = len(a.kind.args), len(b.kind.args)
                if la == lb:
                    return z3.BoolVal(not strict)
                return z3.BoolVal((la < lb) if base == "<" else (la > lb))
            x, y = SV(a.kind.args[i], a.tree[i]), SV(b.kind.args[i], b.tree[i])
            return z3.Or(self.order(base, x, y), z3.And(self.py_eq(x, y), rec(i + 1)))
        return rec(0)

    def contains(self, st, cont, item):
        """`item in cont` -> z3 Bool"""
        if isinstance(cont, (tuple, list, set)) and not isinstance(cont, SV):
            if not cont:
                return z3.BoolVal(False)
            return z3.Or(*[self.py_eq(item, x) for x in cont])
        if isinstance(cont, dict) and not cont:
            return z3.BoolVal(False)
        if type(cont).__name__ == "EmptyLit":
            return z3.BoolVal(False)
        if isinstance(cont, dict):
            if isinstance(item, str):
                return z3.BoolVal(item in cont)
            return z3.Or(*[self.py_eq(item, k) for k in cont])
        if isinstance(cont, str) and isinstance(item, str):
            return z3.BoolVal(item in cont)
        if isinstance(cont, ViewVal):
            d = cont.dsv
            if cont.what == "keys":
                return self.contains(st, d, item)
            raise Unsupported("`in` on dict %s view" % cont.what)
        if isinstance(cont, BoundBuiltin):
            h = self.lib.get("contains:" + cont.name)
            if h:
                return h.fn(self, st, cont, item)
        if not isinstance(cont, SV):
            raise Unsupported("`in` on %r" % (cont,))
        t = cont.kind.tag
        if t == "opt":
            # `x in None` raises TypeError: the container must be known not to be None here
            if not st.pure:
                self.emit(st, "defined", "not-None(in)", z3.Not(cont.tree[0]))
            return self.contains(st, SV(cont.kind.args[0], cont.tree[1], cont.origin), item)
        if t in ("set", "dict"):
            kk = cont.kind.args[0]
            item = self.tup_to_sv(item)
            if item.kind.tag == "opt" and kk.tag != "opt" and kk.tag != "any":
                key = to_key(kk, self.coerce(SV(item.kind.args[0], item.tree[1]), kk).tree)
                arr = cont.tree if t == "set" else cont.tree[0]
                return z3.And(z3.Not(item.tree[0]), z3.Select(arr, key))
            key = to_key(kk, self.coerce(item, kk, what="membership key").tree)
            arr = cont.tree if t == "set" else cont.tree[0]
            return z3.Select(arr, key)
        if t == "list" and z3.is_int_value(z3.simplify(cont.tree[0])) and z3.simplify(cont.tree[0]).as_long() <= 16:
            # a list of statically known length (a literal): plain disjunction
            n = z3.simplify(cont.tree[0]).as_long()
            ek = cont.kind.args[0]
            elts = [SV(ek, tmap(lambda a, i=i: z3.simplify(z3.Select(a, z3.IntVal(i))), cont.tree[1])) for i in range(n)]
            return z3.Or(*[self.py_eq(item, x) for x in elts]) if elts else z3.BoolVal(False)
        if t == "list":
            ek = cont.kind.args[0]
            try:
                ks = keysort(ek)
            except TypeError:
                ks = None
            if ks is not None:
                # membership through the (cached) set of the list's elements: one array per list term, so repeated
                # `x in xs` tests are syntactically the same select
                cache = self.__dict__.setdefault("_list_sets", {})
                key = tuple(l.get_id() for l in core.tleaves(cont.tree))
                if key not in cache:
                    sset = self.to_set_value(None, SV(cont.kind, cont.tree))
                    if getattr(self, "_binder_depth", 0) == 0:      # definitions made under a binder are lifted: not reusable
                        cache[key] = sset
                        cache[("keep", key)] = cont.tree    # keep the terms alive: ids are only unique among live terms
                else:
                    sset = cache[key]
                return z3.Select(sset.tree, to_key(ek, self.coerce(self.tup_to_sv(item), ek, what="membership").tree))
            i = z3.Int(core.fresh_name("i"))
            elt = SV(ek, tselect(cont.tree[1], i))
            return z3.Exists([i], z3.And(0 <= i, i < cont.tree[0], self.py_eq(elt, item)))
        if t == "tuple":
            return z3.Or(*[self.py_eq(item, SV(k, x)) for k, x in zip(cont.kind.args, cont.tree)]) \
                if cont.kind.args else z3.BoolVal(False)
        if t == "obj":
            mod = self.class_module(cont.kind.extra)
            q = "%s.__contains__" % cont.kind.extra
            if mod and q in mod.funcs:
                s2 = st.copy()
                s2.pure = True
                outs = list(self.call(s2, FuncVal(mod.funcs[q], None, mod, q, self_val=cont, cls=cont.kind.extra), [item], {}))
                if len(outs) == 1:
                    return self.truthy(outs[0][0])
            key = "contains:obj:" + cont.kind.extra
            if key in self.lib:
                return self.lib[key].fn(self, st, cont, item)
        raise Unsupported("`in` on kind %r" % (cont.kind,))

    def e_BinOp(self, e, st):
        for a, s1 in self.eval(e.left, st):
            for b, s2 in self.eval(e.right, s1):
                op = {ast.Add: "+", ast.Sub: "-", ast.Mult: "*", ast.BitOr: "|", ast.BitAnd: "&", ast.Div: "/",
                      ast.FloorDiv: "//", ast.Mod: "%", ast.Pow: "**", ast.BitXor: "^"}.get(type(e.op))
                if op is None:
                    raise Unsupported("binary operator %s" % type(e.op).__name__)
                s3 = s2
                if not s2.pure and op in ("+", "-", "*", "/"):
                    conds = [core.is_num(x.tree) for x in (a, b) if isinstance(x, SV) and x.kind.tag == "any"]
                    other_ok = all((isinstance(x, (int, float)) and not isinstance(x, str)) or
                                   (isinstance(x, SV) and x.kind.tag in ("int", "real", "bool", "any")) for x in (a, b))
                    if conds and other_ok:
                        outs = list(self.partial(s2, z3.And(*conds), "TypeError", None))
                        if not outs:
                            continue
                        s3 = outs[0][1]
                yield self.arith(op, a, b, s3), s3

    def arith(self, op, a, b, st):
        if isinstance(a, IterSpec) and isinstance(b, IterSpec) and op == "+":
            return self.chain_iter(a, b)
        if not isinstance(a, SV) and not isinstance(b, SV):
            if isinstance(a, (int, float, str, tuple, list)) and isinstance(b, (int, float, str, tuple, list)):
                try:
                    return {"+": lambda: a + b, "-": lambda: a - b, "*": lambda: a * b, "/": lambda: a / b,
                            "//": lambda: a // b, "%": lambda: a % b, "**": lambda: a ** b}[op]()
                except Exception:
                    pass
        # A-numpy (minimal): the difference / sum of two matrices of one shape (mappings from index pairs to reals, see np.zeros) is taken entry by entry
        if op in ("-", "+") and isinstance(a, SV) and isinstance(b, SV) and a.kind.tag == "dict" and b.kind.tag == "dict" \
                and a.kind == b.kind and a.kind.args[0].tag == "tuple" and a.kind.args[1].tag == "real":
            ks = keysort(a.kind.args[0])
            val = z3.Const(core.fresh_name("npval"), z3.ArraySort(ks, core.R))
            k = z3.Const(core.fresh_name("k"), ks)
            av, bv = z3.Select(a.tree[1], k), z3.Select(b.tree[1], k)
            self.define([z3.ForAll([k], z3.Select(val, k) == (av - bv if op == "-" else av + bv))])
            if not st.pure:
                # numpy raises (or broadcasts) when the shapes differ: outside the model -> must be proved impossible
                self.emit(st, "defined", "same-shape@%s" % op, a.tree[0] == b.tree[0])
            return SV(a.kind, (a.tree[0], val))
        one = None
        if op == "*" and isinstance(b, SV) and b.kind.tag == "int":
            if isinstance(a, list) and len(a) == 1:
                one = self.tup_to_sv(a[0])
            elif isinstance(a, SV) and a.kind.tag == "list" and z3.is_int_value(z3.simplify(a.tree[0])) \
                    and z3.simplify(a.tree[0]).as_long() == 1:
                one = SV(a.kind.args[0], tmap(lambda arr: z3.simplify(z3.Select(arr, z3.IntVal(0))), a.tree[1]))
        if one is not None:
            # [x] * n : n copies of x (empty for n <= 0)
            item = one
            k = LIST(item.kind)
            res = tfresh(k, "rep")
            i = z3.Int(core.fresh_name("i"))
            self.define([res[0] == z3.If(b.tree > 0, b.tree, 0),
                         z3.ForAll([i], z3.Implies(z3.And(0 <= i, i < res[0]), teq(tselect(res[1], i), item.tree)))])
            return SV(k, res)
        if isinstance(a, tuple) and isinstance(b, tuple) and op == "+":
            return a + b
        if isinstance(a, tuple) and isinstance(b, SV) and b.kind.tag == "tuple" and op == "+":
            return a + tuple(SV(k, t) for k, t in zip(b.kind.args, b.tree))
        if isinstance(b, tuple) and isinstance(a, SV) and a.kind.tag == "tuple" and op == "+":
            return tuple(SV(k, t) for k, t in zip(a.kind.args, a.tree)) + b
        if op in ("&", "|", "-", "^"):
            # dict key views are set-like
            if isinstance(a, ViewVal) and a.what == "keys":
                a = self.to_set_value(st, a)
            if isinstance(b, ViewVal) and b.what == "keys":
                b = self.to_set_value(st, b)
        a = self.tup_to_sv(a) if not isinstance(a, (list, set, dict)) else self.lit_container(a, b)
        b = self.tup_to_sv(b) if not isinstance(b, (list, set, dict)) else self.lit_container(b, a)
        ka, kb = a.kind, b.kind
        num = ("bool", "int", "real")
        if ka.tag == "opt":
            a, ka = SV(ka.args[0], a.tree[1]), ka.args[0]
        if kb.tag == "opt":
            b, kb = SV(kb.args[0], b.tree[1]), kb.args[0]
        if ka.tag in num and kb.tag in num:
            k = self.join_kinds(self.join_kinds(ka, kb), INT)
            if op == "/":
                k = REAL
            x, y = self.coerce(a, k).tree, self.coerce(b, k).tree
            if op == "+":
                return SV(k, x + y)
            if op == "-":
                return SV(k, x - y)
            if op == "*":
                return SV(k, x * y)
            if op == "/":
                return SV(REAL, x / y)
            if op == "//" and k.tag == "int":
                return SV(INT, x / y)      # z3 Int division is floor division for positive divisors
            if op == "%" and k.tag == "int":
                return SV(INT, x % y)
            raise Unsupported("arithmetic %s on %r" % (op, k))
        if ka.tag == "any" or kb.tag == "any":
            if (ka.tag in num + ("any",)) and (kb.tag in num + ("any",)):
                va, vb = self.as_any(a), self.as_any(b)
                both_int = z3.And(z3.Or(Val.is_VInt(va), Val.is_VBool(va)), z3.Or(Val.is_VInt(vb), Val.is_VBool(vb)))
                ia, ib, ra, rb = core.int_of(va), core.int_of(vb), core.num_of(va), core.num_of(vb)
                if op in ("+", "-", "*"):
                    fi = {"+": ia + ib, "-": ia - ib, "*": ia * ib}[op]
                    fr = {"+": ra + rb, "-": ra - rb, "*": ra * rb}[op]
                    return SV(ANY, z3.If(both_int, Val.VInt(fi), Val.VReal(fr)))
                if op == "/":
                    return SV(REAL, ra / rb)
            raise Unsupported("arithmetic %s on %r / %r" % (op, ka, kb))
        if ka.tag == "set" and kb.tag == "set":
            if str(sort_tree(ka)) != str(sort_tree(kb)):
                raise Unsupported("set op on different element sorts")
            return self.set_op(op, a, b)
        if ka.tag == "str" and kb.tag == "str" and op == "+":
            f = self.ufunc("str_concat", core.I, core.I, core.I)
            return SV(STR, f(a.tree, b.tree))
        if ka.tag == "list" and kb.tag == "list" and op == "+":
            return self.list_concat(a, b)
        if ka.tag == "tuple" and kb.tag == "tuple" and op == "+":
            return SV(TUP(*(ka.args + kb.args)), tuple(a.tree) + tuple(b.tree))
        raise Unsupported("operator %s on %r / %r" % (op, ka, kb))

    def chain_iter(self, a, b):
        """list(xs) + list(ys) of two unordered snapshots: an arbitrary-order enumeration of their union.
        (Elements occurring in both would be visited twice in Python; the model visits them once -- callers are
        the in-arc / out-arc scans of loop-free graphs, where the two are disjoint.)"""
        if a.mode == "concrete" and not a.items:
            return b
        if b.mode == "concrete" and not b.items:
            return a
        if a.mode != "set" or b.mode != "set" or a.ekind != b.ekind:
            raise Unsupported("concatenation of iterables of different shape")
        self.assumptions_used.add("A-chain: list(xs)+list(ys) over two unordered views is iterated as their union")
        u = self.set_op("|", SV(SET(a.ekind), a.mem), SV(SET(a.ekind), b.mem))
        spec = IterSpec("set", mem=u.tree, ekind=a.ekind, elem=a.elem, identity=getattr(a, "identity", False))
        if getattr(a, "mark", None):
            spec.mark = a.mark
        return spec

    def lit_container(self, c, other):
        if isinstance(other, SV) and other.kind.tag in MUTABLE_TAGS and not c:
            return SV(other.kind, default_tree(other.kind))
        if isinstance(c, list):
            return self.make_list(list(c))
        if isinstance(c, set):
            return self.make_set(list(c))
        raise Unsupported("literal container in arithmetic")

    def set_op(self, op, a, b):
        """| & - on sets: literal operands become Store chains, otherwise a fresh array with a pointwise definition
        (no array `map`, which cvc5 does not accept)"""
        ka = a.kind
        if op not in ("|", "&", "-", "^"):
            raise Unsupported("set operator " + op)
        meta = a.meta if (a.meta and a.meta == b.meta) else None
        if meta is not None:
            r = self.set_op(op, SV(a.kind, a.tree, None, a.lits), SV(b.kind, b.tree, None, b.lits))
            return SV(r.kind, r.tree, None, None, meta)
        if b.lits is not None and op in ("|", "-"):
            t = a.tree
            for kt in b.lits:
                t = z3.Store(t, kt, z3.BoolVal(op == "|"))
            return SV(ka, t)
        if a.lits is not None and op == "|":
            t = b.tree
            for kt in a.lits:
                t = z3.Store(t, kt, z3.BoolVal(True))
            return SV(ka, t)
        ks = keysort(ka.args[0])
        res = z3.Const(core.fresh_name("setop"), z3.ArraySort(ks, core.B))
        y = z3.Const(core.fresh_name("y"), ks)
        x, z = z3.Select(a.tree, y), z3.Select(b.tree, y)
        body = {"|": z3.Or(x, z), "&": z3.And(x, z), "-": z3.And(x, z3.Not(z)), "^": z3.Xor(x, z)}[op]
        self.define([z3.ForAll([y], z3.Select(res, y) == body)])
        return SV(ka, res)

    def list_concat(self, a, b):
        k = LIST(self.join_kinds(a.kind.args[0], b.kind.args[0]))
        a, b = self.coerce_list(a, k), self.coerce_list(b, k)
        n = a.tree[0] + b.tree[0]
        res = tfresh(k, "cat")
        i = z3.Int(core.fresh_name("i"))
        ax = [res[0] == n,
              z3.ForAll([i], z3.Implies(z3.And(0 <= i, i < a.tree[0]), teq(tselect(res[1], i), tselect(a.tree[1], i)))),
              z3.ForAll([i], z3.Implies(z3.And(0 <= i, i < b.tree[0]),
                                        teq(tselect(res[1], a.tree[0] + i), tselect(b.tree[1], i))))]
        self.define(ax)
        return SV(k, res)

    def coerce_list(self, v, k):
        if v.kind == k:
            return v
        return self.coerce(v, k)

    # -- comprehension / lambda / call are in interp2 (mixed in below)


from .interp2 import InterpStmts  # noqa: E402


class Engine(Interp, InterpStmts):
    pass
