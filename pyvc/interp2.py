"""pyvc.interp2 -- statements, calls (inline / by contract), loops as cut points, comprehensions,
contract-expression evaluation and the per-function verification driver."""
from __future__ import annotations

import ast

import z3

from . import core
from .core import (ANY, BOOL, DICT, INT, LIST, OBJ, OPT, REAL, SET, STR, TUP, Kind, Val, STRINGS,
                   keysort, to_key, from_key, tselect, tstore, tite, teq, tfresh, tmap, tmap2, default_tree,
                   sort_tree, parse_kind, box)
from .source import Unsupported, ShapeMismatch, strip_docstring, decorators, loops_of, module as src_module

TRUE, FALSE = z3.BoolVal(True), z3.BoolVal(False)


class CompVal:
    """a generator expression / comprehension not yet consumed"""
    def __init__(self, node, st):
        self.node, self.st = node, st


def assigned_names(nodes, receivers=None):
    """names (re)bound inside a loop body; `receivers` collects names that are only the base of a method call or
    subscript store (in-place mutation of a local container)"""
    out = set()
    recv = receivers if receivers is not None else set()

    class V(ast.NodeVisitor):
        def visit_FunctionDef(self, n):
            out.add(n.name)

        def visit_Lambda(self, n):
            pass

        def visit_Name(self, n):
            if isinstance(n.ctx, (ast.Store, ast.Del)):
                out.add(n.id)

        def visit_Call(self, n):
            f = n.func
            if isinstance(f, ast.Attribute):
                base = f.value
                while isinstance(base, (ast.Subscript, ast.Attribute)):
                    base = base.value
                if isinstance(base, ast.Name):
                    recv.add(base.id)      # receiver of a (possibly mutating) method call
            self.generic_visit(n)

        def visit_Subscript(self, n):
            if isinstance(n.ctx, (ast.Store, ast.Del)):
                base = n.value
                while isinstance(base, (ast.Subscript, ast.Attribute)):
                    base = base.value
                if isinstance(base, ast.Name):
                    recv.add(base.id)
            self.generic_visit(n)

        def visit_Attribute(self, n):
            self.generic_visit(n)

    v = V()
    for n in nodes:
        v.visit(n)
    return out


class InterpStmts:
    # ================================================================== statements
    def exec_block(self, stmts, st):
        if not stmts:
            yield ("next", st, None)
            return
        for tag, s, payload in self.exec_stmt(stmts[0], st):
            if tag == "next":
                yield from self.exec_block(stmts[1:], s)
            else:
                yield (tag, s, payload)

    def exec_stmt(self, stmt, st):
        self.npaths_guard()
        m = getattr(self, "s_" + type(stmt).__name__, None)
        if m is None:
            raise Unsupported("statement %s (line %s)" % (type(stmt).__name__, getattr(stmt, "lineno", "?")))
        sink = []
        self.raise_sink.append(sink)
        try:
            outs = list(m(stmt, st))
        finally:
            self.raise_sink.pop()
        yield from outs
        for exc, s in sink:
            yield ("raise", s, exc)

    def npaths_guard(self):
        self.steps = getattr(self, "steps", 0) + 1
        if self.steps > 400000:
            raise Unsupported("step budget exceeded (path explosion)")

    def s_Pass(self, stmt, st):
        yield ("next", st, None)

    def s_Expr(self, stmt, st):
        v = stmt.value
        if isinstance(v, ast.Constant):
            yield ("next", st, None)
            return
        if self.is_log_call(v):
            yield ("next", st, None)
            return
        for _, s in self.eval(v, st):
            yield ("next", s, None)

    def is_log_call(self, v):
        if isinstance(v, ast.Call):
            f = v.func
            if isinstance(f, ast.Name) and f.id == "print":
                return True
            if isinstance(f, ast.Attribute):
                base = f.value
                name = base.id if isinstance(base, ast.Name) else getattr(base, "attr", "")
                if name in ("logger", "log", "logging", "_logger", "warnings") or \
                        (name.endswith("logger") and f.attr in ("debug", "info", "warning", "error", "exception")):
                    return True
        return False

    def s_Import(self, stmt, st):
        s = st
        from .interp import ModuleVal
        for a in stmt.names:
            s = s.setvar(a.asname or a.name.split(".")[0], ModuleVal(a.name))
        yield ("next", s, None)

    def s_ImportFrom(self, stmt, st):
        s = st
        for a in stmt.names:
            key = "%s.%s" % (stmt.module, a.name)
            if key in self.lib:
                s = s.setvar(a.asname or a.name, self.lib[key])
            elif a.name in self.lib:
                s = s.setvar(a.asname or a.name, self.lib[a.name])
            else:
                raise Unsupported("local import %s" % key)
        yield ("next", s, None)

    def s_Assign(self, stmt, st):
        for v, s in self.eval(stmt.value, st):
            outs = [s]
            for tgt in stmt.targets:
                nxt = []
                for s1 in outs:
                    nxt.extend(self.assign(tgt, v, s1))
                outs = nxt
            for s2 in outs:
                yield ("next", s2, None)

    def s_AnnAssign(self, stmt, st):
        if stmt.value is None:
            yield ("next", st, None)
            return
        hint = self.annotation_kind(stmt.annotation)
        if isinstance(stmt.target, ast.Name):
            info = self.frame_func.get(st.cur)
            if info is not None:
                h2 = ((self.cset.functions.get(info[1]) or {}).get("vars") or {}).get(stmt.target.id)
                if h2 is not None:
                    hint = parse_kind(h2)       # the contract's kind wins over the source annotation
        for v, s in self.eval(stmt.value, st):
            if hint is not None and not isinstance(v, self.SV) and isinstance(v, (list, dict, set)) and not v:
                v = self.SV(hint, default_tree(hint))
            for s2 in self.assign(stmt.target, v, s):
                yield ("next", s2, None)

    def annotation_kind(self, ann):
        """Dict[str,int] / Set[str] / List[...] annotations give the kind of an *empty literal*; annotations are
        otherwise dropped.  (Used only to type `x: Dict[str,int] = {}`.)"""
        hints = getattr(self, "cur_hints", None) or {}
        try:
            txt = ast.unparse(ann)
        except Exception:
            return None
        if txt in hints:
            return hints[txt]
        table = {"str": STR, "int": INT, "float": REAL, "bool": BOOL, "Any": ANY}

        def conv(n):
            if isinstance(n, ast.Name):
                return table.get(n.id)
            if isinstance(n, ast.Subscript):
                head = n.value.id if isinstance(n.value, ast.Name) else getattr(n.value, "attr", None)
                args = n.slice.elts if isinstance(n.slice, ast.Tuple) else [n.slice]
                ks = [conv(a) for a in args]
                if any(k is None for k in ks):
                    return None
                if head in ("Dict", "dict") and len(ks) == 2:
                    return DICT(ks[0], ks[1])
                if head in ("Set", "set"):
                    return SET(ks[0])
                if head in ("List", "list"):
                    return LIST(ks[0])
                if head in ("Tuple", "tuple"):
                    return TUP(*ks)
                if head == "Optional":
                    return OPT(ks[0])
            return None
        return conv(ann)

    def s_AugAssign(self, stmt, st):
        op = {ast.Add: "+", ast.Sub: "-", ast.Mult: "*", ast.BitOr: "|", ast.BitAnd: "&", ast.Div: "/",
              ast.FloorDiv: "//", ast.Mod: "%"}.get(type(stmt.op))
        if op is None:
            raise Unsupported("augmented operator")
        load = ast.copy_location(self._as_load(stmt.target), stmt.target)
        for cur, s1 in self.eval(load, st):
            for rhs, s2 in self.eval(stmt.value, s1):
                if isinstance(cur, self.SV) and cur.kind.tag == "list" and op == "+":
                    # list += iterable  (in place)
                    newv = self.arith("+", cur, self.to_list_value(s2, rhs), s2)
                    if cur.origin is None:
                        raise Unsupported("+= on a temporary list")
                    yield ("next", self.store(s2, cur.origin, newv), None)
                    continue
                if isinstance(cur, self.SV) and cur.kind.tag == "set" and op in ("|", "&", "-"):
                    newv = self.arith(op, cur, rhs, s2)
                    if cur.origin is None:
                        raise Unsupported("in-place set op on a temporary")
                    yield ("next", self.store(s2, cur.origin, newv), None)
                    continue
                newv = self.arith(op, cur, rhs, s2)
                for s3 in self.assign(stmt.target, newv, s2):
                    yield ("next", s3, None)

    def _as_load(self, t):
        import copy
        t2 = copy.deepcopy(t)
        for n in ast.walk(t2):
            if hasattr(n, "ctx"):
                n.ctx = ast.Load()
        return t2

    def assign(self, tgt, v, st):
        """returns list of states"""
        SV = self.SV
        if isinstance(tgt, ast.Name):
            return [self.bind(st, tgt.id, v)]
        if isinstance(tgt, (ast.Tuple, ast.List)):
            n = len(tgt.elts)
            if any(isinstance(e, ast.Starred) for e in tgt.elts):
                raise Unsupported("starred assignment target")
            items = None
            if isinstance(v, (tuple, list)):
                if len(v) != n:
                    self.raise_sink[-1].append(("ValueError", st))
                    return []
                items = list(v)
                states = [st]
            elif isinstance(v, SV) and v.kind.tag == "tuple":
                if len(v.kind.args) != n:
                    self.raise_sink[-1].append(("ValueError", st))
                    return []
                items = [SV(k, t) for k, t in zip(v.kind.args, v.tree)]
                states = [st]
            elif isinstance(v, SV) and v.kind.tag == "any":
                its = Val.items(v.tree)
                ok = z3.And(Val.is_VTup(v.tree), core.vlist_has_len(its, n))
                items = [SV(ANY, core.vlist_nth(its, i)) for i in range(n)]
                states = [s for _, s in self.partial(st, ok, "ValueError", None)]
            elif isinstance(v, SV) and v.kind.tag == "list":
                ek = v.kind.args[0]
                items = [SV(ek, tselect(v.tree[1], z3.IntVal(i))) for i in range(n)]
                states = [s for _, s in self.partial(st, v.tree[0] == n, "ValueError", None)]
            elif isinstance(v, SV) and v.kind.tag == "opt":
                inner = SV(v.kind.args[0], v.tree[1])
                states = [s for _, s in self.partial(st, z3.Not(v.tree[0]), "TypeError", None)]
                out = []
                for s in states:
                    out.extend(self.assign(tgt, inner, s))
                return out
            else:
                raise Unsupported("unpacking of %r" % (v,))
            out = []
            for s in states:
                cur = [s]
                for e, item in zip(tgt.elts, items):
                    nxt = []
                    for s1 in cur:
                        nxt.extend(self.assign(e, item, s1))
                    cur = nxt
                out.extend(cur)
            return out
        if isinstance(tgt, ast.Attribute):
            out = []
            for base, s1 in self.eval(tgt.value, st):
                if isinstance(base, SV) and base.kind.tag == "obj":
                    cls = base.kind.extra
                    k = self.field_kind(cls, tgt.attr)
                    val = self.materialize(v, k)
                    out.append(self.heap_write(s1, cls, tgt.attr, base.tree, val))
                else:
                    raise Unsupported("attribute assignment on %r" % (base,))
            return out
        if isinstance(tgt, ast.Subscript):
            out = []
            for base, s1 in self.eval(tgt.value, st):
                if isinstance(base, self.EmptyLit) and base.typ is dict and isinstance(tgt.value, ast.Name):
                    base = {}       # `x = {}` filled with constant keys: a static record local to the function
                for idx, s2 in self.eval(tgt.slice, s1):
                    self._setitem_target = None
                    if isinstance(base, dict) and isinstance(tgt.value, ast.Name):
                        fid = s2.lookup_frame(tgt.value.id)
                        self._setitem_target = (tgt.value.id, fid)
                    out.extend(self.setitem(s2, base, idx, v))
                    self._setitem_target = None
            return out
        raise Unsupported("assignment target %s" % type(tgt).__name__)

    def materialize(self, v, kind):
        """python literal containers / tuples -> SV of the wanted kind"""
        SV = self.SV
        if isinstance(v, SV):
            return v
        if isinstance(v, (list, set, dict)) and not v:
            if kind.tag in ("list", "set", "dict"):
                return SV(kind, default_tree(kind))
        if isinstance(v, tuple):
            return self.tup_to_sv(v)
        return v

    def bind(self, st, name, v):
        from .interp import Alias
        SV = self.SV
        fid = st.cur
        decl = self.nonlocals.get(st.cur, ())
        if name in decl:
            f2 = st.frames[st.cur][1]
            while f2 is not None and name not in st.frames[f2][0]:
                f2 = st.frames[f2][1]
            if f2 is None:
                raise Unsupported("nonlocal %s not found" % name)
            fid = f2
        if isinstance(v, SV) and v.kind.tag in ("set", "dict", "list"):
            if v.origin is not None and v.origin != ("var", fid, name):
                return st.setvar(name, Alias(v.origin, v.kind), fid)
            return st.setvar(name, SV(v.kind, v.tree, ("var", fid, name), None, v.meta), fid)
        if isinstance(v, (list, set, dict)) and not v:
            # empty literal: its kind comes from the contract's `vars` table (or stays untyped until then)
            info = self.frame_func.get(fid)
            hint = None
            if info is not None:
                hint = ((self.cset.functions.get(info[1]) or {}).get("vars") or {}).get(name)
            if hint is not None:
                k = parse_kind(hint)
                return st.setvar(name, SV(k, default_tree(k), ("var", fid, name)), fid)
            return st.setvar(name, self.EmptyLit(type(v)), fid)
        return st.setvar(name, v, fid)

    class EmptyLit:
        """`x = []` / `{}` / `set()` whose element kind is fixed by the first insertion"""
        def __init__(self, typ):
            self.typ = typ

    def setitem(self, st, base, idx, v):
        SV = self.SV
        if isinstance(base, self.EmptyLit):
            raise Unsupported("untyped empty container: add a `vars` kind hint in the contract")
        if isinstance(base, dict) and isinstance(idx, str) and getattr(self, "_setitem_target", None):
            name, fid = self._setitem_target
            newd = dict(base)
            newd[idx] = v
            return [st.setvar(name, newd, fid)]
        if isinstance(base, SV) and base.kind.tag == "opt":
            out = []
            for _, s in self.partial(st, z3.Not(base.tree[0]), "TypeError", None):
                out.extend(self.setitem(s, SV(base.kind.args[0], base.tree[1], ("optval", base.origin, base.kind) if base.origin else None), idx, v))
            return out
        if not isinstance(base, SV):
            h = self.lib.get("setitem:" + getattr(base, "name", type(base).__name__))
            if h:
                return [s for _, s in h.fn(self, st, base, idx, v)]
            raise Unsupported("item assignment on %r" % (base,))
        t = base.kind.tag
        if t == "dict":
            kk, vk = base.kind.args
            key = to_key(kk, self.coerce(self.tup_to_sv(idx), kk, what="dict key").tree)
            val = self.coerce(self.materialize(v, vk) if not isinstance(v, tuple) else self.tup_to_sv(v), vk,
                              what="dict value")
            if base.origin is None:
                raise Unsupported("item assignment on a temporary dict")
            newd = SV(base.kind, (z3.Store(base.tree[0], key, TRUE), tstore(base.tree[1], key, val.tree)))
            return [self.store(st, base.origin, newd)]
        if t == "list":
            ek = base.kind.args[0]
            i = self.coerce(idx, INT).tree
            n = base.tree[0]
            pos = z3.If(i < 0, i + n, i)
            val = self.coerce(self.tup_to_sv(v), ek)
            if base.origin is None:
                raise Unsupported("item assignment on a temporary list")
            out = []
            for _, s in self.partial(st, z3.And(pos >= 0, pos < n), "IndexError", None):
                newl = SV(base.kind, (n, tstore(base.tree[1], pos, val.tree)))
                out.append(self.store(s, base.origin, newl))
            return out
        if t == "obj":
            f = self.getattr(st, base, "__setitem__")
            return [s for _, s in self.call(st, f, [idx, v], {})]
        raise Unsupported("item assignment on kind %r" % (base.kind,))

    def s_Delete(self, stmt, st):
        SV = self.SV
        states = [st]
        for tgt in stmt.targets:
            nxt = []
            for s0 in states:
                if isinstance(tgt, ast.Subscript):
                    for base, s1 in self.eval(tgt.value, s0):
                        for idx, s2 in self.eval(tgt.slice, s1):
                            if isinstance(base, SV) and base.kind.tag == "dict" and base.origin is not None:
                                kk = base.kind.args[0]
                                key = to_key(kk, self.coerce(self.tup_to_sv(idx), kk).tree)
                                for _, s3 in self.partial(s2, z3.Select(base.tree[0], key), "KeyError", None):
                                    newd = SV(base.kind, (z3.Store(base.tree[0], key, FALSE), base.tree[1]))
                                    nxt.append(self.store(s3, base.origin, newd))
                            else:
                                raise Unsupported("del on %r" % (base,))
                else:
                    raise Unsupported("del target")
            states = nxt
        for s in states:
            yield ("next", s, None)

    def s_Return(self, stmt, st):
        if stmt.value is None:
            yield ("return", st, None)
            return
        for v, s in self.eval(stmt.value, st):
            yield ("return", s, v)

    def s_Raise(self, stmt, st):
        exc = "Exception"
        if stmt.exc is not None:
            e = stmt.exc
            if isinstance(e, ast.Call):
                e = e.func
            if isinstance(e, ast.Name):
                exc = e.id
            elif isinstance(e, ast.Attribute):
                exc = e.attr
        yield ("raise", st.note("raise %s (line %d)" % (exc, stmt.lineno)), exc)

    def s_Assert(self, stmt, st):
        for c, s in self.eval(stmt.test, st):
            t = z3.simplify(self.truthy(c))
            if not z3.is_false(t):
                yield ("next", s.assume(t), None)
            if not z3.is_true(t):
                sb = s.assume(z3.Not(t))
                if self.feasible(sb):
                    yield ("raise", sb, "AssertionError")

    def s_Break(self, stmt, st):
        yield ("break", st, None)

    def s_Continue(self, stmt, st):
        yield ("continue", st, None)

    def s_Nonlocal(self, stmt, st):
        self.nonlocals.setdefault(st.cur, set()).update(stmt.names)
        yield ("next", st, None)

    def s_Global(self, stmt, st):
        raise Unsupported("global statement")

    def s_FunctionDef(self, stmt, st):
        from .interp import FuncVal
        mod = st.frames[st.cur][2]
        qual = "%s.%s" % (self.frame_qual.get(st.cur, "?"), stmt.name)
        self.captured.add(st.cur)
        yield ("next", st.setvar(stmt.name, FuncVal(stmt, st.cur, mod, qual)), None)

    def s_If(self, stmt, st):
        for c, s in self.eval(stmt.test, st):
            t = z3.simplify(self.truthy(c))
            if z3.is_true(t):
                yield from self.exec_block(stmt.body, s)
                continue
            if z3.is_false(t):
                yield from self.exec_block(stmt.orelse, s)
                continue
            sa = s.assume(t)
            if self.feasible(sa):
                yield from self.block_or_dead(stmt.body, sa.note("if@%d" % stmt.lineno), "if@%d" % stmt.lineno)
            sb = s.assume(z3.Not(t))
            if self.feasible(sb):
                yield from self.block_or_dead(stmt.orelse, sb.note("else@%d" % stmt.lineno), "else@%d" % stmt.lineno)

    def block_or_dead(self, stmts, st, label):
        """a branch outside the supported subset must be unreachable (obligation `dead:`) -- otherwise Unsupported"""
        nob = len(self.obligations)
        nsink = [len(x) for x in self.raise_sink]
        try:
            outs = list(self.exec_block(stmts, st))
        except Unsupported as ex:
            if st.pure or getattr(self, "strict_unsupported", False):
                raise
            del self.obligations[nob:]
            for x, n in zip(self.raise_sink, nsink):
                del x[n:]
            self.emit(st, "dead", "%s(%s)" % (label, str(ex)[:60].replace("/", "|")), FALSE)
            return
        yield from outs

    EXC_PARENTS = {"KeyError": ("LookupError", "Exception"), "IndexError": ("LookupError", "Exception"),
                   "ValueError": ("Exception",), "TypeError": ("Exception",), "AttributeError": ("Exception",),
                   "StopIteration": ("Exception",), "AssertionError": ("Exception",), "ZeroDivisionError": ("ArithmeticError", "Exception"),
                   "NotImplementedError": ("RuntimeError", "Exception"), "RuntimeError": ("Exception",),
                   "Exception": ()}

    def exc_matches(self, exc, handler_type):
        if handler_type is None:
            return True
        names = []
        if isinstance(handler_type, ast.Tuple):
            for e in handler_type.elts:
                names.append(e.id if isinstance(e, ast.Name) else getattr(e, "attr", "?"))
        else:
            names.append(handler_type.id if isinstance(handler_type, ast.Name) else getattr(handler_type, "attr", "?"))
        for n in names:
            if n == exc or n in self.EXC_PARENTS.get(exc, ("Exception",)) or n == "BaseException":
                return True
        return False

    def s_Try(self, stmt, st):
        if stmt.finalbody:
            raise Unsupported("try/finally")
        for tag, s, payload in self.exec_block(stmt.body, st):
            if tag == "raise":
                handled = False
                for h in stmt.handlers:
                    if self.exc_matches(payload, h.type):
                        handled = True
                        s2 = s
                        if h.name:
                            s2 = s2.setvar(h.name, self.SV(STR, z3.Int(core.fresh_name("exc"))))
                        yield from self.exec_block(h.body, s2.note("except %s" % payload))
                        break
                if not handled:
                    yield (tag, s, payload)
            elif tag == "next":
                yield from self.exec_block(stmt.orelse, s)
            else:
                yield (tag, s, payload)

    def s_With(self, stmt, st):
        raise Unsupported("with statement")

    # ================================================================== loops
    def loop_contract(self, st, stmt):
        info = self.frame_func.get(st.cur)
        if info is None:
            return None, "?"
        fnode, key = info
        loops = loops_of(fnode)
        try:
            ordinal = loops.index(stmt) + 1
        except ValueError:
            return None, "?"
        c = self.cset.functions.get(key)
        if c is None:
            return None, ordinal
        lc = (c.get("loops") or {}).get(ordinal)
        return lc, ordinal

    def s_For(self, stmt, st):
        for itv, s0 in self.eval(stmt.iter, st):
            spec = self.to_iterspec(s0, itv)
            lc, ordinal = self.loop_contract(s0, stmt)
            if spec.mode == "concrete" and lc is None:
                yield from self.unroll(stmt, spec.items, s0)
                continue
            if lc is None:
                raise Unsupported("loop %s at line %d needs an invariant (iterating %s)" % (ordinal, stmt.lineno, spec.mode))
            if spec.mode == "concrete":
                spec = self.concrete_to_seq(spec)
            yield from self.cut_loop(stmt, spec, lc, ordinal, s0)

    def unroll(self, stmt, items, st):
        def rec(i, s):
            if i == len(items):
                yield from self.exec_block(stmt.orelse, s)
                return
            for s1 in self.assign(stmt.target, items[i], s):
                for tag, s2, payload in self.exec_block(stmt.body, s1):
                    if tag in ("next", "continue"):
                        yield from rec(i + 1, s2)
                    elif tag == "break":
                        yield ("next", s2, None)
                    else:
                        yield (tag, s2, payload)
        yield from rec(0, st)

    def concrete_to_seq(self, spec):
        lst = self.make_list(spec.items)
        if not isinstance(lst, self.SV):
            raise Unsupported("empty concrete iterable with an invariant")
        ek = lst.kind.args[0]
        return self.IterSpec("seq", length=lst.tree[0], elt=lambda i: self.SV(ek, tselect(lst.tree[1], i)), ekind=ek)

    def havoc_for_loop(self, st, body_nodes, lc, label):
        """havoc what the loop body may change: locals syntactically written + heap per modifies"""
        from .interp import Alias
        SV = self.SV
        s = st.copy()
        receivers = set()
        names = assigned_names(body_nodes, receivers)
        # local closures called in the body may rebind (nonlocal) or mutate variables of the enclosing function
        from .interp import FuncVal
        seen_fn, work = set(), list(body_nodes)
        while work:
            root = work.pop()
            for n in ast.walk(root):
                if isinstance(n, ast.Call) and isinstance(n.func, ast.Name):
                    fid = s.lookup_frame(n.func.id)
                    fv = s.frames[fid][0].get(n.func.id) if fid is not None else None
                    if isinstance(fv, FuncVal) and fv.frame is not None and id(fv.node) not in seen_fn:
                        seen_fn.add(id(fv.node))
                        inner_recv = set()
                        inner_assigned = assigned_names(fv.node.body, inner_recv)
                        nonlocal_names = {x for st_ in ast.walk(fv.node) if isinstance(st_, ast.Nonlocal) for x in st_.names}
                        params = {a.arg for a in fv.node.args.args + fv.node.args.kwonlyargs}
                        names |= (inner_assigned & nonlocal_names)
                        receivers |= {r for r in inner_recv if r not in params and (r not in inner_assigned or r in nonlocal_names)}
                        work.extend(fv.node.body)
        hints = (lc.get("vars") or {})
        for name in sorted(receivers - names):
            fid = s.lookup_frame(name)
            if fid is None:
                continue
            cur = s.frames[fid][0][name]
            if (isinstance(cur, SV) and cur.kind.tag in ("set", "dict", "list")) or isinstance(cur, self.EmptyLit):
                names.add(name)
        self._last_havoc_names = set(names) | set(receivers)
        for name in sorted(names):
            fid = s.lookup_frame(name)
            if fid is None:
                if name in hints:
                    k = parse_kind(hints[name])
                    s = s.setvar(name, SV(k, tfresh(k, name)) if k.tag not in ("set", "dict", "list")
                                 else SV(k, tfresh(k, name), ("var", s.cur, name)))
                continue
            cur = s.frames[fid][0][name]
            if isinstance(cur, Alias):
                continue  # lives in the heap / another container: covered by the heap havoc or its home variable
            if isinstance(cur, SV):
                k = cur.kind
                if name in hints:
                    k = parse_kind(hints[name])
                newv = SV(k, tfresh(k, name), cur.origin if k.tag in ("set", "dict", "list") else None)
                s = s.setvar(name, newv, fid)
            elif isinstance(cur, self.EmptyLit):
                if name not in hints:
                    raise Unsupported("loop-modified empty container %r needs a kind in the loop contract's `vars`" % name)
                k = parse_kind(hints[name])
                s = s.setvar(name, SV(k, tfresh(k, name), ("var", fid, name)), fid)
            elif isinstance(cur, (bool, int, float, str)) or cur is None:
                if name in hints:
                    k = parse_kind(hints[name])
                elif isinstance(cur, bool):
                    k = BOOL
                elif isinstance(cur, int):
                    k = INT
                elif isinstance(cur, float):
                    k = REAL
                elif isinstance(cur, str):
                    k = STR
                else:
                    raise Unsupported("loop-modified variable %r starts as None: give its kind in `vars`" % name)
                s = s.setvar(name, SV(k, tfresh(k, name)), fid)
            elif isinstance(cur, (tuple, list)):
                if name in hints:
                    k = parse_kind(hints[name])
                    s = s.setvar(name, SV(k, tfresh(k, name), ("var", fid, name) if k.tag in ("set", "dict", "list") else None), fid)
                else:
                    raise Unsupported("loop-modified tuple variable %r needs a kind" % name)
            # functions / classes: not havocked
        # havocked values are still well-typed Python values (list lengths are non-negative, references allocated)
        from .verify import valid_tree
        for name in sorted(names):
            fid = s.lookup_frame(name)
            if fid is None:
                continue
            cur = s.frames[fid][0][name]
            if isinstance(cur, SV):
                w = z3.simplify(valid_tree(cur.kind, cur.tree, s.nref)) if cur.kind.tag != "none" else None
                if w is not None and not z3.is_true(w):
                    s.pc.append(w)
        mods = self.active_modifies(st, lc, body_nodes)
        s = self.havoc_heap(s, mods, label)
        return s

    PURE_CALLS = {"len", "int", "float", "str", "bool", "abs", "min", "max", "sum", "sorted", "set", "list", "tuple",
                  "dict", "frozenset", "range", "enumerate", "zip", "isinstance", "all", "any", "round", "repr"}

    def body_may_write_heap(self, nodes):
        """syntactic: does the loop body contain anything that could write an object field?"""
        for root in nodes:
            for n in ast.walk(root):
                if isinstance(n, ast.Call):
                    f = n.func
                    if isinstance(f, ast.Name) and f.id in self.PURE_CALLS:
                        continue
                    return True
                if isinstance(n, (ast.Attribute, ast.Subscript)) and isinstance(n.ctx, (ast.Store, ast.Del)):
                    base = n.value
                    while isinstance(base, ast.Subscript):
                        base = base.value
                    if not isinstance(base, ast.Name):
                        return True
                    if isinstance(n, ast.Attribute):
                        return True
        return False

    def active_modifies(self, st, lc, body_nodes=None):
        if lc is not None and lc.get("modifies") is not None:
            return self.eval_modifies(st, lc["modifies"])
        if body_nodes is not None and not self.body_may_write_heap(body_nodes):
            return []
        if st.modstack:
            return st.modstack[-1]["items"]
        return []

    def eval_modifies(self, st, items):
        """['self.edges', 'RXNSide.data', ...] -> [(cls, field, target ref term | None)]"""
        out = []
        for it in items:
            head, fld = it.rsplit(".", 1)
            if head in self.cset.classes:
                out.append((head, fld, None))
                continue
            s2 = st.copy()
            s2.pure = True
            v, _ = self.eval1(ast.parse(head, mode="eval").body, s2)
            if not (isinstance(v, self.SV) and v.kind.tag == "obj"):
                raise Unsupported("modifies item %r does not denote an object field" % it)
            out.append((v.kind.extra, fld, v.tree))
        return out

    def havoc_heap(self, st, mods, label):
        s = st.copy()
        nref0 = st.nref
        fields = {}
        for cls, fld, tgt in mods:
            fields.setdefault((cls, fld), []).append(tgt)
        if fields:
            s.nref = z3.Int(core.fresh_name("nref"))
            s.pc.append(s.nref >= nref0)
        for (cls, fld), tgts in fields.items():
            k = self.field_kind(cls, fld)
            old = self.heap_get(st, cls, fld)
            new = tmap(lambda srt: z3.Const(core.fresh_name("H.%s.%s" % (cls, fld)), z3.ArraySort(core.I, srt)), sort_tree(k))
            s.heap[(cls, fld)] = new
            if None not in tgts:
                r = z3.Int(core.fresh_name("r"))
                same = teq(tselect(new, r), tselect(old, r))
                cond = z3.And(r < nref0, *[r != t for t in tgts])
                s.pc.append(z3.ForAll([r], z3.Implies(cond, same)))
        if fields:
            s.pc.extend(self.all_heap_typing(s))
        seen = []
        for cls, fld, tgt in mods:
            if cls in ("Graph", "DiGraph") and tgt is not None and not any(tgt.eq(t) for t in seen):
                seen.append(tgt)
                s.pc.extend(self.nx_graph_wf(s, self.SV(OBJ(cls), tgt)))   # A-nx-graph invariant survives any update
        return s

    def all_heap_typing(self, st):
        """objects allocated meanwhile are well typed too: every reference stored in any field is allocated"""
        out = []
        for cls, c in self.cset.classes.items():
            for fld, k in c["fields"].items():
                if self.contains_obj(k):
                    out.extend(self.heap_typing(st, cls, fld))
        return out

    def cut_loop(self, stmt, spec, lc, ordinal, st):
        SV = self.SV
        label = "loop%s" % ordinal
        invs = lc.get("inv") or lc.get("invariant") or []
        # an invariant / staged assert may be given as {"inv" | "assert": text, "using": [texts of earlier staged asserts]}
        inv_using = {i: x.get("using") for i, x in enumerate(invs) if isinstance(x, dict)}
        invs = [x["inv"] if isinstance(x, dict) else x for x in invs]
        ghost_init = [n for t in (lc.get("ghost_init") or []) for n in ast.parse(t).body]
        ghost_step = [n for t in (lc.get("ghost_step") or []) for n in ast.parse(t).body]
        if lc.get("seq_as") and getattr(spec, "as_list", None) is not None:
            # ghost name for the sequence being iterated (e.g. the matcher's enumeration), usable in invariants / ghost_ensures
            st = st.setvar(lc["seq_as"], spec.as_list)
        if ghost_init:
            outs = [o for o in self.exec_block(ghost_init, st)]
            if len(outs) != 1 or outs[0][0] != "next":
                raise Unsupported("ghost_init must be straight-line code")
            st = outs[0][1]
        # ---- ghost progress variable
        if spec.mode == "set":
            kk = spec.ekind
            arr_sort = z3.ArraySort(keysort(kk), core.B)
            done_entry = SV(SET(kk), z3.K(keysort(kk), FALSE))
            done = SV(SET(kk), z3.Const(core.fresh_name("done"), arr_sort))
        else:
            done_entry = SV(INT, z3.IntVal(0))
            done = SV(INT, z3.Int(core.fresh_name("idx")))
        # ---- entry
        s_entry = st.copy()
        s_entry.entry2 = st.entry
        s_entry.entry = st
        s_entry.iter0 = st.iter0
        for i, inv in enumerate(invs):
            g = self.eval_spec(inv, s_entry, {"done": done_entry, **self.loop_ghost(spec)})
            self.emit(st, "inv-entry", "%s[%d]" % (label, i), g)
        # ---- arbitrary iteration
        body_nodes = list(stmt.body) + [stmt.target] + ghost_step
        sh = self.havoc_for_loop(st, body_nodes, lc, label)
        sh.entry2 = st.entry
        sh.entry = st
        sh.iter0 = st.iter0
        if spec.mode == "set":
            x = z3.Const(core.fresh_name("x"), keysort(kk))
            y = z3.Const(core.fresh_name("y"), keysort(kk))
            sh.pc.append(z3.ForAll([y], z3.Implies(z3.Select(done.tree, y), z3.Select(spec.mem, y))))
        else:
            sh.pc.append(z3.And(done.tree >= 0, done.tree <= spec.length))
        env_extra = {"done": done, **self.loop_ghost(spec)}
        # loop-constant facts: proved once at loop entry, then available at the loop head and after the loop without a step
        # obligation.  Sound only if the loop cannot change what they talk about: every name occurring in a fact must be neither
        # assigned nor mutated (as a receiver) in the body, and must not be the root of an entry of the loop's `modifies` clause,
        # which has to be given explicitly (otherwise the loop's heap effect is unknown)
        for fi, fact in enumerate(lc.get("facts") or []):
            if "modifies" not in lc:
                raise Unsupported("loop `facts` need an explicit `modifies` clause on the loop")
            fnames = {n.id for n in ast.walk(self.cset.parse_expr(fact)) if isinstance(n, ast.Name)}
            roots = {m.split(".")[0].split("[")[0] for m in (lc.get("modifies") or [])}
            clash = fnames & (set(getattr(self, "_last_havoc_names", set())) | roots | {"done"})
            if clash:
                raise Unsupported("loop fact %r mentions names the loop may change: %s" % (fact[:60], sorted(clash)))
            g0 = self.eval_spec(fact, s_entry, {})
            self.emit(st, "inv-entry", "%s.fact[%d]" % (label, fi), g0)
            sh.pc.append(self.eval_spec(fact, sh, {}))
        for inv in invs:
            sh.pc.append(self.eval_spec(inv, sh, env_extra))
        loop_mods = lc.get("modifies")
        if loop_mods is not None:
            frame = {"name": label, "items": self.eval_modifies(st, loop_mods), "nref": st.nref}
            sh.modstack = sh.modstack + (frame,)
        # ---- one iteration
        if spec.mode == "set":
            sb = sh.assume(z3.Select(spec.mem, x), z3.Not(z3.Select(done.tree, x)))
            elem = spec.elem(x, sb)
            mark = getattr(spec, "mark", None)
            done_next = SV(SET(kk), mark(done.tree, x) if mark else z3.Store(done.tree, x, TRUE))
        else:
            sb = sh.assume(done.tree < spec.length)
            elem = spec.elt(done.tree)
            done_next = SV(INT, done.tree + 1)
        sb = sb.note("%s body" % label)
        if self.feasible(sb):
            n_body_paths = 0
            for s1 in self.assign(stmt.target, elem, sb):
                s1 = s1.copy()
                s1.iter0 = s1.copy()        # start of this iteration (visible to inner loops as at_iter())
                for tag, s2, payload in self.exec_block(stmt.body, s1):
                    n_body_paths += 1
                    if tag in ("next", "continue"):
                        if ghost_step:
                            if spec.mode != "set":
                                s2 = s2.setvar("__done__", done)      # index of the element just processed (ghost)
                            gouts = [o for o in self.exec_block(ghost_step, s2)]
                            if any(o[0] != "next" for o in gouts):
                                raise Unsupported("ghost_step must not raise/return")
                            s2list = [o[1] for o in gouts]
                        else:
                            s2list = [s2]
                        for s2 in s2list:
                            # staged assertions at the end of an iteration (proved first, then available as facts for the
                            # invariant re-establishment): they only add consequences; at_iter() refers to the start of THIS iteration
                            hint_forms = {}
                            for hi, hint in enumerate(lc.get("step_hints") or []):
                                using = None
                                if isinstance(hint, dict):
                                    hint, using = hint["assert"], hint.get("using")
                                s_hint = s2.copy()          # (must not reuse the name of the loop-head state `sh`: it is needed for the exit)
                                s_hint.entry2 = st.entry
                                s_hint.entry = st
                                g = self.eval_spec(hint, s_hint, {"done": done_next, **self.loop_ghost(spec)})
                                if using is not None and any(u not in hint_forms for u in using):
                                    raise Unsupported("`using` of %s.step_hint[%d] names a text that is not an earlier staged assert" % (label, hi))
                                self.emit(s2, "assert", "%s.step_hint[%d]" % (label, hi), g,
                                          focus=None if using is None else [hint_forms[u] for u in using])
                                s2 = s2.assume(g)
                                hint_forms[hint] = g
                            s2c = s2.copy()
                            s2c.entry2 = st.entry
                            s2c.entry = st
                            s2c.iter0 = st.iter0
                            for i, inv in enumerate(invs):
                                g = self.eval_spec(inv, s2c, {"done": done_next, **self.loop_ghost(spec)})
                                using = inv_using.get(i)
                                if using is not None and any(u not in hint_forms for u in using):
                                    raise Unsupported("`using` of %s[%d] names a text that is not a staged assert of the loop" % (label, i))
                                self.emit(s2, "inv-step", "%s[%d]" % (label, i), g,
                                          focus=None if using is None else [hint_forms[u] for u in using])
                    elif tag == "break":
                        s3 = s2.copy()
                        s3.modstack = st.modstack
                        yield ("next", s3.note("%s break" % label), None)
                    else:
                        s3 = s2.copy()
                        s3.modstack = st.modstack
                        yield (tag, s3, payload)
            if n_body_paths == 0:
                # the body can be entered but no path through it survives: an inner loop exit or a call contract is contradictory
                self.__dict__.setdefault("vacuous_exits", []).append("%s/%s body (no path reaches its end)" % (self.ob_prefix, label))
        # ---- exit
        if spec.mode == "set":
            sx = sh.assume(done.tree == spec.mem)
        else:
            sx = sh.assume(done.tree == spec.length)
        sx.modstack = st.modstack
        sx = sx.note("%s exit" % label)
        if self.feasible(sx):
            yield from self.exec_block(stmt.orelse, sx)
        else:
            # the invariants contradict the exit condition: everything after this loop would be vacuously "proved"
            self.__dict__.setdefault("vacuous_exits", []).append("%s/%s exit" % (self.ob_prefix, label))

    def loop_ghost(self, spec):
        return {}

    def s_While(self, stmt, st):
        lc, ordinal = self.loop_contract(st, stmt)
        if lc is None:
            raise Unsupported("while loop at line %d needs an invariant" % stmt.lineno)
        label = "loop%s" % ordinal
        invs = lc.get("inv") or []
        s_entry = st.copy()
        s_entry.entry2 = st.entry
        s_entry.entry = st
        s_entry.iter0 = st.iter0
        for i, inv in enumerate(invs):
            self.emit(st, "inv-entry", "%s[%d]" % (label, i), self.eval_spec(inv, s_entry, {}))
        sh = self.havoc_for_loop(st, list(stmt.body), lc, label)
        sh.entry2 = st.entry
        sh.entry = st
        sh.iter0 = st.iter0
        for inv in invs:
            sh.pc.append(self.eval_spec(inv, sh, {}))
        loop_mods = lc.get("modifies")
        if loop_mods is not None:
            sh.modstack = sh.modstack + ({"name": label, "items": self.eval_modifies(st, loop_mods), "nref": st.nref},)
        for c, s in self.eval(stmt.test, sh):
            t = z3.simplify(self.truthy(c))
            sa = s.assume(t)
            if not z3.is_false(t) and self.feasible(sa):
                for tag, s2, payload in self.exec_block(stmt.body, sa.note("%s body" % label)):
                    if tag in ("next", "continue"):
                        s2c = s2.copy()
                        s2c.entry2 = st.entry
                        s2c.entry = st
                        for i, inv in enumerate(invs):
                            self.emit(s2, "inv-step", "%s[%d]" % (label, i), self.eval_spec(inv, s2c, {}))
                    elif tag == "break":
                        s3 = s2.copy()
                        s3.modstack = st.modstack
                        yield ("next", s3, None)
                    else:
                        s3 = s2.copy()
                        s3.modstack = st.modstack
                        yield (tag, s3, payload)
            sb = s.assume(z3.Not(t))
            sb.modstack = st.modstack
            if not z3.is_true(t) and self.feasible(sb):
                yield from self.exec_block(stmt.orelse, sb.note("%s exit" % label))

    # ================================================================== iteration specs
    def to_iterspec(self, st, v):
        SV, IterSpec, ViewVal = self.SV, self.IterSpec, self.ViewVal
        if isinstance(v, IterSpec):
            return v
        if isinstance(v, (tuple, list)):
            return IterSpec("concrete", items=list(v))
        if isinstance(v, self.EmptyLit) or (isinstance(v, (set, dict)) and not v):
            return IterSpec("concrete", items=[])
        if isinstance(v, ViewVal):
            d = v.dsv
            kk, vk = d.kind.args
            if v.what == "keys":
                return IterSpec("set", mem=d.tree[0], ekind=kk, elem=lambda x, s: SV(kk, from_key(kk, x)))
            if v.what == "items":
                def elem(x, s, d=d):
                    val = SV(vk, tselect(d.tree[1], x), ("item", d.origin, d.kind, x) if d.origin else None)
                    return (SV(kk, from_key(kk, x)), val)
                return IterSpec("set", mem=d.tree[0], ekind=kk, elem=elem)
            if v.what == "values":
                def elem(x, s, d=d):
                    return SV(vk, tselect(d.tree[1], x), ("item", d.origin, d.kind, x) if d.origin else None)
                return IterSpec("set", mem=d.tree[0], ekind=kk, elem=elem)
        if isinstance(v, SV):
            t = v.kind.tag
            if t == "set" and v.meta and v.meta.get("unordered"):
                return self.lib["iter:upairs"].fn(self, st, v)
            if t == "set":
                kk = v.kind.args[0]
                return IterSpec("set", mem=v.tree, ekind=kk, elem=lambda x, s: SV(kk, from_key(kk, x)), identity=True)
            if t == "dict":
                kk = v.kind.args[0]
                return IterSpec("set", mem=v.tree[0], ekind=kk, elem=lambda x, s: SV(kk, from_key(kk, x)))
            if t == "list" and z3.is_int_value(z3.simplify(v.tree[0])) and z3.simplify(v.tree[0]).as_long() <= 64:
                ek = v.kind.args[0]
                n = z3.simplify(v.tree[0]).as_long()
                return IterSpec("concrete", items=[SV(ek, tmap(lambda a: z3.simplify(z3.Select(a, z3.IntVal(i))), v.tree[1]),
                                                      ("item", v.origin, v.kind, z3.IntVal(i)) if v.origin else None)
                                                   for i in range(n)])
            if t == "list":
                ek = v.kind.args[0]
                return IterSpec("seq", length=v.tree[0], ekind=ek,
                                elt=lambda i, v=v: SV(ek, tselect(v.tree[1], i),
                                                       ("item", v.origin, v.kind, i) if v.origin else None))
            if t == "tuple":
                return IterSpec("concrete", items=[SV(k, x) for k, x in zip(v.kind.args, v.tree)])
            if t == "opt":
                if not st.pure:
                    self.emit(st, "defined", "not-None(iter)", z3.Not(v.tree[0]))
                return self.to_iterspec(st, SV(v.kind.args[0], v.tree[1], v.origin))
            if t == "obj":
                mod = self.class_module(v.kind.extra)
                q = "%s.__iter__" % v.kind.extra
                if mod and q in mod.funcs:
                    from .interp import FuncVal
                    outs = list(self.call(st, FuncVal(mod.funcs[q], None, mod, q, self_val=v, cls=v.kind.extra), [], {}))
                    if len(outs) == 1:
                        return self.to_iterspec(outs[0][1], outs[0][0])
                key = "iter:obj:" + v.kind.extra
                if key in self.lib:
                    return self.lib[key].fn(self, st, v)
        if isinstance(v, CompVal):
            raise Unsupported("iteration over a generator expression")
        raise Unsupported("iteration over %r" % (v,))

    # ================================================================== comprehensions
    def e_GeneratorExp(self, e, st):
        yield CompVal(e, st), st

    def e_ListComp(self, e, st):
        yield self.comp_list(e, st), st

    def e_SetComp(self, e, st):
        yield self.comp_set(e, st), st

    def e_DictComp(self, e, st):
        yield self.comp_dict(e, st), st

    def comp_bindings(self, gens, st, k):
        """enumerate comprehension bindings: for concrete iterables unroll; for one symbolic generator return a
        description.  Calls k(state, guard) for concrete ones; returns ('sym', spec, gen) for the symbolic case."""
        raise NotImplementedError

    def comp_concrete(self, e, st):
        """if all generators iterate concrete sequences: list of (state with bindings) for each surviving binding
        together with the z3 guard (conjunction of the if-clauses)"""
        out = []

        def rec(gi, s, guard):
            if gi == len(e.generators):
                out.append((s, guard))
                return True
            g = e.generators[gi]
            itv, s1 = self.eval1(g.iter, s)
            spec = self.to_iterspec(s1, itv)
            if spec.mode != "concrete":
                return False
            for item in spec.items:
                ss = self.assign(g.target, item, s1)
                if len(ss) != 1:
                    raise Unsupported("comprehension target forks")
                s2 = ss[0]
                gd = guard
                for cond in g.ifs:
                    c, s2 = self.eval1(cond, s2)
                    gd = z3.And(gd, self.truthy(c))
                gd = z3.simplify(gd)
                if z3.is_false(gd):
                    continue
                if not rec(gi + 1, s2, gd):
                    return False
            return True

        sp = st.copy()
        sp.pure = True
        sp, _ = sp.push_frame(st.cur, st.frames[st.cur][2])
        ok = rec(0, sp, TRUE)
        return out if ok else None

    def comp_symbolic(self, e, st):
        """single symbolic generator: returns (spec, bound var term, state with binding, guard)"""
        if len(e.generators) != 1:
            raise Unsupported("comprehension with several symbolic generators")
        g = e.generators[0]
        sp = st.copy()
        sp.pure = True
        sp, _ = sp.push_frame(st.cur, st.frames[st.cur][2])
        itv, s1 = self.eval1(g.iter, sp)
        spec = self.to_iterspec(s1, itv)
        if spec.mode == "set":
            x = z3.Const(core.fresh_name("cx"), keysort(spec.ekind))
            elem = spec.elem(x, s1)
            dom = z3.Select(spec.mem, x)
        elif spec.mode == "seq":
            x = z3.Int(core.fresh_name("ci"))
            elem = spec.elt(x)
            dom = z3.And(0 <= x, x < spec.length)
        else:
            raise Unsupported("comp_symbolic on concrete")
        ss = self.assign(g.target, elem, s1)
        if len(ss) != 1:
            raise Unsupported("comprehension target forks")
        s2 = ss[0]
        guard = TRUE
        for cond in g.ifs:
            gt, = self.under_binder([x], lambda cond=cond: [self.truthy(self.eval1(cond, s2)[0])])
            guard = z3.And(guard, gt)
        return spec, x, s2, dom, z3.simplify(guard)

    def comp_all_any(self, comp, is_all):
        e, st = comp.node, comp.st
        conc = self.comp_concrete(e, st)
        if conc is not None:
            parts = []
            for s, guard in conc:
                v, _ = self.eval1(e.elt, s)
                t = self.truthy(v)
                parts.append(z3.Implies(guard, t) if is_all else z3.And(guard, t))
            if not parts:
                return TRUE if is_all else FALSE
            return z3.And(*parts) if is_all else z3.Or(*parts)
        spec, x, s2, dom, guard = self.comp_symbolic(e, st)
        t, = self.under_binder([x], lambda: [self.truthy(self.eval1(e.elt, s2)[0])])
        if is_all:
            return z3.ForAll([x], z3.Implies(z3.And(dom, guard), t))
        return z3.Exists([x], z3.And(dom, guard, t))

    def comp_set(self, e, st):
        SV = self.SV
        conc = self.comp_concrete(e, st)
        if conc is not None:
            vals = []
            for s, guard in conc:
                if not z3.is_true(guard):
                    raise Unsupported("set comprehension over concrete items with symbolic filter")
                v, _ = self.eval1(e.elt, s)
                vals.append(v)
            return self.make_set(vals) if vals else set()
        spec, x, s2, dom, guard = self.comp_symbolic(e, st)
        box_ = {}

        def ev():
            v0, _ = self.eval1(e.elt, s2)
            if type(v0).__name__ == "UPair":
                box_["upair"] = v0
                return []
            v0 = self.tup_to_sv(v0)
            box_["kind"] = v0.kind
            return [v0.tree]
        out = self.under_binder([x], ev)
        if "upair" in box_:
            return self.lib["comp_set:upair"].fn(self, x, dom, guard, box_["upair"])
        v = SV(box_["kind"], out[0])
        ek = v.kind
        res = z3.Const(core.fresh_name("setc"), z3.ArraySort(keysort(ek), core.B))
        key = to_key(ek, v.tree)
        if spec.mode == "set" and key.eq(x):
            self.define([z3.ForAll([x], z3.Select(res, x) == z3.And(dom, guard))])
        else:
            y = z3.Const(core.fresh_name("cy"), keysort(ek))
            wit = z3.Function(core.fresh_name("wit"), keysort(ek), x.sort())
            sub = lambda t: z3.substitute(t, (x, wit(y)))
            self.define([z3.ForAll([x], z3.Implies(z3.And(dom, guard), z3.Select(res, key))),
                         z3.ForAll([y], z3.Implies(z3.Select(res, y), z3.And(sub(dom), sub(guard), sub(key) == y)))])
        return SV(SET(ek), res)

    def comp_list(self, e, st):
        SV = self.SV
        conc = self.comp_concrete(e, st)
        if conc is not None:
            vals = []
            for s, guard in conc:
                if not z3.is_true(guard):
                    raise Unsupported("list comprehension over concrete items with symbolic filter")
                v, _ = self.eval1(e.elt, s)
                vals.append(v)
            return vals if vals else []
        spec, x, s2, dom, guard = self.comp_symbolic(e, st)
        if spec.mode != "seq":
            # [x for x in <set-like> if cond]: a duplicate-free enumeration, in arbitrary order, of the elements passing the
            # filter (only when the element expression is the iteration variable itself, so that no duplicates can arise)
            sset = self.comp_set(ast.SetComp(elt=e.elt, generators=e.generators), st)
            ek = sset.kind.args[0]
            probe, = self.under_binder([x], lambda: [to_key(ek, self.coerce(self.tup_to_sv(self.eval1(e.elt, s2)[0]), ek, what="comprehension").tree)])
            if not probe.eq(x):
                raise Unsupported("list comprehension over an unordered collection with a computed element")
            k = LIST(ek)
            res = tfresh(k, "listu")
            n = res[0]
            ks = keysort(ek)
            y = z3.Const(core.fresh_name("y"), ks)
            i = z3.Int(core.fresh_name("i"))
            pos = z3.Function(core.fresh_name("pos"), ks, core.I)
            elt_key = lambda idx: to_key(ek, tselect(res[1], idx))
            self.define([n >= 0, n == self.card(sset.tree),
                         z3.ForAll([y], z3.Implies(z3.Select(sset.tree, y), z3.And(0 <= pos(y), pos(y) < n, elt_key(pos(y)) == y))),
                         z3.ForAll([i], z3.Implies(z3.And(0 <= i, i < n), z3.And(z3.Select(sset.tree, elt_key(i)), pos(elt_key(i)) == i)))])
            if getattr(self, "_binder_depth", 0) == 0:
                cache = self.__dict__.setdefault("_list_sets", {})
                k_new = tuple(l.get_id() for l in core.tleaves(res))
                cache[k_new] = SV(SET(ek), sset.tree)
                cache[("keep", k_new)] = res
            return SV(k, res)
        box_ = {}

        def ev():
            v0 = self.tup_to_sv(self.eval1(e.elt, s2)[0])
            if v0.kind.tag == "list":
                v0 = SV(v0.kind, v0.tree)
            box_["kind"] = v0.kind
            return [v0.tree]
        out = self.under_binder([x], ev)
        v = SV(box_["kind"], out[0])
        k = LIST(v.kind)
        res = tfresh(k, "listc")
        if z3.is_true(guard):
            self.define([res[0] == spec.length,
                         z3.ForAll([x], z3.Implies(dom, teq(tselect(res[1], x), v.tree)))])
            return SV(k, res)
        # filtered comprehension: the result is the order-preserving sub-list of the elements passing the filter.
        # emb: result position -> source position (strictly increasing); inv: its inverse on the passing positions
        n = spec.length
        emb = z3.Function(core.fresh_name("emb"), core.I, core.I)
        inv = z3.Function(core.fresh_name("inv"), core.I, core.I)
        i, j = z3.Int(core.fresh_name("i")), z3.Int(core.fresh_name("j"))
        at = lambda t, pos: z3.substitute(t, (x, pos))
        vt_at = lambda pos: tmap(lambda leaf: z3.substitute(leaf, (x, pos)), v.tree)
        self.define([
            res[0] >= 0, res[0] <= z3.If(n > 0, n, 0),
            z3.ForAll([i], z3.Implies(z3.And(0 <= i, i < res[0]),
                                      z3.And(0 <= emb(i), emb(i) < n, at(guard, emb(i)), inv(emb(i)) == i,
                                             teq(tselect(res[1], i), vt_at(emb(i)))))),
            z3.ForAll([i, j], z3.Implies(z3.And(0 <= i, i < j, j < res[0]), emb(i) < emb(j))),
            z3.ForAll([x], z3.Implies(z3.And(dom, guard), z3.And(0 <= inv(x), inv(x) < res[0], emb(inv(x)) == x))),
        ])
        return SV(k, res)

    def comp_dict(self, e, st):
        SV = self.SV
        conc = self.comp_concrete_dict(e, st)
        if conc is not None:
            return conc
        # single symbolic generator
        fake = ast.GeneratorExp(elt=ast.Tuple(elts=[e.key, e.value], ctx=ast.Load()), generators=e.generators)
        spec, x, s2, dom, guard = self.comp_symbolic(fake, st)
        box_ = {}

        def ev():
            a = self.tup_to_sv(self.eval1(e.key, s2)[0])
            b = self.tup_to_sv(self.eval1(e.value, s2)[0])
            box_["k"] = (a.kind, b.kind)
            return [a.tree, b.tree]
        out = self.under_binder([x], ev)
        kv, vv = SV(box_["k"][0], out[0]), SV(box_["k"][1], out[1])
        kind = DICT(kv.kind, vv.kind)
        res = tfresh(kind, "dictc")
        key = to_key(kv.kind, kv.tree)
        if spec.mode == "set" and key.eq(x):
            self.define([z3.ForAll([x], z3.Select(res[0], x) == z3.And(dom, guard)),
                         z3.ForAll([x], z3.Implies(z3.And(dom, guard), teq(tselect(res[1], x), vv.tree)))])
            return SV(kind, res)
        # general keys: needs injectivity of the key expression for a functional reading; we require the caller's
        # contract to state it -- here only the "for each binding" direction plus a witness for the domain
        y = z3.Const(core.fresh_name("cy"), keysort(kv.kind))
        wit = z3.Function(core.fresh_name("wit"), keysort(kv.kind), x.sort())
        sub = lambda t: z3.substitute(t, (x, wit(y)))
        self.define([z3.ForAll([x], z3.Implies(z3.And(dom, guard), z3.Select(res[0], key))),
                     z3.ForAll([y], z3.Implies(z3.Select(res[0], y),
                                               z3.And(sub(dom), sub(guard), sub(key) == y,
                                                      teq(tselect(res[1], y), tmap(sub, vv.tree)))))])
        self.assumptions_used.add("dict comprehension with non-identity keys: value taken from *a* binding producing "
                                  "the key (last-wins order is not modelled)")
        return SV(kind, res)

    def comp_concrete_dict(self, e, st):
        fake = ast.GeneratorExp(elt=ast.Constant(value=0), generators=e.generators)
        conc = self.comp_concrete(fake, st)
        if conc is None:
            return None
        pairs = []
        for s, guard in conc:
            if not z3.is_true(guard):
                raise Unsupported("dict comprehension over concrete items with symbolic filter")
            k, _ = self.eval1(e.key, s)
            v, _ = self.eval1(e.value, s)
            pairs.append((k, v))
        if not pairs:
            return {}
        if all(not isinstance(k, self.SV) for k, _ in pairs):
            # concrete keys: keep a python dict (static record), values may be symbolic
            return self.make_dict(pairs)
        return self.make_dict(pairs)

    def e_Lambda(self, e, st):
        from .interp import LambdaVal
        self.captured.add(st.cur)
        yield LambdaVal(e, st.cur, st.frames[st.cur][2]), st

    def e_Starred(self, e, st):
        raise Unsupported("starred expression outside a call/tuple")

    def e_NamedExpr(self, e, st):
        raise Unsupported("walrus")

    # ================================================================== calls
    def e_Call(self, e, st):
        if self.is_log_call(e):
            yield None, st
            return
        if isinstance(e.func, ast.Name) and e.func.id in ("old", "at_entry", "at_entry2", "at_iter") and st.lookup_frame(e.func.id) is None \
                and len(e.args) == 1:
            yield self.eval_in_past(e.args[0], st, e.func.id), st
            return
        for f, s1 in self.eval(e.func, st):
            pos_nodes = e.args
            if any(isinstance(a, ast.Starred) for a in pos_nodes):
                arg_iter = self.eval_starred(pos_nodes, s1)
            else:
                arg_iter = self.eval_list(pos_nodes, s1)
            for args, s2 in arg_iter:
                kwnodes = [k for k in e.keywords]
                if any(k.arg is None for k in kwnodes):
                    # **kwargs: only a static dict of attributes is supported
                    for kwargs, s3 in self.eval_kwargs(kwnodes, s2):
                        yield from self.call(s3, f, args, kwargs)
                    continue
                for kvals, s3 in self.eval_list([k.value for k in kwnodes], s2):
                    kwargs = {k.arg: v for k, v in zip(kwnodes, kvals)}
                    yield from self.call(s3, f, args, kwargs)

    def eval_in_past(self, arg, st, which):
        """old(e): e in the state at function entry (or before the call, at a call site);
        at_entry(e): e in the state at entry of the innermost loop"""
        env_override = None
        if which == "old":
            past = st.old
            if isinstance(past, tuple):
                past, env_override = past
        elif which == "at_entry2":
            past = st.entry2
        elif which == "at_iter":
            past = st.iter0
        else:
            past = st.entry
        if past is None:
            raise Unsupported("%s() used where no past state exists" % which)
        s2 = st.copy()
        s2.pure = True
        s2.heap = dict(past.heap)
        s2.nref = past.nref
        for fid, fr in past.frames.items():
            if fid in s2.frames and fid != st.cur:
                s2.frames[fid] = fr
        if env_override:
            # the specification variables of a call site (parameters, mutated closure variables) live in spec frames that did not
            # exist in the past state: every such frame gets the pre-call values, also when old() occurs inside a quantifier's lambda
            # (whose own frame is the current one)
            for fid in list(s2.frames):
                if fid in past.frames and fid != s2.cur:
                    continue
                env, parent, mod = s2.frames[fid]
                if any(k in env for k in env_override):
                    env = dict(env)
                    for k, v in env_override.items():
                        if k in env:
                            env[k] = v
                    s2.frames[fid] = (env, parent, mod)
        v, _ = self.eval1(arg, s2)
        return v

    def eval_kwargs(self, kwnodes, st):
        if not kwnodes:
            yield {}, st
            return
        k = kwnodes[0]
        for v, s1 in self.eval(k.value, st):
            for rest, s2 in self.eval_kwargs(kwnodes[1:], s1):
                if k.arg is None:
                    yield {"**": v, **rest}, s2
                else:
                    yield {k.arg: v, **rest}, s2

    def call(self, st, f, args, kwargs):
        """generator of (value, state)"""
        from .interp import FuncVal, ClassVal, BuiltinVal, BoundBuiltin, LambdaVal
        if isinstance(f, BuiltinVal):
            yield from f.fn(self, st, args, kwargs)
            return
        if isinstance(f, BoundBuiltin):
            yield from self.call_method(st, f.recv, f.name, args, kwargs)
            return
        if isinstance(f, LambdaVal):
            yield from self.call_lambda(st, f, args, kwargs)
            return
        if isinstance(f, ClassVal):
            yield from self.construct(st, f, args, kwargs)
            return
        if isinstance(f, FuncVal):
            key = self.contract_key(f)
            c = self.cset.functions.get(key)
            use_contract = c is not None and not c.get("inline") and not c.get("inline_calls") \
                and not (st.pure and c.get("pure_inline", False))
            if f.qualname.startswith("spec:"):
                use_contract = False
            if use_contract and key == self.cur_key and not c.get("recursive"):
                use_contract = True
            if use_contract:
                yield from self.call_contract(st, f, key, c, args, kwargs)
            else:
                yield from self.call_inline(st, f, args, kwargs)
            return
        raise Unsupported("call of %r" % (f,))

    def contract_key(self, f):
        if f.qualname.startswith("spec:"):
            return f.qualname
        return "%s::%s" % (f.mod.relpath if f.mod is not None and hasattr(f.mod, "relpath") else "?", f.qualname)

    def bind_params(self, st, f, args, kwargs, node=None):
        """-> dict name -> value (defaults evaluated purely in the defining module)"""
        node = node or f.node
        a = node.args
        params = [p.arg for p in a.posonlyargs + a.args]
        vals = {}
        args = list(args)
        if getattr(f, "self_val", None) is not None and params:
            args = [f.self_val] + args
        if len(args) > len(params) and a.vararg is None:
            raise Unsupported("too many positional arguments for %s" % getattr(f, "qualname", "lambda"))
        for p, v in zip(params, args):
            vals[p] = v
        if a.vararg is not None:
            vals[a.vararg.arg] = tuple(args[len(params):])
        kwonly = [p.arg for p in a.kwonlyargs]
        extra = {}
        for k, v in kwargs.items():
            if k in params or k in kwonly:
                if k in vals:
                    raise Unsupported("duplicate argument %s" % k)
                vals[k] = v
            elif a.kwarg is not None:
                extra[k] = v
            else:
                raise Unsupported("unexpected keyword %s for %s" % (k, getattr(f, "qualname", "lambda")))
        if a.kwarg is not None:
            vals[a.kwarg.arg] = self.StaticDict(extra)
        # defaults
        defaults = a.defaults
        for p, d in zip(params[len(params) - len(defaults):], defaults):
            if p not in vals:
                vals[p] = self.eval_default(st, f, d)
        for p, d in zip(kwonly, a.kw_defaults):
            if p not in vals:
                if d is None:
                    raise Unsupported("missing keyword-only argument %s" % p)
                vals[p] = self.eval_default(st, f, d)
        for p in params:
            if p not in vals:
                raise Unsupported("missing argument %s for %s" % (p, getattr(f, "qualname", "lambda")))
        return vals

    class StaticDict:
        """**kwargs captured as a static name->value record"""
        def __init__(self, d):
            self.d = dict(d)

    def eval_default(self, st, f, d):
        s2, _ = st.push_frame(f.frame, f.mod)
        s2.pure = True
        v, _ = self.eval1(d, s2)
        return v

    def call_lambda(self, st, f, args, kwargs):
        syn = getattr(self, "_synthetic_frames", {})
        if f.frame in syn and f.frame not in st.frames:
            st = st.copy()
            st.frames[f.frame] = syn[f.frame]
        vals = self.bind_params(st, f, args, kwargs, node=f.node)
        s2, fid = st.push_frame(f.frame, f.mod)
        for k, v in vals.items():
            s2 = self.bind(s2, k, v)
        for v, s3 in self.eval(f.node.body, s2):
            yield v, s3.pop_frame(st.cur, None if fid in self.captured else fid)

    def call_inline(self, st, f, args, kwargs):
        node = f.node
        decs = [d for d in decorators(node) if d not in ("staticmethod", "classmethod", "property", "dataclass",
                                                         "lru_cache")]
        if decs:
            raise Unsupported("decorator %s on %s" % (decs, f.qualname))
        if any(isinstance(n, (ast.Yield, ast.YieldFrom)) for n in ast.walk(node)):
            raise Unsupported("generator function %s" % f.qualname)
        depth = getattr(self, "inline_depth", 0)
        if depth > 12:
            raise Unsupported("inlining too deep (recursive function %s needs a contract)" % f.qualname)
        vals = self.bind_params(st, f, args, kwargs)
        s2, fid = st.push_frame(f.frame, f.mod)
        key = self.contract_key(f)
        self.frame_func[fid] = (node, key)
        self.frame_qual[fid] = f.qualname
        c = self.cset.functions.get(key) or {}
        pk = c.get("params") or {}
        for k, v in vals.items():
            if k in pk and isinstance(pk[k], str) and not pk[k].startswith("const:") and isinstance(v, (list, dict, set)) and not v:
                kd = parse_kind(pk[k])
                v = self.SV(kd, default_tree(kd))
            s2 = self.bind(s2, k, v)
        self.inline_depth = depth + 1
        try:
            outs = list(self.exec_block(strip_docstring(node.body), s2))
        finally:
            self.inline_depth = depth
        for tag, s3, payload in outs:
            s4 = s3.pop_frame(st.cur, None if fid in self.captured else fid)
            if tag in ("next",):
                yield None, s4
            elif tag == "return":
                yield payload, s4
            elif tag == "raise":
                if not st.pure:
                    self.raise_sink[-1].append((payload, s4))
            else:
                raise Unsupported("break/continue escaping a function")

    def construct(self, st, cv, args, kwargs):
        from .interp import FuncVal
        SV = self.SV
        cls = cv.name
        key = "new:" + cls
        if key in self.lib:
            yield from self.lib[key].fn(self, st, args, kwargs)
            return
        if cls in ("KeyError", "ValueError", "TypeError", "RuntimeError", "Exception", "NotImplementedError"):
            yield SV(STR, z3.Int(core.fresh_name("exc"))), st
            return
        c = self.cset.classes.get(cls)
        if c is None:
            raise Unsupported("construction of undeclared class %s" % cls)
        mod = cv.mod or self.class_module(cls)
        s1, ref = self.alloc(st, cls)
        obj = SV(OBJ(cls), ref)
        if mod is not None and mod.is_dataclass(cls):
            flds = mod.dataclass_fields(cls)
            vals = {}
            if len(args) > len(flds):
                raise Unsupported("too many args for dataclass %s" % cls)
            for (name, _, _), v in zip(flds, args):
                vals[name] = v
            for k, v in kwargs.items():
                vals[k] = v
            for name, default, factory in flds:
                if name not in vals:
                    if factory is not None:
                        fv = getattr(factory, "id", None)
                        vals[name] = {"dict": {}, "list": [], "set": set()}.get(fv, None)
                        if fv not in ("dict", "list", "set"):
                            raise Unsupported("default_factory %s" % fv)
                    elif default is not None:
                        s_d, _ = s1.push_frame(None, mod)
                        s_d.pure = True
                        vals[name], _ = self.eval1(default, s_d)
                    else:
                        raise Unsupported("missing dataclass field %s.%s" % (cls, name))
            for name, _, _ in flds:
                k = self.field_kind(cls, name)
                s1 = self.heap_write(s1, cls, name, ref, self.materialize(vals[name], k))
            q = "%s.__post_init__" % cls
            if q in mod.funcs:
                for _, s2 in self.call(s1, FuncVal(mod.funcs[q], None, mod, q, self_val=obj, cls=cls), [], {}):
                    yield obj, s2
            else:
                yield obj, s1
            return
        q = "%s.__init__" % cls
        if mod is not None and q in mod.funcs:
            for _, s2 in self.call(s1, FuncVal(mod.funcs[q], None, mod, q, self_val=obj, cls=cls), args, kwargs):
                yield obj, s2
            return
        raise Unsupported("constructor of %s" % cls)

    # ------------------------------------------------------------------ call by contract
    def call_contract(self, st, f, key, c, args, kwargs):
        SV = self.SV
        vals = self.bind_params(st, f, args, kwargs)
        pk = c.get("params") or {}
        # param coercion to declared kinds
        env = {}
        for name, v in vals.items():
            if name in pk and isinstance(pk[name], str) and not pk[name].startswith("const:"):
                kd = parse_kind(pk[name])
                if isinstance(v, SV) or v is None or isinstance(v, (bool, int, float, str, tuple)) or \
                        (isinstance(v, (list, dict, set)) and not v):
                    v2 = self.coerce(self.materialize(v, kd) if not isinstance(v, tuple) else self.tup_to_sv(v), kd,
                                     what="argument %s of %s" % (name, f.qualname))
                    if isinstance(v, SV):
                        v2 = SV(v2.kind, v2.tree, v.origin)
                    v = v2
            env[name] = v
        label = f.qualname
        spec_st = st.copy()
        spec_st.old = None
        # 0. a nested function verified on its own fixes some closure variables to constants (`"closure": {"x": "const:..."}`): the proof of its
        #    contract only covers callers in which those variables have exactly these values
        for cname, ck in (c.get("closure") or {}).items():
            if isinstance(ck, str) and ck.startswith("const:"):
                want = eval(ck[6:], {})
                try:
                    have = self.resolve_name(st.copy(), cname)
                except Exception as ex:
                    raise Unsupported("closure constant %s of %s cannot be resolved at the call site: %s" % (cname, label, ex))
                if isinstance(have, SV):
                    if have.kind.tag in ("int", "bool", "str", "real", "any", "none") and isinstance(want, (int, bool, str, float, type(None))):
                        g = self.binop_eq(have, want) if hasattr(self, "binop_eq") else None
                        if g is None:
                            raise Unsupported("closure constant %s of %s is symbolic at the call site" % (cname, label))
                        self.emit(st, "pre@call", "%s.closure[%s]" % (label, cname), g)
                    else:
                        raise Unsupported("closure constant %s of %s is symbolic at the call site" % (cname, label))
                elif have != want or type(have) is not type(want):
                    raise Unsupported("closure constant %s of %s is %r in its contract but %r at the call site" % (cname, label, want, have))
        # 0b. call protocol of the function under verification: its contract may pin what it hands to a callee (`"calls": {callee qualname:
        #     [clauses]}`; in a clause `arg_<p>` is the actual argument for the callee's parameter p, other names are the caller's, `old(x)` its entry values)
        caller_c = self.cset.functions.get(getattr(self, "cur_key", None)) or {}
        for i, text in enumerate((caller_c.get("calls") or {}).get(f.qualname, [])):
            if st.pure:
                break
            g = self.eval_spec(text, st, {"arg_" + k: v for k, v in env.items()})
            self.emit(st, "callarg", "%s[%d]" % (label, i), g)
        # 1. preconditions
        for i, r in enumerate(c.get("requires") or []):
            g = self.eval_spec(r, st, env, callee=f)
            self.emit(st, "pre@call", "%s[%d]" % (label, i), g)
        pre = st
        # 2. exceptional outcomes
        raise_conds = []
        for exc, cond in (c.get("raises") or {}).items():
            rc = self.eval_spec(cond, st, env, callee=f)
            raise_conds.append(rc)
            sr = st.assume(rc)
            if not st.pure and self.feasible(sr):
                sr2 = self.apply_modifies(sr, c, env, f, label)
                for cl in (c.get("on_raise") or []):
                    sr2.pc.append(self.eval_spec(cl, sr2, env, callee=f, old_state=pre))
                self.raise_sink[-1].append((exc, sr2.note("%s raises %s" % (label, exc))))
        s1 = st.assume(*[z3.Not(rc) for rc in raise_conds]) if raise_conds else st
        # 3. frame + havoc
        s2 = self.apply_modifies(s1, c, env, f, label) if not st.pure else s1
        if not st.pure:
            # the callee may allocate
            s2 = s2.copy()
            n2 = z3.Int(core.fresh_name("nref"))
            s2.pc.append(n2 >= s2.nref)
            s2.nref = n2
            s2.pc.extend(self.all_heap_typing(s2))
        # 4. result
        rk = c.get("returns")
        if rk is None:
            result = None
        else:
            kd = parse_kind(rk)
            if c.get("functional"):
                # a pure helper abstracted as an uninterpreted function of its (value) arguments: equal arguments give
                # equal results (callable / record arguments are not part of the key -- stated as an assumption)
                leaves = []
                for name in sorted(env):
                    v = env[name]
                    v = self.tup_to_sv(v) if isinstance(v, tuple) else v
                    if isinstance(v, SV):
                        leaves.extend(core.tleaves(v.tree))
                    elif isinstance(v, (bool, int, float, str)) or v is None:
                        leaves.extend(core.tleaves(self.lit(v).tree))
                self.assumptions_used.add("functional abstraction of %s: its result depends only on its value arguments" % f.qualname)
                n = [0]

                def mk(srt):
                    n[0] += 1
                    fn = self.ufunc("fn_%s_%d" % (f.node.name, n[0]), *([l.sort() for l in leaves] + [srt]))
                    return fn(*leaves) if leaves else z3.Const("fn_%s_%d" % (f.node.name, n[0]), srt)
                result = SV(kd, tmap(mk, sort_tree(kd)))
            else:
                result = SV(kd, tfresh(kd, "ret_" + f.node.name))
            if kd.tag == "obj" or (kd.tag == "opt" and kd.args[0].tag == "obj"):
                r = result.tree if kd.tag == "obj" else result.tree[1]
                s2.pc.append(z3.And(r >= 0, r < s2.nref))
            if kd.tag == "obj" and kd.extra in ("Graph", "DiGraph"):
                s2.pc.extend(self.nx_graph_wf(s2, result))
            from .verify import valid_tree
            w = z3.simplify(valid_tree(kd, result.tree, s2.nref)) if kd.tag != "none" else None
            if w is not None and not z3.is_true(w):
                s2.pc.append(w)
        # 5. mutated container params
        env_post = dict(env)
        env_old = dict(env)
        for name in (c.get("mutates") or []):
            v = env.get(name)
            if not isinstance(v, SV) or v.origin is None:
                # closure variable of the callee
                v = self.resolve_name(s2.copy(), name) if not isinstance(v, SV) else v
            if not isinstance(v, SV) or v.origin is None:
                raise Unsupported("mutated parameter %s of %s has no home" % (name, label))
            env_old[name] = v           # its value before the call: what old(...) in the callee's postcondition refers to
            newv = SV(v.kind, tfresh(v.kind, name), v.origin)
            s2 = self.store(s2, v.origin, newv)
            from .verify import valid_tree
            w = z3.simplify(valid_tree(v.kind, newv.tree, s2.nref))
            if not z3.is_true(w):
                s2.pc.append(w)
            env_post[name] = newv
        # 6. postconditions
        env_post["result"] = result
        post = [self.eval_spec(cl, s2, env_post, callee=f, old_state=pre, old_env=env_old) for cl in (c.get("ensures") or [])]
        # 6b. ghost exports: locals of the callee named in its contract's `ghost_exports` exist at its return and satisfy its (verified)
        #     `ghost_ensures`; the caller gets them as fresh ghost values called <callee>__<local>, constrained by exactly those clauses
        gx = c.get("ghost_exports") or []
        if gx and not st.pure:
            env_g = dict(env_post)
            for gname in gx:
                gk = parse_kind((c.get("vars") or {})[gname])
                gv = SV(gk, tfresh(gk, "gx_" + gname))
                from .verify import valid_tree
                w = z3.simplify(valid_tree(gk, gv.tree, s2.nref))
                if not z3.is_true(w):
                    s2.pc.append(w)
                env_g[gname] = gv
                s2.ghost = dict(s2.ghost)
                s2.ghost["%s__%s" % (f.qualname.replace(".", "_"), gname)] = gv
            post = post + [self.eval_spec(cl, s2, env_g, callee=f, old_state=pre, old_env=env_old) for cl in (c.get("ghost_ensures") or [])]
        if st.pure:
            # a contract call inside a specification / model context: the caller only keeps the value, so the callee's
            # postcondition is recorded as a definitional fact about the fresh result (guarded by its precondition)
            reqs = [self.eval_spec(r, st, env, callee=f) for r in (c.get("requires") or [])]
            guard = z3.And(*(list(st.pc[len(getattr(self, "_pure_base_pc", [])):]) + reqs)) if (reqs or st.pc) else TRUE
            self.define([z3.Implies(z3.And(*reqs) if reqs else TRUE, z3.And(*post))] if post else [])
        else:
            s2.pc.extend(post)
        yield result, s2.note("call %s" % label)

    def apply_modifies(self, st, c, env, f, label):
        mods_txt = c.get("modifies") or []
        if not mods_txt:
            return st
        s_env = self.spec_state(st, env, f)
        mods = self.eval_modifies(s_env, mods_txt)
        for cls, fld, tgt in mods:
            if tgt is None:
                self.check_frame_wild(st, cls, fld, label)
            else:
                self.check_frame(st, cls, fld, tgt)
        s2 = self.havoc_heap(st, mods, label)
        return s2

    def check_frame_wild(self, st, cls, fld, label):
        for frame in st.modstack:
            ok = any(c == cls and f2 == fld and t is None for (c, f2, t) in frame["items"])
            if not ok:
                self.emit(st, "frame", "%s.%s@%s(call %s)" % (cls, fld, frame["name"], label), FALSE)

    # ================================================================== contract expressions
    def spec_state(self, st, env, callee=None):
        """a pure state whose current frame holds `env` (spec variables) on top of the caller's scope"""
        mod = callee.mod if callee is not None and getattr(callee, "mod", None) is not None else st.frames[st.cur][2]
        s, fid = st.push_frame(st.cur if callee is None else getattr(callee, "frame", None), mod)
        s.pure = True
        e2 = {}
        for k, v in env.items():
            e2[k] = v
        env0, parent, m = s.frames[fid]
        s.frames[fid] = (e2, parent, m)
        return s

    def eval_spec(self, text, st, env, callee=None, old_state=None, old_env=None):
        """contract expression (python syntax) -> z3 Bool"""
        node = self.cset.parse_expr(text)
        s = self.spec_state(st, env, callee)
        if old_state is not None:
            s.old = (old_state, old_env if old_env is not None else env)
        elif st.old is not None and not isinstance(st.old, tuple):
            s.old = (st.old, None)
        try:
            v, _ = self.eval1(node, s)
        except Unsupported as ex:
            raise Unsupported("in contract expression %r: %s" % (text, ex))
        return self.truthy(v)

    def eval_spec_value(self, text, st, env, callee=None):
        node = self.cset.parse_expr(text)
        s = self.spec_state(st, env, callee)
        if st.old is not None and not isinstance(st.old, tuple):
            s.old = (st.old, None)
        v, _ = self.eval1(node, s)
        return v
