"""small helper: (re)write MANIFEST.json check entries from a table kept here"""
import json, os, sys
V = os.path.dirname(os.path.dirname(os.path.abspath(__file__)))
ALL = ["C%02d" % i for i in range(1, 21)]
TECH = ("contract-based deductive verification: sidecar pre/post/frame/loop-invariant contracts on the real functions, VCs generated "
        "from /repo's source on every run, discharged by z3/cvc5; executable twin of the same contracts for replay and bounded stand-ins")
TECH_BOUNDED = ("bounded stand-in only (no obligation of this property is discharged deductively): the executable twin runs the real code on an enumerated / "
                "sampled population and compares it with independent oracles and with itself under rewritings; the contract machinery of this family is used for the "
                "mechanisms the property rests on, which are verified under other properties (see level text)")
CHECKS = json.load(open(os.path.join(V, "pyvc", "checks_table.json")))
m = json.load(open(os.path.join(V, "MANIFEST.json")))
claimed = sorted(CHECKS)
m["checks"] = []
for pid in claimed:
    c = CHECKS[pid]
    m["checks"].append({
        "property_id": pid, "quick_cmd": "./check %s quick" % pid, "thorough_cmd": "./check %s thorough" % pid,
        "evidence_file": "evidence/%s.json" % pid, "replay_cmd_template": "./check %s --replay {path}" % pid,
        "engine": "pyvc", "technique": TECH if c.get("category", "proof") != "exploration" else TECH_BOUNDED,
        "level_claimed": {"category": c.get("category", "proof"), "design_ref": "DESIGN.md section 5 %s" % pid, "text": c["text"]},
        "level_note": c["note"]})
for e in m["engines"]:
    e["serves_properties"] = claimed
na_old = {x["property_id"]: x["reason"] for x in m.get("not_applicable", [])}
NA = json.load(open(os.path.join(V, "pyvc", "na_table.json")))
m["not_applicable"] = []
for pid in ALL:
    if pid in claimed:
        continue
    reason = NA.get(pid) or na_old.get(pid) or "not yet claimed: contracts for this property are not built yet"
    m["not_applicable"].append({"property_id": pid, "reason": reason})
kf = json.load(open(os.path.join(V, "known_findings.json")))
m["hooks"]["source_commits"] = [f["commit"] for f in kf["findings"] if f.get("status") == "fixed" and f.get("commit")]
json.dump(m, open(os.path.join(V, "MANIFEST.json"), "w"), indent=1)
print("claimed:", claimed)
