"""pyvc.core -- kinds (static shapes of Python values), the universal scalar sort `Val`,
and "term trees": composite symbolic values built from z3 terms.

Every symbolic value the interpreter manipulates is a pair (kind, tree):

  kind                tree
  ------------------  ---------------------------------------------------------
  int / bool / real   z3 Int / Bool / Real term
  str                 z3 Int term (an interned string id; literals get distinct ids)
  any                 z3 term of the datatype Val (None|bool|int|real|str|tuple|ref)
  obj(C)              z3 Int term (heap reference of a class instance / nx graph)
  tuple(k1..kn)       python tuple of the component trees (static arity)
  opt(k)              (isnone: Bool, tree of k)
  set(k)              z3 Array(keysort(k) -> Bool)
  dict(k, v)          (dom: Array(keysort(k) -> Bool), lift(tree of v, keysort(k)))
  list(e)             (len: Int, lift(tree of e, Int))

`lift(tree, S)` replaces every leaf term sort T by Array(S -> T); select/store distribute
over the leaves.  Containers are therefore *values* (z3 arrays are extensional values); identity
exists only for class instances (obj), whose fields live in per-field heap arrays.
"""
from __future__ import annotations

import z3

# --------------------------------------------------------------------------- Val
_Val = z3.Datatype("Val")
_VList = z3.Datatype("VList")
_Val.declare("VNone")
_Val.declare("VBool", ("b", z3.BoolSort()))
_Val.declare("VInt", ("i", z3.IntSort()))
_Val.declare("VReal", ("r", z3.RealSort()))
_Val.declare("VStr", ("s", z3.IntSort()))
_Val.declare("VTup", ("items", _VList))
_Val.declare("VRef", ("addr", z3.IntSort()))
_VList.declare("Nil")
_VList.declare("Cons", ("hd", _Val), ("tl", _VList))
Val, VList = z3.CreateDatatypes(_Val, _VList)

I, B, R = z3.IntSort(), z3.BoolSort(), z3.RealSort()


# --------------------------------------------------------------------------- kinds
class Kind:
    __slots__ = ("tag", "args", "extra")

    def __init__(self, tag, args=(), extra=None):
        self.tag, self.args, self.extra = tag, tuple(args), extra

    def __eq__(self, o):
        return isinstance(o, Kind) and (self.tag, self.args, self.extra) == (o.tag, o.args, o.extra)

    def __hash__(self):
        return hash((self.tag, self.args, self.extra))

    def __repr__(self):
        if self.tag in ("int", "bool", "real", "str", "any"):
            return self.tag
        if self.tag == "obj":
            return "obj:%s" % self.extra
        a = ",".join(map(repr, self.args))
        if self.extra is not None:
            a += ";default=%s" % (self.extra,)
        return "%s[%s]" % (self.tag, a)


INT, BOOL, REAL, STR, ANY, NONE = (Kind(t) for t in ("int", "bool", "real", "str", "any", "none"))


def OBJ(cls):
    return Kind("obj", (), cls)


def TUP(*ks):
    return Kind("tuple", ks)


def OPT(k):
    """Optional[k]; Optional[any] is any (None is a Val), Optional[None] is None"""
    return k if k.tag in ("opt", "any", "none") else Kind("opt", (k,))


def SET(k):
    return Kind("set", (k,))


def DICT(k, v, default=None):
    return Kind("dict", (k, v), default)


def LIST(e):
    return Kind("list", (e,))


def parse_kind(s):
    """'dict[str,set[str]]', 'dict[str,set[str];default]', 'obj:HyperEdge', 'opt[str]', 'tuple[any,any]' ..."""
    s = s.strip()
    if s in ("int", "bool", "real", "str", "any", "none"):
        return Kind(s)
    if s == "float":
        return REAL
    if s.startswith("obj:"):
        return OBJ(s[4:])
    head, rest = s.split("[", 1)
    assert rest.endswith("]"), s
    rest = rest[:-1]
    default = None
    if ";" in rest:
        # top-level ';default'
        depth = 0
        for i, ch in enumerate(rest):
            if ch == "[":
                depth += 1
            elif ch == "]":
                depth -= 1
            elif ch == ";" and depth == 0:
                default = rest[i + 1:].strip()
                rest = rest[:i]
                break
    parts, depth, cur = [], 0, ""
    for ch in rest:
        if ch == "[":
            depth += 1
        elif ch == "]":
            depth -= 1
        if ch == "," and depth == 0:
            parts.append(cur)
            cur = ""
        else:
            cur += ch
    if cur.strip():
        parts.append(cur)
    ks = [parse_kind(p) for p in parts]
    if head == "set":
        return SET(ks[0])
    if head == "list":
        return LIST(ks[0])
    if head == "opt":
        return OPT(ks[0])
    if head == "tuple":
        return TUP(*ks)
    if head == "dict":
        return DICT(ks[0], ks[1], default)
    raise ValueError("bad kind " + s)


_tuple_sorts = {}


def tuple_sort(sorts):
    key = tuple(str(s) for s in sorts)
    if key not in _tuple_sorts:
        name = "T%d_%s" % (len(sorts), "_".join(k.replace(" ", "").replace("(", "").replace(")", "") for k in key))
        _tuple_sorts[key] = z3.TupleSort(name, list(sorts))
    return _tuple_sorts[key]


def keysort(k):
    """z3 sort used when a value of kind k is an array index (set element / dict key)."""
    if k.tag == "int" or k.tag == "str" or k.tag == "obj":
        return I
    if k.tag == "bool":
        return B
    if k.tag == "real":
        return R
    if k.tag == "any":
        return Val
    if k.tag == "tuple":
        return tuple_sort([keysort(a) for a in k.args])[0]
    if k.tag == "list" and k.args[0].tag in ("int", "str", "bool", "obj"):
        # a tuple of scalars of symbolic length (Python: tuple(lst)) as a hashable value: (length, array).  Equality of keys is
        # equality of both components, so the array must be NORMALISED (default value beyond the length): `tuple(list)` does that
        return tuple_sort([I, z3.ArraySort(I, keysort(k.args[0]))])[0]
    raise TypeError("kind %r cannot be used as a key" % (k,))


def to_key(k, tree):
    if k.tag == "tuple":
        ts, mk, _ = tuple_sort([keysort(a) for a in k.args])
        return mk(*[to_key(a, t) for a, t in zip(k.args, tree)])
    if k.tag == "list":
        ts, mk, _ = tuple_sort([I, z3.ArraySort(I, keysort(k.args[0]))])
        return mk(tree[0], tree[1])
    return tree


def from_key(k, term):
    if k.tag == "tuple":
        ts, mk, accs = tuple_sort([keysort(a) for a in k.args])
        return tuple(from_key(a, accs[i](term)) for i, a in enumerate(k.args))
    if k.tag == "list":
        ts, mk, accs = tuple_sort([I, z3.ArraySort(I, keysort(k.args[0]))])
        return (accs[0](term), accs[1](term))
    return term


# --------------------------------------------------------------------------- trees
def tmap(f, tree):
    if isinstance(tree, tuple):
        return tuple(tmap(f, t) for t in tree)
    return f(tree)


def tmap2(f, a, b):
    if isinstance(a, tuple):
        assert isinstance(b, tuple) and len(a) == len(b), (a, b)
        return tuple(tmap2(f, x, y) for x, y in zip(a, b))
    return f(a, b)


def tleaves(tree):
    if isinstance(tree, tuple):
        for t in tree:
            yield from tleaves(t)
    else:
        yield tree


def tselect(tree, idx):
    return tmap(lambda a: z3.Select(a, idx), tree)


def tstore(tree, idx, val):
    return tmap2(lambda a, v: z3.Store(a, idx, v), tree, val)


def tite(c, a, b):
    return tmap2(lambda x, y: x if x.eq(y) else z3.If(c, x, y), a, b)


def teq(a, b):
    return z3.And(*[x == y for x, y in zip(tleaves(a), tleaves(b))]) if list(tleaves(a)) else z3.BoolVal(True)


def sort_tree(k):
    """tree of z3 sorts with the same shape as a value tree of kind k"""
    t = k.tag
    if t in ("int", "str", "obj"):
        return I
    if t == "bool":
        return B
    if t == "real":
        return R
    if t == "any":
        return Val
    if t == "none":
        return ()
    if t == "tuple":
        return tuple(sort_tree(a) for a in k.args)
    if t == "opt":
        return (B, sort_tree(k.args[0]))
    if t == "set":
        return z3.ArraySort(keysort(k.args[0]), B)
    if t == "dict":
        ks = keysort(k.args[0])
        return (z3.ArraySort(ks, B), tmap(lambda s: z3.ArraySort(ks, s), sort_tree(k.args[1])))
    if t == "list":
        return (I, tmap(lambda s: z3.ArraySort(I, s), sort_tree(k.args[0])))
    raise TypeError(k)


_fresh_ctr = [0]


def fresh_name(base):
    _fresh_ctr[0] += 1
    return "%s!%d" % (base, _fresh_ctr[0])


def tfresh(k, name):
    n = [0]

    def mk(s):
        n[0] += 1
        return z3.Const(fresh_name(name if n[0] == 1 else "%s.%d" % (name, n[0])), s)

    return tmap(mk, sort_tree(k))


def tfresh_lifted(k, idx_sort, name):
    return tmap(lambda s: z3.Const(fresh_name(name), z3.ArraySort(idx_sort, s)), sort_tree(k))


def default_tree(k):
    """an arbitrary but fixed 'default' tree (used for absent optionals / empty containers)"""
    t = k.tag
    if t in ("int", "str", "obj"):
        return z3.IntVal(0)
    if t == "bool":
        return z3.BoolVal(False)
    if t == "real":
        return z3.RealVal(0)
    if t == "any":
        return Val.VNone
    if t == "none":
        return ()
    if t == "tuple":
        return tuple(default_tree(a) for a in k.args)
    if t == "opt":
        return (z3.BoolVal(True), default_tree(k.args[0]))
    if t == "set":
        return z3.K(keysort(k.args[0]), z3.BoolVal(False))
    if t == "dict":
        ks = keysort(k.args[0])
        return (z3.K(ks, z3.BoolVal(False)), tmap(lambda d: z3.K(ks, d), default_tree(k.args[1])))
    if t == "list":
        return (z3.IntVal(0), tmap(lambda d: z3.K(I, d), default_tree(k.args[0])))
    raise TypeError(k)


# --------------------------------------------------------------------------- strings
class Strings:
    """interning of string literals: literal -> distinct small Int; symbolic strings are any Int.
    `str_le` is an uninterpreted total order agreeing with Python's order on the literals used."""

    def __init__(self):
        self.ids = {}
        self.le = z3.Function("str_le", I, I, B)

    def lit(self, s):
        if s not in self.ids:
            self.ids[s] = len(self.ids)
        return z3.IntVal(self.ids[s])

    def name_of(self, i):
        for s, j in self.ids.items():
            if j == i:
                return s
        return "str#%d" % i

    def axioms(self):
        a, b, c = z3.Ints("sa sb sc")
        le = self.le
        ax = [
            z3.ForAll([a], le(a, a)),
            z3.ForAll([a, b], z3.Or(le(a, b), le(b, a))),
            z3.ForAll([a, b], z3.Implies(z3.And(le(a, b), le(b, a)), a == b)),
            z3.ForAll([a, b, c], z3.Implies(z3.And(le(a, b), le(b, c)), le(a, c))),
        ]
        lits = sorted(self.ids)
        for x, y in zip(lits, lits[1:]):
            ax.append(le(self.lit(x), self.lit(y)))
        return ax


STRINGS = Strings()


# --------------------------------------------------------------------------- Val helpers
def is_num(v):
    return z3.Or(Val.is_VInt(v), Val.is_VReal(v), Val.is_VBool(v))


def num_of(v):
    """real value of a numeric Val (bool counts as 0/1, as in Python)"""
    return z3.If(Val.is_VInt(v), z3.ToReal(Val.i(v)),
                 z3.If(Val.is_VReal(v), Val.r(v), z3.If(z3.And(Val.is_VBool(v), Val.b(v)), z3.RealVal(1), z3.RealVal(0))))


def int_of(v):
    return z3.If(Val.is_VInt(v), Val.i(v), z3.If(z3.And(Val.is_VBool(v), Val.b(v)), z3.IntVal(1), z3.IntVal(0)))


def val_pyeq(a, b):
    """Python == on two scalar Vals (numeric tower, structural on tuples: tuples containing numerics of
    different numeric types are compared structurally -- an under-approximation noted as assumption A-eq)."""
    return z3.If(z3.And(is_num(a), is_num(b)), num_of(a) == num_of(b), a == b)


def val_truthy(v):
    return z3.And(v != Val.VNone,
                  z3.Not(z3.And(Val.is_VBool(v), z3.Not(Val.b(v)))),
                  z3.Not(z3.And(Val.is_VInt(v), Val.i(v) == 0)),
                  z3.Not(z3.And(Val.is_VReal(v), Val.r(v) == 0)),
                  z3.Not(z3.And(Val.is_VStr(v), Val.s(v) == STRINGS.lit(""))),
                  z3.Not(z3.And(Val.is_VTup(v), Val.items(v) == VList.Nil)))


def vlist_of(terms):
    out = VList.Nil
    for t in reversed(list(terms)):
        out = VList.Cons(t, out)
    return out


def vlist_nth(lst, n):
    for _ in range(n):
        lst = VList.tl(lst)
    return VList.hd(lst)


def vlist_has_len(lst, n):
    conds = []
    for _ in range(n):
        conds.append(VList.is_Cons(lst))
        lst = VList.tl(lst)
    conds.append(lst == VList.Nil)
    return z3.And(*conds)


def vlist_len_ge(lst, n):
    conds = []
    for _ in range(n):
        conds.append(VList.is_Cons(lst))
        lst = VList.tl(lst)
    return z3.And(*conds) if conds else z3.BoolVal(True)


def box(k, tree):
    """typed tree -> Val term (scalars and tuples only)"""
    t = k.tag
    if t == "any":
        return tree
    if t == "none":
        return Val.VNone
    if t == "int":
        return Val.VInt(tree)
    if t == "bool":
        return Val.VBool(tree)
    if t == "real":
        return Val.VReal(tree)
    if t == "str":
        return Val.VStr(tree)
    if t == "obj":
        return Val.VRef(tree)
    if t == "tuple":
        return Val.VTup(vlist_of(box(a, x) for a, x in zip(k.args, tree)))
    if t == "opt":
        return z3.If(tree[0], Val.VNone, box(k.args[0], tree[1]))
    raise TypeError("cannot box kind %r into Val" % (k,))


def unbox(k, v):
    """Val term -> typed tree of kind k (no check; caller emits the definedness obligation `has_kind`)"""
    t = k.tag
    if t == "any":
        return v
    if t == "none":
        return ()
    if t == "int":
        return int_of(v)
    if t == "bool":
        return Val.b(v)
    if t == "real":
        return num_of(v)
    if t == "str":
        return Val.s(v)
    if t == "obj":
        return Val.addr(v)
    if t == "tuple":
        return tuple(unbox(a, vlist_nth(Val.items(v), i)) for i, a in enumerate(k.args))
    if t == "opt":
        return (v == Val.VNone, unbox(k.args[0], v))
    raise TypeError("cannot unbox Val into kind %r" % (k,))


def has_kind(k, v):
    t = k.tag
    if t == "any":
        return z3.BoolVal(True)
    if t == "none":
        return v == Val.VNone
    if t == "int":
        return z3.Or(Val.is_VInt(v), Val.is_VBool(v))
    if t == "bool":
        return Val.is_VBool(v)
    if t == "real":
        return is_num(v)
    if t == "str":
        return Val.is_VStr(v)
    if t == "obj":
        return Val.is_VRef(v)
    if t == "tuple":
        items = Val.items(v)
        return z3.And(Val.is_VTup(v), vlist_has_len(items, len(k.args)),
                      *[has_kind(a, vlist_nth(items, i)) for i, a in enumerate(k.args)])
    if t == "opt":
        return z3.Or(v == Val.VNone, has_kind(k.args[0], v))
    raise TypeError(k)
