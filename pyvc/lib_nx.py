"""pyvc.lib_nx -- assumed contract on networkx graphs (A-nx-graph), as a symbolic model.

A graph is a heap object of class Graph / DiGraph with value-typed fields
    nodes : set[any]                        adj   : set[tuple[any,any]]        (Graph: symmetric)
    nattr : dict[any, dict[str,any]]        eattr : dict[tuple[any,any], dict[str,any]]   (Graph: symmetric)
    gattr : dict[str,any]
`G.nodes[n]`, `G[u][v]`, and the `data` yielded by `G.nodes(data=True)` / `G.edges(data=True)` are *live* dicts:
they carry an origin, so writes through them update the graph (for an undirected edge both orientations).
Iteration over nodes / edges is an arbitrary duplicate-free enumeration; an undirected edge is yielded once, in an
arbitrary orientation.  `G.edges(n)` on a DiGraph yields the out-arcs of n only.
"""
from __future__ import annotations

import z3

from . import core
from .core import (ANY, BOOL, DICT, INT, LIST, OBJ, OPT, REAL, SET, STR, TUP, Kind, Val, STRINGS,
                   keysort, to_key, from_key, tselect, tstore, tite, teq, tfresh, tmap, default_tree, sort_tree,
                   parse_kind)
from .source import Unsupported

TRUE, FALSE = z3.BoolVal(True), z3.BoolVal(False)
ATTR = DICT(STR, ANY)
EDGE = TUP(ANY, ANY)
GRAPH_FIELDS = {"nodes": "set[any]", "nattr": "dict[any,dict[str,any]]", "adj": "set[tuple[any,any]]",
                "eattr": "dict[tuple[any,any],dict[str,any]]", "gattr": "dict[str,any]"}


class NodeView:
    def __init__(self, g):
        self.g = g


class EdgeView:
    def __init__(self, g):
        self.g = g


class AdjView:
    def __init__(self, g, u=None):
        self.g, self.u = g, u


class DegreeView:
    def __init__(self, g):
        self.g = g


def install(I):
    from .interp import BuiltinVal, SV, ViewVal, IterSpec, ClassVal, ModuleVal, BoundBuiltin

    def is_graph(v):
        return isinstance(v, SV) and v.kind.tag == "obj" and v.kind.extra in ("Graph", "DiGraph")

    def directed(g):
        return g.kind.extra == "DiGraph"

    def fld(st, g, name):
        return SV(parse_kind(GRAPH_FIELDS[name]), tselect(I.heap_get(st, g.kind.extra, name), g.tree),
                  ("fld", g.tree, g.kind.extra, name))

    def ekey(u, v):
        return to_key(EDGE, (I.as_any(u), I.as_any(v)))

    def nkey(n):
        return I.as_any(I.tup_to_sv(n) if not isinstance(n, SV) else n)

    def node_sv(term):
        return SV(ANY, term)

    I.nx_is_graph = is_graph
    I.nx_fld = fld

    def nodeid_ok(n):
        return z3.Or(Val.is_VInt(n), Val.is_VStr(n), Val.is_VTup(n))

    # ------------------------------------------------------------------ well-formedness (assumed for inputs)
    def graph_wf(st, g):
        nodes, adj, nattr, eattr = fld(st, g, "nodes"), fld(st, g, "adj"), fld(st, g, "nattr"), fld(st, g, "eattr")
        u, v = z3.Const(core.fresh_name("gu"), Val), z3.Const(core.fresh_name("gv"), Val)
        e = to_key(EDGE, (u, v))
        n = z3.Const(core.fresh_name("gn"), Val)
        I.assumptions_used.add("A-nodeid: graph node ids are ints, strings or tuples (never float/bool/None), so Python "
                               "equality on node ids is structural equality")
        out = [nattr.tree[0] == nodes.tree, eattr.tree[0] == adj.tree,
               z3.ForAll([n], z3.Implies(z3.Select(nodes.tree, n), nodeid_ok(n))),
               z3.ForAll([u, v], z3.Implies(z3.Select(adj.tree, e), z3.And(z3.Select(nodes.tree, u), z3.Select(nodes.tree, v))))]
        if not directed(g):
            e2 = to_key(EDGE, (v, u))
            out.append(z3.ForAll([u, v], z3.Select(adj.tree, e) == z3.Select(adj.tree, e2)))
            out.append(z3.ForAll([u, v], z3.Implies(z3.Select(adj.tree, e),
                                                    teq(tselect(eattr.tree[1], e), tselect(eattr.tree[1], e2)))))
        return out
    I.nx_graph_wf = graph_wf

    # ------------------------------------------------------------------ origins for live edge-attribute dicts
    def load_eattr(st, origin, kind):
        _, gtree, cls, u, v = origin
        g = SV(OBJ(cls), gtree)
        ea = fld(st, g, "eattr")
        return SV(ATTR, tselect(ea.tree[1], ekey(node_sv(u), node_sv(v))), origin)

    def store_eattr(st, origin, sv):
        _, gtree, cls, u, v = origin
        g = SV(OBJ(cls), gtree)
        ea = fld(st, g, "eattr")
        val = tstore(ea.tree[1], ekey(node_sv(u), node_sv(v)), sv.tree)
        if cls == "Graph":
            val = tstore(val, ekey(node_sv(v), node_sv(u)), sv.tree)
        return I.heap_write(st, cls, "eattr", gtree, SV(ea.kind, (ea.tree[0], val)))

    I.origin_handlers = getattr(I, "origin_handlers", {})
    I.origin_handlers["eattr"] = (load_eattr, store_eattr)

    def edge_attr_alias(st, g, u, v):
        ea = fld(st, g, "eattr")
        return SV(ATTR, tselect(ea.tree[1], ekey(u, v)), ("eattr", g.tree, g.kind.extra, I.as_any(u), I.as_any(v)))

    def node_attr_alias(st, g, n):
        na = fld(st, g, "nattr")
        k = nkey(n)
        return SV(ATTR, tselect(na.tree[1], k), ("item", na.origin, na.kind, k))

    def dict_union(a, b):
        """a updated with b (values of b win)"""
        ks = keysort(a.kind.args[0])
        dom = I.set_op("|", SV(SET(a.kind.args[0]), a.tree[0]), SV(SET(a.kind.args[0]), b.tree[0])).tree
        newval = tmap(lambda t: z3.Const(core.fresh_name("upd"), t.sort()), a.tree[1])
        x = z3.Const(core.fresh_name("k"), ks)
        I.define([z3.ForAll([x], teq(tselect(newval, x), tite(z3.Select(b.tree[0], x), tselect(b.tree[1], x),
                                                                tselect(a.tree[1], x))))])
        return SV(a.kind, (dom, newval))
    I.dict_union = dict_union

    def attrs_from_kwargs(kw):
        """**attrs of add_node/add_edge -> SV dict[str,any] or None when empty"""
        cur = None
        star = kw.get("**")
        if star is not None:
            if isinstance(star, I.StaticDict):
                kw = dict(star.d, **{k: v for k, v in kw.items() if k != "**"})
            elif isinstance(star, SV) and star.kind.tag == "dict":
                cur = I.coerce(star, ATTR) if star.kind != ATTR else SV(ATTR, star.tree)
            elif (isinstance(star, dict) and not star) or type(star).__name__ == "EmptyLit":
                pass
            elif isinstance(star, dict):
                kw = dict(star, **{k: v for k, v in kw.items() if k != "**"})     # a static record built by the code
            else:
                raise Unsupported("** of %r" % (star,))
        pairs = [(k, v) for k, v in kw.items() if k != "**"]
        if pairs:
            lit = I.make_dict([(k, I.tup_to_sv(v) if not isinstance(v, (list, dict, set)) else unsupported_attr(v)) for k, v in pairs],
                              STR, ANY)
            cur = lit if cur is None else dict_union(cur, lit)
        return cur

    def unsupported_attr(v):
        if isinstance(v, list) and not v:
            return I.lit(())      # an empty list attribute value is represented by the empty tuple (A-nx-graph note)
        raise Unsupported("container-valued graph attribute")

    # ------------------------------------------------------------------ construction
    def new_graph(cls):
        def fn(I, st, args, kw):
            if args and not (args[0] is None):
                src = args[0]
                if is_graph(src):
                    yield from copy_graph(st, src, cls)
                    return
                raise Unsupported("nx.%s(data)" % cls)
            s1, ref = I.alloc(st, cls)
            g = SV(OBJ(cls), ref)
            for name, ktxt in GRAPH_FIELDS.items():
                k = parse_kind(ktxt)
                s1 = I.heap_write(s1, cls, name, ref, SV(k, default_tree(k)))
            yield g, s1
        return fn

    I.lib["new:Graph"] = BuiltinVal("Graph", new_graph("Graph"))
    I.lib["new:DiGraph"] = BuiltinVal("DiGraph", new_graph("DiGraph"))
    I.lib["networkx.Graph"] = ClassVal("Graph", None)
    I.lib["networkx.DiGraph"] = ClassVal("DiGraph", None)
    I.lib["nx.Graph"] = ClassVal("Graph", None)
    I.lib["nx.DiGraph"] = ClassVal("DiGraph", None)

    def _type(I_, st, args, kw):
        # type(g) of a graph object: its class (so that `type(g)()` builds an empty graph of the same kind)
        if len(args) == 1 and is_graph(args[0]):
            yield ClassVal(args[0].kind.extra, None), st
            return
        raise Unsupported("type() of a non-graph value")
    I.lib["type"] = BuiltinVal("type", _type)

    def copy_graph(st, src, cls=None):
        cls = cls or src.kind.extra
        s1, ref = I.alloc(st, cls)
        g = SV(OBJ(cls), ref)
        for name in GRAPH_FIELDS:
            v = fld(st, src, name)
            if cls == "Graph" and src.kind.extra == "DiGraph" and name in ("adj", "eattr"):
                raise Unsupported("to_undirected copy")
            s1 = I.heap_write(s1, cls, name, ref, SV(v.kind, v.tree))
        yield g, s1

    # ------------------------------------------------------------------ methods
    def gmeth(name):
        def deco(fn):
            for cls in ("Graph", "DiGraph"):
                I.lib["%s.%s" % (cls, name)] = BuiltinVal(name, fn)
            return fn
        return deco

    # method dispatch: getattr on obj:Graph finds "Graph.<name>" in lib and returns BoundBuiltin(base, key);
    # call_method is extended below to route those.
    base_call_method = I.call_method

    def call_method(st, recv, name, args, kw):
        if is_graph(recv) and name in I.lib:
            yield from I.lib[name].fn(I, st, [recv] + list(args), kw)
            return
        if isinstance(recv, (NodeView, EdgeView, AdjView, DegreeView)):
            yield from view_method(st, recv, name, args, kw)
            return
        yield from base_call_method(st, recv, name, args, kw)
    I.call_method = call_method

    # attribute access that is not a call: G.nodes, G.edges, G.adj, G.graph, G.degree
    base_getattr = I.getattr

    def getattr_(st, base, attr):
        if is_graph(base):
            if attr == "nodes":
                return NodeView(base)
            if attr == "edges":
                return EdgeView(base)
            if attr in ("adj", "_adj"):
                return AdjView(base)
            if attr == "degree":
                return DegreeView(base)
            if attr == "graph":
                return fld(st, base, "gattr")
            if attr == "__class__":
                return ClassVal(base.kind.extra, None)
        if isinstance(base, (NodeView, EdgeView, AdjView, DegreeView)):
            return BoundBuiltin(base, attr)
        return base_getattr(st, base, attr)
    I.getattr = getattr_

    @gmeth("add_node")
    def _add_node(I, st, args, kw):
        g, n = args[0], args[1]
        k = nkey(n)
        st = st.assume(nodeid_ok(k))
        nodes, nattr = fld(st, g, "nodes"), fld(st, g, "nattr")
        present = z3.Select(nodes.tree, k)
        cur = SV(ATTR, tite(present, tselect(nattr.tree[1], k), default_tree(ATTR)))
        extra = attrs_from_kwargs(kw)
        newd = cur if extra is None else dict_union(cur, extra)
        s1 = I.heap_write(st, g.kind.extra, "nodes", g.tree, SV(nodes.kind, z3.Store(nodes.tree, k, TRUE)))
        s1 = I.heap_write(s1, g.kind.extra, "nattr", g.tree,
                          SV(nattr.kind, (z3.Store(nattr.tree[0], k, TRUE), tstore(nattr.tree[1], k, newd.tree))))
        yield None, s1

    @gmeth("add_edge")
    def _add_edge(I, st, args, kw):
        g, u, v = args[0], args[1], args[2]
        cls = g.kind.extra
        s1 = st
        for n in (u, v):
            k = nkey(n)
            s1 = s1.assume(nodeid_ok(k))
            nodes, nattr = fld(s1, g, "nodes"), fld(s1, g, "nattr")
            present = z3.Select(nodes.tree, k)
            cur = tite(present, tselect(nattr.tree[1], k), default_tree(ATTR))
            s1 = I.heap_write(s1, cls, "nodes", g.tree, SV(nodes.kind, z3.Store(nodes.tree, k, TRUE)))
            s1 = I.heap_write(s1, cls, "nattr", g.tree,
                              SV(nattr.kind, (z3.Store(nattr.tree[0], k, TRUE), tstore(nattr.tree[1], k, cur))))
        adj, eattr = fld(s1, g, "adj"), fld(s1, g, "eattr")
        e1 = ekey(I.tup_to_sv(u), I.tup_to_sv(v))
        present = z3.Select(adj.tree, e1)
        cur = SV(ATTR, tite(present, tselect(eattr.tree[1], e1), default_tree(ATTR)))
        extra = attrs_from_kwargs(kw)
        newd = cur if extra is None else dict_union(cur, extra)
        a2 = z3.Store(adj.tree, e1, TRUE)
        dom2 = z3.Store(eattr.tree[0], e1, TRUE)
        val2 = tstore(eattr.tree[1], e1, newd.tree)
        if cls == "Graph":
            e2 = ekey(I.tup_to_sv(v), I.tup_to_sv(u))
            a2 = z3.Store(a2, e2, TRUE)
            dom2 = z3.Store(dom2, e2, TRUE)
            val2 = tstore(val2, e2, newd.tree)
        s1 = I.heap_write(s1, cls, "adj", g.tree, SV(adj.kind, a2))
        s1 = I.heap_write(s1, cls, "eattr", g.tree, SV(eattr.kind, (dom2, val2)))
        yield None, s1

    @gmeth("has_node")
    def _has_node(I, st, args, kw):
        g, n = args[0], args[1]
        yield SV(BOOL, z3.Select(fld(st, g, "nodes").tree, nkey(n))), st

    @gmeth("__contains__")
    def _contains(I, st, args, kw):
        yield from _has_node(I, st, args, kw)

    @gmeth("has_edge")
    def _has_edge(I, st, args, kw):
        g, u, v = args[0], args[1], args[2]
        yield SV(BOOL, z3.Select(fld(st, g, "adj").tree, ekey(I.tup_to_sv(u), I.tup_to_sv(v)))), st

    @gmeth("number_of_nodes")
    def _non(I, st, args, kw):
        yield SV(INT, I.card(fld(st, args[0], "nodes").tree)), st

    @gmeth("__len__")
    def _glen(I, st, args, kw):
        yield SV(INT, I.card(fld(st, args[0], "nodes").tree)), st

    @gmeth("number_of_edges")
    def _noe(I, st, args, kw):
        g = args[0]
        f = I.ufunc("nx_number_of_edges_%s" % g.kind.extra, z3.ArraySort(keysort(EDGE), core.B), core.I)
        adj = fld(st, g, "adj").tree
        if "noe" not in I._card_ax:
            I._card_ax.add("noe")
        I.define([f(adj) >= 0, (f(adj) == 0) == (adj == default_tree(SET(EDGE)))])
        yield SV(INT, f(adj)), st

    @gmeth("is_directed")
    def _isdir(I, st, args, kw):
        yield directed(args[0]), st

    def nbr_set(st, g, n, which="out"):
        """membership array of the neighbours of n (successors for DiGraph / which='in' predecessors)"""
        adj = fld(st, g, "adj").tree
        k = nkey(n)
        res = z3.Const(core.fresh_name("nbrs"), z3.ArraySort(Val, core.B))
        w = z3.Const(core.fresh_name("w"), Val)
        e = to_key(EDGE, (k, w)) if which == "out" else to_key(EDGE, (w, k))
        I.define([z3.ForAll([w], z3.Select(res, w) == z3.Select(adj, e))])
        return res

    def need_node(st, g, n, exc="KeyError"):
        present = z3.Select(fld(st, g, "nodes").tree, nkey(n))
        return [s for _, s in I.partial(st, present, exc, None)]

    class LazyNbrs(IterSpec):
        """neighbours of n: membership is a term (adj[(n,w)]); the array is only materialised when iterated"""
        def __init__(self, st, g, n):
            IterSpec.__init__(self, "set", ekind=ANY, elem=lambda x, s2: SV(ANY, x), identity=True)
            self._st, self._g, self._n = st, g, n

        def member(self, w):
            return z3.Select(fld(self._st, self._g, "adj").tree, to_key(EDGE, (nkey(self._n), w)))

        @property
        def mem(self):
            if "_mem" not in self.__dict__:
                self.__dict__["_mem"] = nbr_set(self._st, self._g, self._n)
            return self.__dict__["_mem"]

    @gmeth("neighbors")
    def _neighbors(I, st, args, kw):
        g, n = args[0], args[1]
        if st.pure:
            yield LazyNbrs(st, g, n), st
            return
        for s in need_node(st, g, n, "NetworkXError"):
            yield LazyNbrs(s, g, n), s
    I.lib["Graph.successors"] = I.lib["Graph.neighbors"]
    I.lib["DiGraph.successors"] = I.lib["DiGraph.neighbors"]

    @gmeth("predecessors")
    def _preds(I, st, args, kw):
        g, n = args[0], args[1]
        for s in need_node(st, g, n, "NetworkXError"):
            arr = nbr_set(s, g, n, "in")
            yield IterSpec("set", mem=arr, ekind=ANY, elem=lambda x, s2: SV(ANY, x), identity=True), s

    @gmeth("copy")
    def _copy(I, st, args, kw):
        yield from copy_graph(st, args[0])

    @gmeth("get_edge_data")
    def _ged(I, st, args, kw):
        g, u, v = args[0], args[1], args[2]
        adj = fld(st, g, "adj").tree
        e = ekey(I.tup_to_sv(u), I.tup_to_sv(v))
        al = edge_attr_alias(st, g, I.tup_to_sv(u), I.tup_to_sv(v))
        yield SV(OPT(ATTR), (z3.Not(z3.Select(adj, e)), al.tree)), st

    @gmeth("remove_node")
    def _remove_node(I, st, args, kw):
        g, n = args[0], args[1]
        cls = g.kind.extra
        k = nkey(n)
        for s in need_node(st, g, n, "NetworkXError"):
            nodes, nattr, adj, eattr = fld(s, g, "nodes"), fld(s, g, "nattr"), fld(s, g, "adj"), fld(s, g, "eattr")
            adj2 = z3.Const(core.fresh_name("adj"), adj.tree.sort())
            u, v = z3.Const(core.fresh_name("u"), Val), z3.Const(core.fresh_name("v"), Val)
            e = to_key(EDGE, (u, v))
            I.define([z3.ForAll([u, v], z3.Select(adj2, e) == z3.And(z3.Select(adj.tree, e), u != k, v != k))])
            s1 = I.heap_write(s, cls, "nodes", g.tree, SV(nodes.kind, z3.Store(nodes.tree, k, FALSE)))
            s1 = I.heap_write(s1, cls, "nattr", g.tree, SV(nattr.kind, (z3.Store(nattr.tree[0], k, FALSE), nattr.tree[1])))
            s1 = I.heap_write(s1, cls, "adj", g.tree, SV(adj.kind, adj2))
            s1 = I.heap_write(s1, cls, "eattr", g.tree, SV(eattr.kind, (adj2, eattr.tree[1])))
            yield None, s1

    @gmeth("remove_edge")
    def _remove_edge(I, st, args, kw):
        g, u, v = args[0], args[1], args[2]
        cls = g.kind.extra
        adj, eattr = fld(st, g, "adj"), fld(st, g, "eattr")
        e1 = ekey(I.tup_to_sv(u), I.tup_to_sv(v))
        for _, s in I.partial(st, z3.Select(adj.tree, e1), "NetworkXError", None):
            a2 = z3.Store(adj.tree, e1, FALSE)
            d2 = z3.Store(eattr.tree[0], e1, FALSE)
            if cls == "Graph":
                e2 = ekey(I.tup_to_sv(v), I.tup_to_sv(u))
                a2, d2 = z3.Store(a2, e2, FALSE), z3.Store(d2, e2, FALSE)
            s1 = I.heap_write(s, cls, "adj", g.tree, SV(adj.kind, a2))
            s1 = I.heap_write(s1, cls, "eattr", g.tree, SV(eattr.kind, (d2, eattr.tree[1])))
            yield None, s1

    @gmeth("subgraph")
    def _subgraph(I, st, args, kw):
        """induced subgraph as a *copy* (the read-only view's sharing of attribute dicts is not modelled: code under
        contract that writes through a subgraph view is unsupported)"""
        g = args[0]
        keep = I.to_set_value(st, args[1])
        if isinstance(keep, set):
            keep = SV(SET(ANY), default_tree(SET(ANY)))
        keep = I.coerce(keep, SET(ANY)) if keep.kind != SET(ANY) else keep
        cls = g.kind.extra
        nodes, nattr, adj, eattr = fld(st, g, "nodes"), fld(st, g, "nattr"), fld(st, g, "adj"), fld(st, g, "eattr")
        n2 = I.set_op("&", nodes, keep)
        adj2 = z3.Const(core.fresh_name("adj"), adj.tree.sort())
        u, v = z3.Const(core.fresh_name("u"), Val), z3.Const(core.fresh_name("v"), Val)
        e = to_key(EDGE, (u, v))
        I.define([z3.ForAll([u, v], z3.Select(adj2, e) == z3.And(z3.Select(adj.tree, e), z3.Select(keep.tree, u),
                                                                   z3.Select(keep.tree, v)))])
        s1, ref = I.alloc(st, cls)
        sub = SV(OBJ(cls), ref)
        s1 = I.heap_write(s1, cls, "nodes", ref, SV(nodes.kind, n2.tree))
        s1 = I.heap_write(s1, cls, "nattr", ref, SV(nattr.kind, (n2.tree, nattr.tree[1])))
        s1 = I.heap_write(s1, cls, "adj", ref, SV(adj.kind, adj2))
        s1 = I.heap_write(s1, cls, "eattr", ref, SV(eattr.kind, (adj2, eattr.tree[1])))
        s1 = I.heap_write(s1, cls, "gattr", ref, fld(st, g, "gattr"))
        yield sub, s1

    # ------------------------------------------------------------------ views
    def node_iter(st, g, data):
        nodes = fld(st, g, "nodes")
        if data is True:
            def elem(x, s):
                return (SV(ANY, x), node_attr_alias(s, g, SV(ANY, x)))
        elif data is False or data is None:
            def elem(x, s):
                return SV(ANY, x)
        else:
            raise Unsupported("G.nodes(data=<key>)")
        return IterSpec("set", mem=nodes.tree, ekind=ANY, elem=elem, identity=not data)

    def edge_iter(st, g, data, nbunch=None, which="out"):
        adj = fld(st, g, "adj")
        mem = adj.tree
        if nbunch is not None:
            # edges incident to one node n: Graph -> (n, w) for every neighbour; DiGraph -> out-arcs (n, w) only
            k = nkey(nbunch)
            res = z3.Const(core.fresh_name("inc"), mem.sort())
            u, v = z3.Const(core.fresh_name("u"), Val), z3.Const(core.fresh_name("v"), Val)
            e = to_key(EDGE, (u, v))
            cond = (u == k) if which == "out" else (v == k)
            I.define([z3.ForAll([u, v], z3.Select(res, e) == z3.And(z3.Select(mem, e), cond))])
            mem = res

        def elem(x, s):
            u, v = from_key(EDGE, x)
            if data is True:
                return (SV(ANY, u), SV(ANY, v), edge_attr_alias(s, g, SV(ANY, u), SV(ANY, v)))
            if data is False or data is None:
                return (SV(ANY, u), SV(ANY, v))
            raise Unsupported("G.edges(data=<key>)")
        spec = IterSpec("set", mem=mem, ekind=EDGE, elem=elem, identity=not data)
        if not directed(g) and nbunch is None:
            # each undirected edge once: visiting (u,v) also consumes (v,u)
            def mark(done, x):
                u, v = from_key(EDGE, x)
                return z3.Store(z3.Store(done, x, TRUE), to_key(EDGE, (v, u)), TRUE)
            spec.mark = mark
        return spec

    def view_call(st, view, args, kw):
        data = kw.get("data", False)
        if isinstance(view, NodeView):
            if args:
                data = args[0]
            yield node_iter(st, view.g, data), st
            return
        if isinstance(view, EdgeView):
            nb = args[0] if args else kw.get("nbunch")
            yield edge_iter(st, view.g, data, nb), st
            return
        if isinstance(view, DegreeView):
            yield from degree_of(st, view.g, args[0])
            return
        raise Unsupported("call of %r" % (view,))

    def degree_of(st, g, n):
        if directed(g):
            raise Unsupported("degree on DiGraph")
        arr = nbr_set(st, g, n)
        k = nkey(n)
        loop = z3.Select(fld(st, g, "adj").tree, to_key(EDGE, (k, k)))
        yield SV(INT, I.card(arr) + z3.If(loop, 1, 0)), st

    base_call = I.call

    def call(st, f, args, kwargs):
        if isinstance(f, (NodeView, EdgeView, DegreeView)):
            yield from view_call(st, f, args, kwargs)
            return
        yield from base_call(st, f, args, kwargs)
    I.call = call

    @gmeth("in_edges")
    def _in_edges(I, st, args, kw):
        g = args[0]
        nb = args[1] if len(args) > 1 else kw.get("nbunch")
        yield edge_iter(st, g, kw.get("data", False), nb, "in"), st

    @gmeth("out_edges")
    def _out_edges(I, st, args, kw):
        g = args[0]
        nb = args[1] if len(args) > 1 else kw.get("nbunch")
        yield edge_iter(st, g, kw.get("data", False), nb, "out"), st

    def view_method(st, view, name, args, kw):
        if isinstance(view, NodeView) and name in ("keys", "__iter__"):
            yield node_iter(st, view.g, False), st
            return
        if isinstance(view, NodeView) and name == "items":
            yield node_iter(st, view.g, True), st
            return
        if isinstance(view, NodeView) and name == "data":
            yield node_iter(st, view.g, True), st
            return
        if isinstance(view, EdgeView) and name == "data":
            yield edge_iter(st, view.g, True), st
            return
        raise Unsupported("method %s on %s" % (name, type(view).__name__))

    # subscripts on views / graphs
    base_getitem = I.getitem

    def getitem(st, base, idx):
        if isinstance(base, NodeView):
            g = base.g
            for s in need_node(st, g, idx):
                yield node_attr_alias(s, g, idx), s
            return
        if isinstance(base, EdgeView):
            g = base.g
            if isinstance(idx, tuple) and len(idx) == 2:
                u, v = idx
            elif isinstance(idx, SV) and idx.kind.tag == "tuple" and len(idx.kind.args) == 2:
                u, v = SV(idx.kind.args[0], idx.tree[0]), SV(idx.kind.args[1], idx.tree[1])
            else:
                raise Unsupported("G.edges[%r]" % (idx,))
            u, v = I.tup_to_sv(u), I.tup_to_sv(v)
            present = z3.Select(fld(st, g, "adj").tree, ekey(u, v))
            for _, s in I.partial(st, present, "KeyError", None):
                yield edge_attr_alias(s, g, u, v), s
            return
        if isinstance(base, AdjView):
            if base.u is None:
                for s in need_node(st, base.g, idx):
                    yield AdjView(base.g, I.tup_to_sv(idx)), s
                return
            g, u, v = base.g, base.u, I.tup_to_sv(idx)
            present = z3.Select(fld(st, g, "adj").tree, ekey(u, v))
            for _, s in I.partial(st, present, "KeyError", None):
                yield edge_attr_alias(s, g, u, v), s
            return
        if isinstance(base, DegreeView):
            yield from degree_of(st, base.g, idx)
            return
        if is_graph(base):
            for s in need_node(st, base, idx):
                yield AdjView(base, I.tup_to_sv(idx)), s
            return
        yield from base_getitem(st, base, idx)
    I.getitem = getitem

    # membership
    base_contains = I.contains

    def contains(st, cont, item):
        if is_graph(cont):
            return z3.Select(fld(st, cont, "nodes").tree, nkey(item))
        if isinstance(cont, NodeView):
            return z3.Select(fld(st, cont.g, "nodes").tree, nkey(item))
        if isinstance(cont, AdjView) and cont.u is not None:
            return z3.Select(fld(st, cont.g, "adj").tree, ekey(cont.u, I.tup_to_sv(item)))
        if isinstance(cont, EdgeView):
            it = I.tup_to_sv(item)
            if it.kind.tag == "tuple" and len(it.kind.args) == 2:
                return z3.Select(fld(st, cont.g, "adj").tree, ekey(SV(it.kind.args[0], it.tree[0]), SV(it.kind.args[1], it.tree[1])))
            raise Unsupported("`in G.edges` with a non-pair")
        return base_contains(st, cont, item)
    I.contains = contains

    # iteration
    base_to_iterspec = I.to_iterspec

    def to_iterspec(st, v):
        if is_graph(v):
            return node_iter(st, v, False)
        if isinstance(v, NodeView):
            return node_iter(st, v.g, False)
        if isinstance(v, EdgeView):
            return edge_iter(st, v.g, False)
        if isinstance(v, AdjView) and v.u is not None:
            arr = nbr_set(st, v.g, v.u)
            return IterSpec("set", mem=arr, ekind=ANY, elem=lambda x, s2: SV(ANY, x), identity=True)
        return base_to_iterspec(st, v)
    I.to_iterspec = to_iterspec

    base_truthy = I.truthy

    def truthy(v):
        if isinstance(v, (NodeView, EdgeView, AdjView, DegreeView)):
            raise Unsupported("truthiness of a graph view")
        return base_truthy(v)
    I.truthy = truthy

    def truthy_in(c, st):
        # `G.nodes` / `G.edges` in a boolean context: non-empty
        if isinstance(c, NodeView):
            arr = fld(st, c.g, "nodes").tree
            return arr != z3.K(arr.sort().domain(), FALSE)
        if isinstance(c, EdgeView):
            arr = fld(st, c.g, "adj").tree
            return arr != z3.K(arr.sort().domain(), FALSE)
        return I.truthy(c)
    I.truthy_in = truthy_in

    # len() of views
    base_len = I.lib["len"].fn

    def _len(I_, st, args, kw):
        v = args[0]
        if isinstance(v, NodeView):
            yield SV(INT, I.card(fld(st, v.g, "nodes").tree)), st
            return
        if is_graph(v):
            yield SV(INT, I.card(fld(st, v, "nodes").tree)), st
            return
        if isinstance(v, IterSpec) and v.mode == "set":
            yield SV(INT, I.card(v.mem)), st
            return
        if isinstance(v, IterSpec) and v.mode == "seq":
            yield SV(INT, v.length), st
            return
        yield from base_len(I_, st, args, kw)
    I.lib["len"] = BuiltinVal("len", _len)


    # ------------------------------------------------------------------ itertools.chain.from_iterable over neighbours
    from .interp2 import CompVal

    class UnionIter:
        def __init__(self, comp):
            self.comp = comp

    def _from_iterable(I_, st, args, kw):
        if not isinstance(args[0], CompVal):
            raise Unsupported("chain.from_iterable of a non-generator")
        yield UnionIter(args[0]), st
    I.lib["itertools.chain"] = ModuleVal("itertools.chain")
    I.lib["itertools.chain.from_iterable"] = BuiltinVal("chain.from_iterable", _from_iterable)

    base_to_set = I.to_set_value

    def to_set_value(st, v):
        if isinstance(v, UnionIter):
            e, cst = v.comp.node, v.comp.st
            spec, x, s2, dom, guard = I.comp_symbolic(e, cst)
            inner, _ = I.eval1(e.elt, s2)
            ispec = I.to_iterspec(s2, inner)
            if ispec.mode != "set" or not getattr(ispec, "identity", False):
                raise Unsupported("chain.from_iterable over non-set iterables")
            ks = keysort(ispec.ekind)
            res = z3.Const(core.fresh_name("union"), z3.ArraySort(ks, core.B))
            w = z3.Const(core.fresh_name("w"), ks)
            member = ispec.member(w) if hasattr(ispec, "member") else None
            if member is None:
                raise Unsupported("chain.from_iterable: inner iterable has no term-level membership")
            wit = z3.Function(core.fresh_name("wit"), ks, x.sort())
            sub = lambda t: z3.substitute(t, (x, wit(w)))
            I.define([z3.ForAll([x, w], z3.Implies(z3.And(dom, guard, member), z3.Select(res, w))),
                      z3.ForAll([w], z3.Implies(z3.Select(res, w), z3.And(sub(dom), sub(guard), sub(member))))])
            return SV(SET(ispec.ekind), res)
        return base_to_set(st, v)
    I.to_set_value = to_set_value

    # ------------------------------------------------------------------ spec function ball(G, centers, k)
    def _ball(I_, st, args, kw):
        """Ball(0) = centres; Ball(i+1) = Ball(i) + neighbours of Ball(i)  (uninterpreted, two defining axioms)"""
        g, centers, k = args
        adj = fld(st, g, "adj").tree
        C = I.to_set_value(st, centers)
        if isinstance(C, set):
            C = SV(SET(ANY), default_tree(SET(ANY)))
        C = I.coerce(C, SET(ANY)) if C.kind != SET(ANY) else C
        kt = I.coerce(k, INT).tree
        SA = z3.ArraySort(Val, core.B)
        f = I.ufunc("nx_ball", adj.sort(), SA, core.I, SA)
        if not getattr(I, "_ball_ax", False):
            I._ball_ax = True
            a, c = z3.Const("ball_a", adj.sort()), z3.Const("ball_c", SA)
            i = z3.Int("ball_i")
            w, n = z3.Const("ball_w", Val), z3.Const("ball_n", Val)
            wn = z3.Function("ball_wit", adj.sort(), SA, core.I, Val, Val)
            prev = f(a, c, i - 1)
            cur_w = z3.Select(f(a, c, i), w)
            edge = z3.Select(a, to_key(EDGE, (n, w)))
            wv = wn(a, c, i, w)
            I.axioms.extend([
                z3.ForAll([a, c], f(a, c, 0) == c),
                z3.ForAll([a, c, i, w], z3.Implies(z3.And(i >= 1, z3.Select(prev, w)), cur_w), patterns=[cur_w]),
                z3.ForAll([a, c, i, n, w], z3.Implies(z3.And(i >= 1, z3.Select(prev, n), edge), cur_w),
                          patterns=[z3.MultiPattern(cur_w, edge)]),
                z3.ForAll([a, c, i, w], z3.Implies(z3.And(i >= 1, cur_w),
                                                   z3.Or(z3.Select(prev, w),
                                                         z3.And(z3.Select(prev, wv), z3.Select(a, to_key(EDGE, (wv, w)))))),
                          patterns=[cur_w]),
            ])
        yield SV(SET(ANY), f(adj, C.tree, kt)), st
    I.lib["ball"] = BuiltinVal("ball", _ball)


    # ------------------------------------------------------------------ unordered pairs: frozenset((u, v))
    class UPair:
        def __init__(self, u, v):
            self.u, self.v = u, v
    I.UPair = UPair

    base_frozenset = I.lib["frozenset"].fn

    def _frozenset(I_, st, args, kw):
        if args and isinstance(args[0], tuple) and len(args[0]) == 2:
            yield UPair(I.tup_to_sv(args[0][0]), I.tup_to_sv(args[0][1])), st
            return
        yield from base_frozenset(I_, st, args, kw)
    I.lib["frozenset"] = BuiltinVal("frozenset", _frozenset)

    def _comp_set_upair(I_, x, dom, guard, up):
        """{frozenset((a, b)) for ...}: a set of unordered pairs = a symmetric set of ordered pairs"""
        a, b = I.as_any(up.u), I.as_any(up.v)
        res = z3.Const(core.fresh_name("upairs"), z3.ArraySort(keysort(EDGE), core.B))
        p, q = z3.Const(core.fresh_name("p"), Val), z3.Const(core.fresh_name("q"), Val)
        wit = z3.Function(core.fresh_name("wit"), Val, Val, x.sort())
        sub = lambda t: z3.substitute(t, (x, wit(p, q)))
        I.define([z3.ForAll([x], z3.Implies(z3.And(dom, guard), z3.And(z3.Select(res, to_key(EDGE, (a, b))),
                                                                     z3.Select(res, to_key(EDGE, (b, a)))))),
                  z3.ForAll([p, q], z3.Implies(z3.Select(res, to_key(EDGE, (p, q))),
                                               z3.And(sub(dom), sub(guard),
                                                      z3.Or(z3.And(sub(a) == p, sub(b) == q), z3.And(sub(a) == q, sub(b) == p)))))])
        return SV(SET(EDGE), res, None, None, {"unordered": True})
    I.lib["comp_set:upair"] = BuiltinVal("comp_set:upair", _comp_set_upair)

    def _iter_upairs(I_, st, v):
        def elem(x, s):
            u, w = from_key(EDGE, x)
            return UPair(SV(ANY, u), SV(ANY, w))

        def mark(done, x):
            u, w = from_key(EDGE, x)
            return z3.Store(z3.Store(done, x, TRUE), to_key(EDGE, (w, u)), TRUE)
        spec = IterSpec("set", mem=v.tree, ekind=EDGE, elem=elem)
        spec.mark = mark
        return spec
    I.lib["iter:upairs"] = BuiltinVal("iter:upairs", _iter_upairs)

    base_tuple = I.lib["tuple"].fn

    def _tuple(I_, st, args, kw):
        if args and isinstance(args[0], UPair):
            up = args[0]
            # a frozenset {u, v} with u == v has one element: unpacking it into two names raises ValueError
            for _, s in I.partial(st, z3.Not(I.py_eq(up.u, up.v)), "ValueError", None):
                yield (up.u, up.v), s
            return
        yield from base_tuple(I_, st, args, kw)
    I.lib["tuple"] = BuiltinVal("tuple", _tuple)

    @gmeth("remove_edges_from")
    def _remove_edges_from(I_, st, args, kw):
        g = args[0]
        cls = g.kind.extra
        S = I.to_set_value(st, args[1])
        if isinstance(S, set):
            yield None, st
            return
        if S.kind != SET(EDGE):
            raise Unsupported("remove_edges_from(%r)" % (S.kind,))
        adj, eattr = fld(st, g, "adj"), fld(st, g, "eattr")
        adj2 = z3.Const(core.fresh_name("adj"), adj.tree.sort())
        u, v = z3.Const(core.fresh_name("u"), Val), z3.Const(core.fresh_name("v"), Val)
        e, e2 = to_key(EDGE, (u, v)), to_key(EDGE, (v, u))
        gone = z3.Select(S.tree, e) if cls == "DiGraph" else z3.Or(z3.Select(S.tree, e), z3.Select(S.tree, e2))
        I.define([z3.ForAll([u, v], z3.Select(adj2, e) == z3.And(z3.Select(adj.tree, e), z3.Not(gone)))])
        s1 = I.heap_write(st, cls, "adj", g.tree, SV(adj.kind, adj2))
        s1 = I.heap_write(s1, cls, "eattr", g.tree, SV(eattr.kind, (adj2, eattr.tree[1])))
        yield None, s1

    def _deepcopy_obj(I_, st, args, kw):
        v = args[0]
        if is_graph(v):
            yield from copy_graph(st, v)
            return
        raise Unsupported("deepcopy of obj:%s" % v.kind.extra)
    I.lib["deepcopy:obj"] = BuiltinVal("deepcopy:obj", _deepcopy_obj)


    # ------------------------------------------------------------------ abstract isomorphism relation (A-vf2)
    def _iso_rel(I_, st, args, kw):
        """iso_rel(a, b): label-preserving isomorphism of two graphs under fixed symmetric match functions -- an
        uninterpreted equivalence relation on the (unmodified) graph objects"""
        a, b = args[0], args[1]
        a = I.coerce(a, OBJ("Graph")) if a.kind.tag == "any" else a
        b = I.coerce(b, OBJ("Graph")) if b.kind.tag == "any" else b
        f = I.ufunc("iso_rel", core.I, core.I, core.B)
        if not getattr(I, "_iso_ax", False):
            I._iso_ax = True
            x, y, z = z3.Ints("iso_x iso_y iso_z")
            I.axioms.extend([z3.ForAll([x], f(x, x)),
                             z3.ForAll([x, y], f(x, y) == f(y, x)),
                             z3.ForAll([x, y, z], z3.Implies(z3.And(f(x, y), f(y, z)), f(x, z)))])
            I.assumptions_used.add("A-vf2: isomorphism under symmetric label-equality matchers is an equivalence relation "
                                   "(reflexive, symmetric, transitive); the graphs are not modified between calls")
        yield SV(BOOL, f(a.tree, b.tree)), st
    I.lib["iso_rel"] = BuiltinVal("iso_rel", _iso_rel)
    install_vf2(I)


def install_vf2(I):
    """A-vf2: networkx GraphMatcher(G1, G2, node_match, edge_match).subgraph_monomorphisms_iter() enumerates, each once,
    exactly the dicts iso: V(G1) ⊇ dom -> V(G2) that are injective, onto V(G2), satisfy node_match(G1 attrs, G2 attrs) on
    every mapped pair and send some G1 edge onto every G2 edge with edge_match.  (Only the soundness and
    duplicate-freeness halves are stated as facts here; completeness is used by the bounded twin.)"""
    from .interp import BuiltinVal, SV, IterSpec, ClassVal

    class MatcherVal:
        def __init__(self, g1, g2, nm, em):
            self.g1, self.g2, self.nm, self.em = g1, g2, nm, em

    def _new_matcher(I_, st, args, kw):
        g1, g2 = args[0], args[1]
        yield MatcherVal(g1, g2, kw.get("node_match", args[2] if len(args) > 2 else None),
                         kw.get("edge_match", args[3] if len(args) > 3 else None)), st
    for name in ("GraphMatcher", "_NXGraphMatcher", "networkx.algorithms.isomorphism.GraphMatcher", "networkx.algorithms.isomorphism.vf2userfunc.GraphMatcher",
                 "DiGraphMatcher", "networkx.algorithms.isomorphism.DiGraphMatcher"):
        I.lib[name] = BuiltinVal(name, _new_matcher)

    MAPK = DICT(ANY, ANY)

    def call_pure(st, f, args):
        s = st.copy()
        s.pure = True
        if f is None:
            return TRUE
        outs = list(I.call(s, f, args, {}))
        if len(outs) != 1:
            raise Unsupported("match function forks")
        return I.truthy(outs[0][0])

    def mono_facts(st, M, iso):
        """z3 Bool: `iso` (dict G1-node -> G2-node) is a monomorphism of G2 into G1 w.r.t. the matcher's functions"""
        g1, g2 = M.g1, M.g2
        n1, n2 = I.nx_fld(st, g1, "nodes").tree, I.nx_fld(st, g2, "nodes").tree
        a1, a2 = I.nx_fld(st, g1, "adj").tree, I.nx_fld(st, g2, "adj").tree
        na1, na2 = I.nx_fld(st, g1, "nattr"), I.nx_fld(st, g2, "nattr")
        ea1, ea2 = I.nx_fld(st, g1, "eattr"), I.nx_fld(st, g2, "eattr")
        dom, val = iso.tree
        h, h2, p, q = (z3.Const(core.fresh_name(n), Val) for n in ("h", "h2", "p", "q"))
        pre = z3.Function(core.fresh_name("pre"), Val, Val)        # a preimage of every pattern node
        attr = lambda na, n: SV(ATTR, tselect(na.tree[1], n))
        eattr = lambda ea, u, v: SV(ATTR, tselect(ea.tree[1], to_key(EDGE, (u, v))))
        facts = [
            z3.ForAll([h], z3.Implies(z3.Select(dom, h), z3.And(z3.Select(n1, h), z3.Select(n2, z3.Select(val, h))))),
            z3.ForAll([h, h2], z3.Implies(z3.And(z3.Select(dom, h), z3.Select(dom, h2), h != h2),
                                          z3.Select(val, h) != z3.Select(val, h2))),
            z3.ForAll([p], z3.Implies(z3.Select(n2, p), z3.And(z3.Select(dom, pre(p)), z3.Select(val, pre(p)) == p))),
            z3.ForAll([h], z3.Implies(z3.Select(dom, h), call_pure(st, M.nm, [attr(na1, h), attr(na2, z3.Select(val, h))]))),
            z3.ForAll([h, h2], z3.Implies(z3.And(z3.Select(dom, h), z3.Select(dom, h2),
                                                 z3.Select(a2, to_key(EDGE, (z3.Select(val, h), z3.Select(val, h2))))),
                                          z3.And(z3.Select(a1, to_key(EDGE, (h, h2))),
                                                 call_pure(st, M.em, [eattr(ea1, h, h2),
                                                                      eattr(ea2, z3.Select(val, h), z3.Select(val, h2))])))),
        ]
        return facts

    def induced_fact(st, M, iso):
        """non-edges are reflected: a G1 edge between two mapped nodes is a G2 edge (induced subgraph isomorphism)"""
        a1, a2 = I.nx_fld(st, M.g1, "adj").tree, I.nx_fld(st, M.g2, "adj").tree
        dom, val = iso.tree
        h, h2 = z3.Const(core.fresh_name("h"), Val), z3.Const(core.fresh_name("h2"), Val)
        return z3.ForAll([h, h2], z3.Implies(z3.And(z3.Select(dom, h), z3.Select(dom, h2), z3.Select(a1, to_key(EDGE, (h, h2)))),
                                             z3.Select(a2, to_key(EDGE, (z3.Select(val, h), z3.Select(val, h2))))))

    def _subiso_iter(st, M):
        n = z3.Int(core.fresh_name("n_subiso"))
        L = tfresh(LIST(MAPK), "subisos")
        i, j = z3.Int(core.fresh_name("i")), z3.Int(core.fresh_name("j"))
        elt = lambda idx: SV(MAPK, tselect(L[1], idx))
        facts = [n >= 0]
        for f in mono_facts(st, M, elt(i)) + [induced_fact(st, M, elt(i))]:
            facts.append(z3.ForAll([i], z3.Implies(z3.And(0 <= i, i < n), f)))
        facts.append(z3.ForAll([i, j], z3.Implies(z3.And(0 <= i, i < j, j < n), z3.Not(I.py_eq(elt(i), elt(j))))))
        I.define(facts)
        I.assumptions_used.add("A-vf2: GraphMatcher.subgraph_isomorphisms_iter yields induced-subgraph isomorphisms only, each once")
        return IterSpec("seq", length=n, ekind=MAPK, elt=elt, as_list=SV(LIST(MAPK), (n, L[1])))

    def _is_isomorphic(st, M):
        """is_isomorphic(): when true, `.mapping` is a label-preserving bijection V(G1) -> V(G2) (A-vf2)"""
        b = z3.Bool(core.fresh_name("vf2_iso"))
        m = SV(MAPK, tfresh(MAPK, "vf2_mapping"))
        n1 = I.nx_fld(st, M.g1, "nodes").tree
        facts = mono_facts(st, M, m) + [induced_fact(st, M, m), m.tree[0] == n1]
        I.define([z3.Implies(b, f) for f in facts])
        M.mapping = m
        M.iso_flag = b
        return SV(BOOL, b)

    def _monos_iter(st, M):
        n = z3.Int(core.fresh_name("n_monos"))
        L = tfresh(LIST(MAPK), "monos")
        i, j = z3.Int(core.fresh_name("i")), z3.Int(core.fresh_name("j"))
        elt = lambda idx: SV(MAPK, tselect(L[1], idx))
        facts = [n >= 0]
        for f in mono_facts(st, M, elt(i)):
            facts.append(z3.ForAll([i], z3.Implies(z3.And(0 <= i, i < n), f)))
        # each monomorphism once
        facts.append(z3.ForAll([i, j], z3.Implies(z3.And(0 <= i, i < j, j < n), z3.Not(I.py_eq(elt(i), elt(j))))))
        I.define(facts)
        I.assumptions_used.add("A-vf2: GraphMatcher.subgraph_monomorphisms_iter yields monomorphisms only, each once "
                               "(completeness of VF2 is not used by the proofs)")
        return IterSpec("seq", length=n, ekind=MAPK, elt=elt, as_list=SV(LIST(MAPK), (n, L[1])))

    base_call_method = I.call_method

    def call_method(st, recv, name, args, kw):
        if isinstance(recv, MatcherVal):
            if name == "subgraph_monomorphisms_iter":
                yield _monos_iter(st, recv), st
                return
            if name == "subgraph_isomorphisms_iter":
                yield _subiso_iter(st, recv), st
                return
            if name == "is_isomorphic":
                yield _is_isomorphic(st, recv), st
                return
            raise Unsupported("GraphMatcher.%s" % name)
        yield from base_call_method(st, recv, name, args, kw)
    I.call_method = call_method

    base_getattr = I.getattr

    def getattr_(st, base, attr):
        from .interp import BoundBuiltin
        if isinstance(base, MatcherVal):
            if attr == "mapping":
                if getattr(base, "mapping", None) is None:
                    raise Unsupported("GraphMatcher.mapping before is_isomorphic()")
                return base.mapping
            return BoundBuiltin(base, attr)
        return base_getattr(st, base, attr)
    I.getattr = getattr_
