"""pyvc.lib_nx -- assumed contracts on networkx (A-nx-graph ...). Filled in as properties need it."""
from __future__ import annotations


def install(I):
    pass
