"""pyvc.verify -- per-function verification driver and SMT discharge."""
from __future__ import annotations

import ast
import concurrent.futures
import hashlib
import itertools
import os
import subprocess
import tempfile
import time

import z3

from . import core
from .core import (ANY, BOOL, DICT, INT, LIST, OBJ, OPT, REAL, SET, STR, TUP, Kind, STRINGS, keysort, from_key,
                   tselect, tfresh, tmap, sort_tree, parse_kind, default_tree)
from .interp import Engine, SV, State, IterSpec, ViewVal, FuncVal
from .source import Unsupported, ShapeMismatch, module as src_module, strip_docstring, loops_of, func_digest

Engine.SV = SV
Engine.IterSpec = IterSpec
Engine.ViewVal = ViewVal
TRUE, FALSE = z3.BoolVal(True), z3.BoolVal(False)


def valid_tree(kind, tree, nref):
    """well-typedness of a value w.r.t. the allocation pointer (refs in range, list lengths >= 0)"""
    t = kind.tag
    if t == "obj":
        return z3.And(tree >= 0, tree < nref)
    if t in ("int", "bool", "real", "str", "any", "none"):
        return TRUE
    if t == "opt":
        inner = valid_tree(kind.args[0], tree[1], nref)
        return TRUE if z3.is_true(inner) else z3.Or(tree[0], inner)
    if t == "tuple":
        parts = [valid_tree(k, x, nref) for k, x in zip(kind.args, tree)]
        parts = [p for p in parts if not z3.is_true(p)]
        return z3.And(*parts) if parts else TRUE
    if t == "set":
        ek = kind.args[0]
        x = z3.Const(core.fresh_name("vx"), keysort(ek))
        inner = valid_tree(ek, from_key(ek, x), nref)
        return TRUE if z3.is_true(inner) else z3.ForAll([x], z3.Implies(z3.Select(tree, x), inner))
    if t == "dict":
        kk, vk = kind.args
        x = z3.Const(core.fresh_name("vx"), keysort(kk))
        inner = z3.simplify(z3.And(valid_tree(kk, from_key(kk, x), nref), valid_tree(vk, tselect(tree[1], x), nref)))
        return TRUE if z3.is_true(inner) else z3.ForAll([x], z3.Implies(z3.Select(tree[0], x), inner))
    if t == "list":
        ek = kind.args[0]
        i = z3.Int(core.fresh_name("vi"))
        inner = valid_tree(ek, tselect(tree[1], i), nref)
        if z3.is_true(inner):
            return tree[0] >= 0
        return z3.And(tree[0] >= 0, z3.ForAll([i], z3.Implies(z3.And(0 <= i, i < tree[0]), inner)))
    raise TypeError(kind)


def heap_typing(self, st, cls, fld):
    k = self.field_kind(cls, fld)
    r = z3.Int(core.fresh_name("tr"))
    inner = z3.simplify(valid_tree(k, tselect(st.heap[(cls, fld)], r), st.nref))
    if z3.is_true(inner):
        return []
    return [z3.ForAll([r], z3.Implies(z3.And(0 <= r, r < st.nref), inner))]


Engine.heap_typing = heap_typing


def new_engine(cset):
    e = Engine(cset)
    e.nonlocals = {}
    e.frame_func = {}
    e.frame_qual = {}
    e.captured = set()
    e.frame_func = {}
    e.frame_qual = {}
    e.captured = set()
    e.cur_key = None
    # contract-file level axioms (assumptions about uninterpreted formatters etc.), each a contract expression
    for text in getattr(cset.pymod, "AXIOMS", []):
        st0 = State()
        st0.frames[0] = ({}, None, cset.spec_mod)
        st0.cur = 0
        st0.nref = z3.Int("nref0")
        st0.pure = True
        e.axioms.append(e.eval_spec(text, st0, {}))
        e.assumptions_used.add("AXIOM: " + text)
    e.prune_solver = z3.Solver()
    # deterministic budget (z3 resource units, not wall clock) so that the set of explored paths -- and with it the
    # obligation names -- does not depend on machine load
    e.prune_solver.set("rlimit", 400000)
    return e


def param_cases(contract):
    """contract['params'] may give a list of kinds for a parameter: one verification run per combination"""
    pk = contract.get("params") or {}
    names = list(pk)
    alts = [pk[n] if isinstance(pk[n], (list, tuple)) else [pk[n]] for n in names]
    for combo in itertools.product(*alts):
        yield dict(zip(names, combo))


def initial_state(eng, key, contract, kinds):
    relpath, qual = key.split("::")
    if relpath == "lemma":
        # an obligation without code: parameters are universally quantified, `requires` are the hypotheses
        mod = eng.cset.spec_mod
        node = ast.parse("def %s(%s):\n    pass\n" % (qual, ", ".join(contract.get("params") or {}))).body[0]
    else:
        mod = src_module(relpath, eng.cset.root)
        node = mod.func(qual.split("~")[0])          # "path::func~variant": a second contract (other parameter domain) on the same function
    st = State()
    st.frames[0] = ({}, None, mod)
    st.cur = 0
    eng.frame_func[0] = (node, key)
    eng.frame_qual[0] = qual
    st.nref = z3.Int("nref0")
    st.pc.append(st.nref >= 0)
    for cls, c in eng.cset.classes.items():
        for fld, k in c["fields"].items():
            st.heap[(cls, fld)] = tmap(lambda s, n="H0.%s.%s" % (cls, fld): z3.Const(core.fresh_name(n), z3.ArraySort(core.I, s)),
                                       sort_tree(k))
    for cls, c in eng.cset.classes.items():
        for fld in c["fields"]:
            st.pc.extend(eng.heap_typing(st, cls, fld))
    # parameters
    a = node.args
    names = [p.arg for p in a.posonlyargs + a.args + a.kwonlyargs]
    if a.vararg or a.kwarg:
        if not contract.get("allow_varargs"):
            raise Unsupported("*args/**kwargs in a function under contract")
    cls_name = qual.split(".")[0] if "." in qual and mod.class_of(qual) is not None else None
    decs = [d.id if isinstance(d, ast.Name) else getattr(d, "attr", "") for d in node.decorator_list]
    # a nested function verified on its own: its free (closure) variables become extra symbolic parameters
    closure = contract.get("closure") or {}
    names = names + [n for n in closure if n not in names]
    kinds = dict(closure, **kinds)
    for i, name in enumerate(names):
        if name in kinds:
            ktxt = kinds[name]
        elif i == 0 and cls_name and "staticmethod" not in decs and name in ("self",):
            ktxt = "obj:" + cls_name
        elif i == 0 and cls_name and "classmethod" in decs:
            from .interp import ClassVal
            st = st.setvar(name, ClassVal(cls_name, mod))
            continue
        else:
            raise Unsupported("parameter %s of %s has no declared kind" % (name, key))
        if ktxt.startswith("const:"):
            st = st.setvar(name, eval(ktxt[6:], {}))     # a python literal fixed by the contract case
            continue
        if ktxt == "func":
            # a sibling nested function of the same enclosing function (closure kind): bound to its real definition, its own free
            # variables resolve to the closure parameters of this run
            from .interp import FuncVal
            sib_qual = ".".join(qual.split(".")[:-1] + [name])
            st = st.setvar(name, FuncVal(mod.func(sib_qual), 0, mod, sib_qual))
            continue
        k = parse_kind(ktxt)
        tree = tfresh(k, "p_" + name)
        v = SV(k, tree)
        st.pc.append(valid_tree(k, tree, st.nref))
        if k.tag == "obj" and k.extra in ("Graph", "DiGraph"):
            st.pc.extend(eng.nx_graph_wf(st, v))       # A-nx-graph: data-structure invariant of networkx graphs
        st = eng.bind(st, name, v)
    return st, mod, node


def check_shape(node, contract, key):
    loops = loops_of(node)
    for ordinal in (contract.get("loops") or {}):
        if ordinal > len(loops):
            raise ShapeMismatch("%s: contract mentions loop %d but the function has %d loops" % (key, ordinal, len(loops)))
    shape = contract.get("shape")
    if shape and "loops" in shape and shape["loops"] != len(loops):
        raise ShapeMismatch("%s: expected %d loops, found %d" % (key, shape["loops"], len(loops)))


def verify_function(eng, key, case_kinds=None, label_suffix=""):
    """symbolically execute the function against its contract; obligations accumulate in eng.obligations"""
    c = eng.cset.functions[key]
    qual = key.split("::")[1]
    # definitional axioms are scoped to the function under verification (they talk about that function's fresh symbols only);
    # without the scope, shared symbols such as the cardinality function would drag every other function's definitions into a query
    eng.__dict__.setdefault("def_marks", []).append(("%s/%s%s" % (eng.cset.property, qual, label_suffix), len(eng.defs)))
    eng.nonlocals = {}          # per-run state (frame ids restart at 0 for every function)
    st, mod, node = initial_state(eng, key, c, case_kinds or {})
    check_shape(node, c, key)
    eng.cur_key = key
    eng.ob_prefix = "%s/%s%s" % (eng.cset.property, qual, label_suffix)
    env = dict(st.frames[0][0])
    # requires
    for r in (c.get("requires") or []):
        st = st.assume(eng.eval_spec(r, st, {}))
    entry = st.copy()
    st.old = entry
    # cover: the precondition must be satisfiable (vacuity guard)
    eng.obligations.append(_cover(eng, "%s/cover:requires" % eng.ob_prefix, st.pc))
    # frame
    items = eng.eval_modifies(st, c.get("modifies") or [])
    st.modstack = ({"name": "function", "items": items, "nref": st.nref},)
    raises = c.get("raises") or {}
    nret = 0
    outs = eng.exec_block(strip_docstring(node.body), st)
    sink = []
    eng.raise_sink.append(sink)
    try:
        outs = list(outs)
    finally:
        eng.raise_sink.pop()
    outs += [("raise", s, exc) for exc, s in sink]
    canary_done = False
    for tag, s, payload in outs:
        if tag in ("next", "return") and not canary_done:
            # canary: `False` at the end of a path must NOT be provable (guards against contradictory assumptions,
            # inconsistent library axioms and unsound path conditions)
            from .interp import Obligation
            eng.obligations.append(Obligation("%s/canary:false-at-return" % eng.ob_prefix, "canary", s.pc, FALSE, s.trail,
                                              expect="sat"))
            canary_done = True
        if tag in ("next", "return"):
            nret += 1
            result = payload if tag == "return" else None
            rk = c.get("returns")
            if rk is not None and result is not None and not rk.startswith("py:"):
                kd = parse_kind(rk)
                result = eng.coerce(eng.materialize(result, kd) if not isinstance(result, tuple) else eng.tup_to_sv(result), kd,
                                    what="return value")
            # staged intermediate assertions (proved first, then available as facts): they only add consequences
            for i, cl in enumerate(c.get("hints") or []):
                g = eng.eval_spec(cl, s, {"result": result})
                eng.emit(s, "assert", "hint[%d]" % i, g)
                s = s.assume(g)
            for exc, cond in raises.items():
                g = eng.eval_spec("old(%s)" % cond, s, {"result": result})
                eng.emit(s, "post", "no-%s" % exc, z3.Not(g))
            for i, cl in enumerate(c.get("ensures") or []):
                g = eng.eval_spec(cl, s, {"result": result})
                eng.emit(s, "post", "ensures[%d]" % i, g)
            for i, cl in enumerate(c.get("ghost_ensures") or []):
                try:
                    g = eng.eval_spec(cl, s, {"result": result})
                except Unsupported as ex:
                    if "unresolved name" in str(ex):
                        continue      # the path returned before this ghost variable came into existence
                    raise
                eng.emit(s, "post", "ghost_ensures[%d]" % i, g)
        elif tag == "raise":
            if payload in raises:
                g = eng.eval_spec("old(%s)" % raises[payload], s, {})
                eng.emit(s, "raise", payload, g)
                for i, cl in enumerate(c.get("on_raise") or []):
                    eng.emit(s, "raise", "%s-on_raise[%d]" % (payload, i), eng.eval_spec(cl, s, {}))
            else:
                eng.emit(s, "defined", "no-%s" % payload, FALSE)
        else:
            raise Unsupported("%s escapes the function body" % tag)
    if not outs:
        raise Unsupported("%s: no feasible path reaches the end of the function (contradictory contract?)" % key)
    return nret


def _cover(eng, name, pc):
    from .interp import Obligation
    return Obligation(name, "cover", pc, FALSE, (), expect="sat")


# ============================================================================ discharge
def collect_symbols(e, cache):
    """names of uninterpreted symbols occurring in a z3 expression"""
    eid = e.get_id()
    if eid in cache:
        return cache[eid][1]
    out = set()
    stack = [e]
    seen = set()
    while stack:
        t = stack.pop()
        tid = t.get_id()
        if tid in seen:
            continue
        seen.add(tid)
        if z3.is_quantifier(t):
            stack.append(t.body())
            continue
        if z3.is_app(t):
            d = t.decl()
            if d.kind() == z3.Z3_OP_UNINTERPRETED:
                out.add(d.name())
            stack.extend(t.children())
    cache[eid] = (e, out)      # keep the term alive: z3 ids are only unique among live terms
    return out


def _quantifier_free(e, cache):
    key = ("qf", e.get_id())
    if key in cache:
        return cache[key][1]
    ok = True
    stack, seen = [e], set()
    while stack:
        t = stack.pop()
        if t.get_id() in seen:
            continue
        seen.add(t.get_id())
        if z3.is_quantifier(t):
            ok = False
            break
        if z3.is_app(t):
            stack.extend(t.children())
    cache[key] = (e, ok)
    return ok


def _alternates(e, cache):
    key = ("alt", e.get_id())
    if key in cache:
        return cache[key][1]
    found = False
    stack = [(e, None)]
    seen = set()
    while stack and not found:
        t, outer = stack.pop()
        if (t.get_id(), outer) in seen:
            continue
        seen.add((t.get_id(), outer))
        if z3.is_quantifier(t):
            kind = "A" if t.is_forall() else "E"
            if outer is not None and outer != kind:
                found = True
                break
            stack.append((t.body(), kind))
        elif z3.is_app(t):
            stack.extend((c, outer) for c in t.children())
    cache[key] = (e, found)
    return found


class Discharger:
    def __init__(self, eng, workdir=None, timeout_s=20, jobs=12, solvers=None, prefer=None):
        self.eng = eng
        # obligation name -> strategy that discharged it on the recorded baseline run ("z3old", "cvc5/slice1", ...): tried first.
        # Only an ordering hint: whatever it says, an obligation counts as discharged only when a solver answers unsat now
        self.prefer = prefer or {}
        self.timeout_s = timeout_s
        self.jobs = jobs
        self.workdir = workdir or tempfile.mkdtemp(prefix="pyvc_")
        self.solvers = solvers or ["z3new", "cvc5", "z3old"]
        self.cache = {}
        self._bg = None

    def background(self, prefix=None):
        """global axioms + the definitions made while the function `prefix` was being verified"""
        if self._bg is None:
            self._bg = {}
            self._str = [(a, collect_symbols(a, self.cache)) for a in STRINGS.axioms()]
        if prefix not in self._bg:
            defs = list(self.eng.defs)
            marks = list(getattr(self.eng, "def_marks", []))
            if not marks or prefix is None:
                chosen = defs
            else:
                chosen = defs[:marks[0][1]]                     # made before any function (contract-file AXIOMS)
                found = False
                for k, (name, start) in enumerate(marks):
                    end = marks[k + 1][1] if k + 1 < len(marks) else len(defs)
                    if name == prefix:
                        chosen = chosen + defs[start:end]
                        found = True
                if not found:
                    chosen = defs
            bg = list(self.eng.axioms) + chosen
            self._bg[prefix] = [(a, collect_symbols(a, self.cache)) for a in bg]
        return self._bg[prefix]

    def smt2(self, ob, depth=None):
        s = z3.Solver()
        forms = list(ob.pc) + [z3.Not(ob.goal)]
        if depth == "focus":
            # the named asserts plus every quantifier-free hypothesis (bounds of loop indices, branch conditions, equations between locals)
            # ... that talks only about symbols of the goal and the named asserts
            S0 = set(collect_symbols(ob.goal, self.cache))
            for g in ob.focus:
                S0 |= collect_symbols(g, self.cache)
            forms = list(ob.focus) + [f for f in ob.pc if _quantifier_free(f, self.cache) and collect_symbols(f, self.cache) <= S0
                                      and not any(f.eq(g) for g in ob.focus)] + [z3.Not(ob.goal)]
        elif depth == "sub":
            # the hypotheses that talk about nothing but what the goal talks about
            def link0(f):
                return {x for x in collect_symbols(f, self.cache) if not x.startswith("nref")}
            S0 = link0(ob.goal)
            forms = [f for f in ob.pc if link0(f) <= S0] + [z3.Not(ob.goal)]
        elif depth == "ae":
            # drop the hypotheses with a quantifier alternation (an exists under a forall, or the reverse): they are the usual source of
            # runaway instantiation; sound for the same reason as the depth slices
            forms = [f for f in ob.pc if not _alternates(f, self.cache)] + [z3.Not(ob.goal)]
        elif depth is not None:
            # hypothesis slicing (sound: dropping hypotheses can only make the refutation harder): keep the hypotheses within `depth`
            # rounds of shared symbols from the goal; allocation counters connect everything and do not count as a link
            def link(f):
                return {x for x in collect_symbols(f, self.cache) if not x.startswith("nref")}
            S = link(ob.goal)
            keep, rest = [], [(f, link(f)) for f in ob.pc]
            for _ in range(depth):
                new = [(f, fs) for f, fs in rest if fs & S]
                if not new:
                    break
                rest = [(f, fs) for f, fs in rest if not (fs & S)]
                keep.extend(f for f, _ in new)
                for _, fs in new:
                    S |= fs
            forms = keep + [z3.Not(ob.goal)]
        syms = set()
        for f in forms:
            syms |= collect_symbols(f, self.cache)
        prefix = None
        parts = ob.name.split("/")
        if len(parts) >= 3:
            prefix = "/".join(parts[:2])
        bg = self.background(prefix)
        used = []
        changed = True
        pool = list(bg)
        while changed:
            changed = False
            rest = []
            for a, asy in pool:
                # a definitional axiom is relevant when one of the FRESH symbols it constrains (names carrying '!') occurs in the
                # query; shared global functions (cardinality, string order, ...) alone do not make it relevant
                fresh = {x for x in asy if "!" in x}
                # ... and among the fresh symbols those the axiom DEFINES (created between the previous definition and this one),
                # when that can be told: an axiom such as n == card(nodes(G)) defines n, it does not define nodes(G)
                r = getattr(self.eng, "def_range", {}).get(a.get_id())
                if r is not None and fresh:
                    lo, hi = r[0], r[1]
                    own = set()
                    for x in fresh:
                        try:
                            k = int(x.rsplit("!", 1)[1])
                        except ValueError:
                            continue
                        if lo < k <= hi:
                            own.add(x)
                    if own:
                        fresh = own
                if (fresh & syms) if fresh else (asy & syms):
                    used.append(a)
                    if not asy <= syms:
                        syms |= asy
                        changed = True
                else:
                    rest.append((a, asy))
            pool = rest
        if "str_le" in syms:
            used.extend(a for a, _ in self._str)
        for a in used:
            s.add(a)
        for f in forms:
            s.add(f)
        return s.to_smt2()

    def run_solver(self, which, path, timeout_s):
        """budgets are CPU seconds of the solver process (RLIMIT_CPU), so that a verdict does not flip when the other cores are
        busy; the wall-clock limits are only a generous safety net"""
        wall = timeout_s * 6 + 30
        if which == "z3new":
            cmd = ["z3-new", "-T:%d" % wall, path]
        elif which == "z3old":
            cmd = ["/usr/bin/z3", "-T:%d" % wall, path]
        elif which == "cvc5":
            cmd = ["/usr/bin/cvc5", "--tlimit=%d" % (wall * 1000), "--enum-inst", path]
        else:
            raise ValueError(which)

        def limit_cpu():
            import resource
            resource.setrlimit(resource.RLIMIT_CPU, (int(timeout_s), int(timeout_s) + 2))
        t0 = time.time()
        try:
            p = subprocess.run(cmd, capture_output=True, text=True, timeout=wall + 10, preexec_fn=limit_cpu)
            out = (p.stdout or "").strip().splitlines()
            res = out[0].strip() if out else "unknown"
            if res not in ("sat", "unsat", "unknown"):
                res = "unknown" if (p.returncode < 0 or "timeout" in (p.stdout + p.stderr)) else "error:" + (p.stdout + p.stderr)[:200]
        except subprocess.TimeoutExpired:
            res = "unknown"
        return res, time.time() - t0

    def prepare(self, ob):
        try:
            g = z3.simplify(ob.goal)
        except Exception:
            g = ob.goal
        if ob.expect == "unsat" and z3.is_true(g):
            return (ob, None)
        if ob.expect == "unsat" and any(ob.goal.eq(f) for f in ob.pc):
            return (ob, None)          # the goal is literally one of the hypotheses (e.g. an invariant restated as the last staged assert)
        text = self.smt2(ob)
        h = hashlib.sha1((ob.name + text).encode()).hexdigest()[:16]
        path = os.path.join(self.workdir, "%s.smt2" % h)
        with open(path, "w") as fh:
            fh.write(text)
        pref = self.prefer.get(ob.name)
        if pref and ob.expect == "unsat":
            which, _, d = pref.partition("/slice")
            ppath = path
            if d and not (d == "focus" and not getattr(ob, "focus", None)):
                depth = int(d) if d.isdigit() else d
                ppath = os.path.join(self.workdir, "%s.p%s.smt2" % (h, d))
                with open(ppath, "w") as fh:
                    fh.write(self.smt2(ob, depth=depth))
            if which in self.solvers:
                ob._pref = (which, ppath, pref)
        return (ob, path)

    def solve(self, item):
        ob, path = item
        t0 = time.time()
        if path is not None and getattr(ob, "_pref", None):
            which, ppath, pref = ob._pref
            res, dt = self.run_solver(which, ppath, self.timeout_s)
            if res == "unsat":
                return dict(name=ob.name, kind=ob.kind, status="discharged", by=pref, time=round(time.time() - t0, 3),
                            tried={"%s@%ds(first)" % (pref, self.timeout_s): (res, round(dt, 3))}, file=path, trail=list(ob.trail)[-12:])
        if path is None:
            return dict(name=ob.name, kind=ob.kind, status="discharged", by="syntactic", time=0.0, tried={}, file=None,
                        trail=list(ob.trail)[-12:])
        tried = {}
        status, by = "undischarged", None
        if ob.expect == "sat":
            # cover: must NOT be refutable. sat or unknown both count as "not vacuous"; unsat is a broken contract
            res, dt = self.run_solver("z3new", path, min(self.timeout_s, 5))
            tried["z3new"] = (res, round(dt, 3))
            status = "vacuous" if res == "unsat" else "covered"
            by = "z3new"
        else:
            # staged portfolio: short budgets first (most obligations take milliseconds), full budget afterwards
            T = self.timeout_s
            schedule = [("z3new", max(2, T // 5)), ("cvc5", max(3, T // 2)), ("z3new", T), ("cvc5", T), ("z3old", T)]
            if getattr(self, "single_stage", False):
                schedule = [("z3new", T), ("cvc5", T)]
            schedule = [(w, t) for w, t in schedule if w in self.solvers]
            for which, budget in schedule:
                res, dt = self.run_solver(which, path, budget)
                tried["%s@%ds" % (which, budget)] = (res, round(dt, 3))
                if res == "unsat":
                    status, by = "discharged", which
                    break
                if res == "sat":
                    status, by = "refuted", which
                    break
        return dict(name=ob.name, kind=ob.kind, status=status, by=by, time=round(time.time() - t0, 3), tried=tried,
                    file=path, trail=list(ob.trail)[-12:])

    def discharge_all(self, obs):
        items = [self.prepare(ob) for ob in obs]          # z3py is not thread-safe: SMT text is produced serially
        with concurrent.futures.ThreadPoolExecutor(max_workers=self.jobs) as ex:
            results = list(ex.map(self.solve, items))
        # second pass for what every solver left open: the same obligation with sliced hypotheses (depth 1, then 2).  The full
        # queries carry every heap-typing and frame fact of the path; on some of them all solvers wander although a handful of
        # hypotheses suffices, and which ones is a matter of solver luck -- the sliced query removes the luck
        for depth in (() if getattr(self, "no_slices", False) else ("focus", "sub", 1, 2, "ae")):
            todo = [k for k, r in enumerate(results) if r["status"] == "undischarged" and items[k][0].expect != "sat"
                    and (depth != "focus" or getattr(items[k][0], "focus", None))]
            if not todo:
                continue          # (not `break`: the first variant applies only to obligations with a `using` list)
            sliced = []
            for k in todo:
                ob = items[k][0]
                text = self.smt2(ob, depth=depth)
                h = hashlib.sha1((ob.name + text).encode()).hexdigest()[:16]
                path = os.path.join(self.workdir, "%s.s%s.smt2" % (h, depth))
                with open(path, "w") as fh:
                    fh.write(text)
                sliced.append((k, path))

            def solve_sliced(kp):
                k, path = kp
                T = self.timeout_s
                for which, budget in (("z3new", max(2, T // 2)), ("cvc5", max(3, T // 2)), ("z3old", max(2, T // 2))):
                    if which not in self.solvers:
                        continue
                    res, dt = self.run_solver(which, path, budget)
                    results[k]["tried"]["%s/slice%s@%ds" % (which, depth, budget)] = (res, round(dt, 3))
                    results[k]["time"] = round(results[k]["time"] + dt, 3)
                    if res == "unsat":
                        results[k]["status"], results[k]["by"] = "discharged", "%s/slice%s" % (which, depth)
                        return
            with concurrent.futures.ThreadPoolExecutor(max_workers=self.jobs) as ex:
                list(ex.map(solve_sliced, sliced))
        return results
