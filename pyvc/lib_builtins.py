"""pyvc.lib_builtins -- assumed contracts (A-builtins) on Python builtins and container methods,
plus the specification builtins (forall / exists / implies / old / ...)."""
from __future__ import annotations

import ast

import z3

from . import core
from .core import (ANY, BOOL, DICT, INT, LIST, OBJ, OPT, REAL, SET, STR, TUP, Kind, Val, STRINGS,
                   keysort, to_key, from_key, tselect, tstore, tite, teq, tfresh, tmap, default_tree, sort_tree,
                   parse_kind)
from .source import Unsupported

TRUE, FALSE = z3.BoolVal(True), z3.BoolVal(False)


def install(I):
    from .interp import BuiltinVal, SV, ViewVal, IterSpec, ClassVal
    from .interp2 import CompVal

    def reg(name):
        def deco(fn):
            I.lib[name] = BuiltinVal(name, fn)
            return fn
        return deco

    def one(v, st):
        yield v, st

    # ---------------------------------------------------------------- spec builtins
    def quant(I, st, args, is_all):
        dom, lam = args[0], args[1]
        node = lam.node
        names = [a.arg for a in node.args.args]
        s2, fid = st.push_frame(lam.frame, lam.mod)
        s2.pure = True
        guards, vars_ = [], []
        if len(names) > 1 and not isinstance(dom, (tuple, str)):
            # one domain yielding tuples, several lambda parameters: (u, v) over G.edges / items()
            spec = I.to_iterspec(st, dom)
            if spec.mode != "set":
                raise Unsupported("multi-variable quantifier over a non-set domain")
            x = z3.Const(core.fresh_name("q_" + "_".join(names)), keysort(spec.ekind))
            elem = spec.elem(x, st)
            if type(elem).__name__ == "UPair":
                elem = (elem.u, elem.v)
            items = list(elem) if isinstance(elem, tuple) else I.concrete_items(elem)
            if len(items) != len(names):
                raise Unsupported("quantifier: %d names for %d components" % (len(names), len(items)))
            for nm, it in zip(names, items):
                s2 = I.bind(s2, nm, it)
            b, = I.under_binder([x], lambda: [I.truthy(I.eval1(node.body, s2)[0])])
            g = z3.Select(spec.mem, x)
            return z3.ForAll([x], z3.Implies(g, b)) if is_all else z3.Exists([x], z3.And(g, b))
        doms = dom if isinstance(dom, tuple) and len(names) > 1 else (dom,) * len(names) if len(names) > 1 and not isinstance(dom, tuple) else (dom,)
        if len(doms) != len(names):
            raise Unsupported("forall: %d domains for %d variables" % (len(doms), len(names)))
        for name, d in zip(names, doms):
            if isinstance(d, str):
                k = parse_kind(d)
                x = z3.Const(core.fresh_name("q_" + name), keysort(k))
                val = SV(k, from_key(k, x))
                if k.tag == "obj":
                    guards.append(z3.And(x >= 0, x < st.nref))
            elif isinstance(d, ViewVal) and d.what == "keys":
                kk = d.dsv.kind.args[0]
                x = z3.Const(core.fresh_name("q_" + name), keysort(kk))
                val = SV(kk, from_key(kk, x))
                guards.append(z3.Select(d.dsv.tree[0], x))
            elif isinstance(d, SV) and d.kind.tag in ("set", "dict"):
                kk = d.kind.args[0]
                x = z3.Const(core.fresh_name("q_" + name), keysort(kk))
                val = SV(kk, from_key(kk, x))
                guards.append(z3.Select(d.tree if d.kind.tag == "set" else d.tree[0], x))
            elif isinstance(d, SV) and d.kind.tag == "list":
                # quantify over positions; the variable is bound to the element
                x = z3.Int(core.fresh_name("q_" + name))
                val = SV(d.kind.args[0], tselect(d.tree[1], x))
                guards.append(z3.And(0 <= x, x < d.tree[0]))
            elif isinstance(d, IterSpec) and d.mode == "seq":
                x = z3.Int(core.fresh_name("q_" + name))
                val = d.elt(x)
                guards.append(z3.And(0 <= x, x < d.length))
            elif isinstance(d, (tuple, list)) or (isinstance(d, IterSpec) and d.mode == "concrete"):
                items = d.items if isinstance(d, IterSpec) else list(d)
                parts = []
                for it in items:
                    s3 = I.bind(s2, name, it)
                    v, _ = I.eval1(node.body, s3)
                    parts.append(I.truthy(v))
                if len(names) != 1:
                    raise Unsupported("concrete domain with several variables")
                return (z3.And(*parts) if parts else TRUE) if is_all else (z3.Or(*parts) if parts else FALSE)
            else:
                try:
                    spec = I.to_iterspec(st, d)
                except Unsupported:
                    raise Unsupported("quantifier domain %r" % (d,))
                if spec.mode == "set":
                    x = z3.Const(core.fresh_name("q_" + name), keysort(spec.ekind))
                    val = spec.elem(x, st)
                    guards.append(z3.Select(spec.mem, x))
                elif spec.mode == "seq":
                    x = z3.Int(core.fresh_name("q_" + name))
                    val = spec.elt(x)
                    guards.append(z3.And(0 <= x, x < spec.length))
                else:
                    raise Unsupported("quantifier domain %r" % (d,))
            vars_.append(x)
            s2 = I.bind(s2, name, val)
        b, = I.under_binder(vars_, lambda: [I.truthy(I.eval1(node.body, s2)[0])])
        g = z3.And(*guards) if guards else TRUE
        if is_all:
            return z3.ForAll(vars_, z3.Implies(g, b))
        return z3.Exists(vars_, z3.And(g, b))

    @reg("forall")
    def _forall(I, st, args, kw):
        yield SV(BOOL, quant(I, st, args, True)), st

    @reg("exists")
    def _exists(I, st, args, kw):
        yield SV(BOOL, quant(I, st, args, False)), st

    @reg("exists_w")
    def _exists_w(I, st, args, kw):
        """exists(dom, f) with a ghost witness hint (a contract-expression string).  Symbolically the witness is
        substituted (no existential left for the solver); natively (pyvc.rt) it is a plain `exists`."""
        dom, lam, hint = args[0], args[1], args[2]
        try:
            w = I.eval_spec_value(hint, st, {})
        except Unsupported:
            yield SV(BOOL, quant(I, st, [dom, lam], False)), st
            return
        inside = I.contains(st, dom, w)
        outs = list(I.call_lambda(st, lam, [w], {}))
        yield SV(BOOL, z3.And(inside, I.truthy(outs[0][0]))), st

    @reg("implies")
    def _implies(I, st, args, kw):
        yield SV(BOOL, z3.Implies(I.truthy(args[0]), I.truthy(args[1]))), st

    @reg("iff")
    def _iff(I, st, args, kw):
        yield SV(BOOL, I.truthy(args[0]) == I.truthy(args[1])), st

    @reg("ite")
    def _ite(I, st, args, kw):
        yield I.ite(I.truthy(args[0]), args[1], args[2]), st

    @reg("keys")
    def _keys(I, st, args, kw):
        d = args[0]
        if isinstance(d, dict) and not d:
            yield set(), st
            return
        if isinstance(d, SV) and d.kind.tag == "dict":
            yield SV(SET(d.kind.args[0]), d.tree[0]), st
            return
        if isinstance(d, SV) and d.kind.tag == "set":
            yield d, st
            return
        raise Unsupported("keys(%r)" % (d,))

    @reg("same")
    def _same(I, st, args, kw):
        """structural equality of two values of the same kind (extensional on containers)"""
        a, b = args
        a = I.tup_to_sv(a) if not isinstance(a, SV) else a
        b = I.tup_to_sv(b) if not isinstance(b, SV) else b
        if a.kind != b.kind:
            b = I.coerce(b, a.kind)
        yield SV(BOOL, teq(a.tree, b.tree)), st

    @reg("is_fresh")
    def _is_fresh(I, st, args, kw):
        """object allocated during the call (ref >= allocation pointer at entry)"""
        o = args[0]
        old = st.old[0] if isinstance(st.old, tuple) else st.old
        yield SV(BOOL, o.tree >= old.nref), st

    @reg("normalized")
    def _normalized(I, st, args, kw):
        """spec-only: a tuple of scalars (symbolic length) carries the default value beyond its length -- the representation
        invariant that makes 'same key' coincide with 'same length and same components' (every value produced by tuple(list) has it)"""
        v = args[0]
        if not (isinstance(v, SV) and v.kind.tag == "list") or isinstance(v.tree[1], tuple):
            yield True, st
            return
        ek = v.kind.args[0]
        i = z3.Int(core.fresh_name("ni"))
        dflt = z3.BoolVal(False) if ek.tag == "bool" else z3.IntVal(0)
        yield SV(BOOL, z3.ForAll([i], z3.Implies(z3.Or(i < 0, i >= v.tree[0]), z3.Select(v.tree[1], i) == dflt))), st

    @reg("allocated")
    def _allocated(I, st, args, kw):
        o = args[0]
        yield SV(BOOL, z3.And(o.tree >= 0, o.tree < st.nref)), st

    @reg("is_none")
    def _is_none(I, st, args, kw):
        yield SV(BOOL, I.is_same(args[0], None)), st

    @reg("truthy")
    def _truthy(I, st, args, kw):
        yield SV(BOOL, I.truthy(args[0])), st

    # ---------------------------------------------------------------- python builtins
    @reg("len")
    def _len(I, st, args, kw):
        v = args[0]
        if isinstance(v, ViewVal):
            v = v.dsv
        if isinstance(v, (tuple, list, str, dict, set)) and not isinstance(v, SV):
            yield len(v), st
            return
        if isinstance(v, I.EmptyLit):
            yield 0, st
            return
        if isinstance(v, SV):
            t = v.kind.tag
            if t == "list":
                yield SV(INT, v.tree[0]), st
                return
            if t == "tuple":
                yield len(v.kind.args), st
                return
            if t in ("set", "dict"):
                arr = v.tree if t == "set" else v.tree[0]
                yield SV(INT, I.card(arr)), st
                return
            if t == "any":
                # len() of a tuple stored as a scalar Val: explicit unfolding up to 8 components (longer tuples are
                # outside the model: assumption A-tuplen)
                I.assumptions_used.add("A-tuplen: tuples stored as attribute values have at most 8 components")
                items = Val.items(v.tree)
                term = z3.IntVal(9)
                lst = items
                chain = []
                for n in range(0, 9):
                    chain.append((lst == core.VList.Nil, n))
                    lst = core.VList.tl(lst)
                for cond, n in reversed(chain):
                    term = z3.If(cond, z3.IntVal(n), term)
                ok = Val.is_VTup(v.tree)
                if st.pure:
                    yield SV(INT, term), st
                    return
                for _, s in I.partial(st, ok, "TypeError", None):
                    yield SV(INT, term), s
                return
            if t == "obj":
                fv = I.getattr(st, v, "__len__")
                yield from I.call(st, fv, [], {})
                return
            if t == "str":
                f = I.ufunc("str_len", core.I, core.I)
                yield SV(INT, f(v.tree)), st
                return
            if t == "opt":
                for _, s in I.partial(st, z3.Not(v.tree[0]), "TypeError", None):
                    yield from _len(I, s, [SV(v.kind.args[0], v.tree[1])], kw)
                return
        raise Unsupported("len(%r)" % (v,))

    def card(arr):
        srt = arr.sort()
        name = "card_%s" % str(srt.domain()).replace(" ", "")
        f = I.ufunc(name, srt, core.I)
        if name not in I._card_ax:
            I._card_ax.add(name)
            a = z3.Const("ca_" + name, srt)
            x = z3.Const("cx_" + name, srt.domain())
            empty = z3.K(srt.domain(), FALSE)
            I.axioms.extend([
                z3.ForAll([a], f(a) >= 0),
                f(empty) == 0,
                z3.ForAll([a], (f(a) == 0) == (a == empty)),
                z3.ForAll([a, x], f(z3.Store(a, x, TRUE)) == f(a) + z3.If(z3.Select(a, x), 0, 1)),
                z3.ForAll([a, x], f(z3.Store(a, x, FALSE)) == f(a) - z3.If(z3.Select(a, x), 1, 0)),
            ])
        return f(arr)
    I._card_ax = set()
    I.card = card

    @reg("isinstance")
    def _isinstance(I, st, args, kw):
        v, ty = args
        yield I.isinstance_check(st, v, ty), st

    def type_names(ty):
        if isinstance(ty, tuple):
            out = []
            for t in ty:
                out.extend(type_names(t))
            return out
        if isinstance(ty, ClassVal):
            return [ty.name]
        if isinstance(ty, BuiltinVal):
            return [ty.name]
        from .interp import ModuleVal
        if isinstance(ty, ModuleVal):
            return [ty.dotted.split(".")[-1]]
        raise Unsupported("isinstance type %r" % (ty,))

    def isinstance_check(st, v, ty):
        names = type_names(ty)
        def conc(val):
            pyt = {"int": int, "float": float, "str": str, "tuple": tuple, "list": list, "dict": dict, "set": set,
                   "bool": bool}
            for n in names:
                if n in pyt and isinstance(val, pyt[n]):
                    return True
                if n in ("Mapping", "MutableMapping") and isinstance(val, dict):
                    return True
                if n in ("Iterable",) and isinstance(val, (list, tuple, set, dict, str)):
                    return True
                if n == "Number" and isinstance(val, (int, float)):
                    return True
            return False
        if isinstance(v, I.EmptyLit):
            return conc(v.typ())
        if isinstance(v, I.StaticDict):
            return any(n in ("dict", "Mapping") for n in names)
        if not isinstance(v, SV):
            return conc(v)
        t = v.kind.tag
        res = []
        for n in names:
            if t == "obj":
                res.append(TRUE if v.kind.extra == n or (n in ("Graph",) and v.kind.extra in ("Graph", "DiGraph")) else FALSE)
            elif t == "any":
                x = v.tree
                m = {"int": z3.Or(Val.is_VInt(x), Val.is_VBool(x)), "float": Val.is_VReal(x), "str": Val.is_VStr(x),
                     "tuple": Val.is_VTup(x), "bool": Val.is_VBool(x), "Number": core.is_num(x), "Real": core.is_num(x),
                     "Integral": z3.Or(Val.is_VInt(x), Val.is_VBool(x))}
                if n in m:
                    res.append(m[n])
                elif n in ("Graph", "DiGraph") and n in I.cset.classes:
                    res.append(Val.is_VRef(x))     # the only objects stored in `any` slots of these records are graphs
                elif n in ("list", "dict", "set", "Mapping", "frozenset") or n in I.cset.classes:
                    res.append(FALSE)
                else:
                    raise Unsupported("isinstance(any, %s)" % n)
            elif t == "opt":
                inner = isinstance_check(st, SV(v.kind.args[0], v.tree[1]), ty)
                inner = inner if not isinstance(inner, bool) else z3.BoolVal(inner)
                return SV(BOOL, z3.And(z3.Not(v.tree[0]), inner.tree if isinstance(inner, SV) else inner))
            else:
                table = {"int": ("int", "bool"), "float": ("real",), "str": ("str",), "tuple": ("tuple",),
                         "list": ("list",), "dict": ("dict",), "set": ("set",), "bool": ("bool",),
                         "Mapping": ("dict",), "MutableMapping": ("dict",), "Iterable": ("list", "set", "dict", "tuple", "str"),
                         "Number": ("int", "real", "bool"), "Sequence": ("list", "tuple", "str"), "frozenset": ()}
                res.append(TRUE if t in table.get(n, ()) else FALSE)
        r = z3.simplify(z3.Or(*res))
        if z3.is_true(r):
            return True
        if z3.is_false(r):
            return False
        return SV(BOOL, r)
    I.isinstance_check = isinstance_check

    for tname in ("int", "float", "str", "tuple", "list", "dict", "set", "bool", "frozenset"):
        pass  # registered below as callables that double as isinstance type names

    @reg("Mapping")
    def _Mapping(I, st, args, kw):
        raise Unsupported("Mapping() call")
    I.lib["MutableMapping"] = BuiltinVal("MutableMapping", _Mapping)
    I.lib["Iterable"] = BuiltinVal("Iterable", _Mapping)
    I.lib["Sequence"] = BuiltinVal("Sequence", _Mapping)
    I.lib["Number"] = BuiltinVal("Number", _Mapping)
    for exc in ("KeyError", "ValueError", "TypeError", "RuntimeError", "Exception", "NotImplementedError", "IndexError",
                "StopIteration", "AttributeError", "ImportError", "ZeroDivisionError", "AssertionError"):
        I.lib[exc] = ClassVal(exc, None)

    @reg("str")
    def _str(I, st, args, kw):
        if not args:
            yield "", st
            return
        v = args[0]
        if not isinstance(v, SV):
            if isinstance(v, (int, float, str, bool)) or v is None:
                yield str(v), st
                return
            v = I.tup_to_sv(v)
        if v.kind.tag == "str":
            yield v, st
            return
        # str() of a non-string scalar: injective uninterpreted rendering (A-fmt)
        f = I.ufunc("str_of", Val, core.I)
        I.assumptions_used.add("A-fmt: str() of scalars is an uninterpreted function")
        x = I.as_any(v)
        yield SV(STR, z3.If(Val.is_VStr(x), Val.s(x), f(x))), st

    @reg("repr")
    def _repr(I, st, args, kw):
        f = I.ufunc("repr_of", Val, core.I)
        yield SV(STR, f(I.as_any(I.tup_to_sv(args[0])))), st

    @reg("int")
    def _int(I, st, args, kw):
        v = args[0] if args else 0
        if not isinstance(v, SV):
            if isinstance(v, (int, float, bool)):
                yield int(v), st
                return
            if isinstance(v, str):
                try:
                    yield int(v), st
                except ValueError:
                    yield from I.raise_exc(st, "ValueError")
                return
            v = I.tup_to_sv(v)
        t = v.kind.tag
        if t in ("int", "bool"):
            yield I.coerce(v, INT), st
            return
        if t == "real":
            # truncation toward zero
            r = v.tree
            yield SV(INT, z3.If(r >= 0, z3.ToInt(r), -z3.ToInt(-r))), st
            return
        if t == "any":
            x = v.tree
            ok = core.is_num(x)
            r = core.num_of(x)
            val = SV(INT, z3.If(z3.Or(Val.is_VInt(x), Val.is_VBool(x)), core.int_of(x), z3.If(r >= 0, z3.ToInt(r), -z3.ToInt(-r))))
            # strings that parse are not modelled: int("12") on a symbolic string is a ValueError-or-value fork
            is_str = Val.is_VStr(x)
            if st.pure:
                # specification context: one total value (no exception paths, no forks)
                pv0 = I.ufunc("str_int_value", core.I, core.I)(Val.s(x))
                yield SV(INT, z3.If(is_str, pv0, val.tree)), st
                return
            for _, s in I.partial(st, z3.Or(ok, is_str), "TypeError", None):
                if I.feasible(s, is_str):
                    sv = s.assume(is_str)
                    p = I.ufunc("str_parses_int", core.I, core.B)(Val.s(x))
                    pv = I.ufunc("str_int_value", core.I, core.I)(Val.s(x))
                    for _, s3 in I.partial(sv, p, "ValueError", None):
                        yield SV(INT, pv), s3
                if I.feasible(s, ok):
                    yield val, s.assume(ok)
            return
        if t == "str":
            p = I.ufunc("str_parses_int", core.I, core.B)(v.tree)
            pv = I.ufunc("str_int_value", core.I, core.I)(v.tree)
            for _, s3 in I.partial(st, p, "ValueError", None):
                yield SV(INT, pv), s3
            return
        if t == "opt":
            for _, s in I.partial(st, z3.Not(v.tree[0]), "TypeError", None):
                yield from _int(I, s, [SV(v.kind.args[0], v.tree[1])], kw)
            return
        raise Unsupported("int(%r)" % (v.kind,))

    @reg("float")
    def _float(I, st, args, kw):
        v = args[0] if args else 0.0
        if not isinstance(v, SV):
            if isinstance(v, (int, float, bool)):
                yield float(v), st
                return
            if isinstance(v, str):
                try:
                    yield float(v), st
                except ValueError:
                    yield from I.raise_exc(st, "ValueError")
                return
            v = I.tup_to_sv(v)
        t = v.kind.tag
        if t in ("int", "bool", "real"):
            yield I.coerce(v, REAL), st
            return
        if t == "any":
            x = v.tree
            ok = core.is_num(x)
            is_str = Val.is_VStr(x)
            if st.pure:
                # specification context: one total value (no exception paths, no forks), as for int()
                pv0 = I.ufunc("str_float_value", core.I, core.R)(Val.s(x))
                yield SV(REAL, z3.If(is_str, pv0, core.num_of(x))), st
                return
            for _, s in I.partial(st, z3.Or(ok, is_str), "TypeError", None):
                if I.feasible(s, is_str):
                    sv = s.assume(is_str)
                    p = I.ufunc("str_parses_float", core.I, core.B)(Val.s(x))
                    pv = I.ufunc("str_float_value", core.I, core.R)(Val.s(x))
                    for _, s3 in I.partial(sv, p, "ValueError", None):
                        yield SV(REAL, pv), s3
                if I.feasible(s, ok):
                    yield SV(REAL, core.num_of(x)), s.assume(ok)
            return
        if t == "opt":
            for _, s in I.partial(st, z3.Not(v.tree[0]), "TypeError", None):
                yield from _float(I, s, [SV(v.kind.args[0], v.tree[1])], kw)
            return
        raise Unsupported("float(%r)" % (v.kind,))

    @reg("float_or_none")
    def _float_or_none(I, st, args, kw):
        """spec builtin: float(v) if that succeeds else None (same abstraction of string parsing as the model of float())"""
        v = I.tup_to_sv(args[0]) if not isinstance(args[0], SV) else args[0]
        x = I.as_any(v)
        is_str = Val.is_VStr(x)
        p = I.ufunc("str_parses_float", core.I, core.B)(Val.s(x))
        pv = I.ufunc("str_float_value", core.I, core.R)(Val.s(x))
        ok = z3.Or(core.is_num(x), z3.And(is_str, p))
        yield SV(OPT(REAL), (z3.Not(ok), z3.If(is_str, pv, core.num_of(x)))), st

    @reg("bool")
    def _bool(I, st, args, kw):
        t = z3.simplify(I.truthy(args[0]) if args else FALSE)
        yield (True if z3.is_true(t) else False if z3.is_false(t) else SV(BOOL, t)), st

    @reg("abs")
    def _abs(I, st, args, kw):
        v = args[0]
        if not isinstance(v, SV):
            yield abs(v), st
            return
        if v.kind.tag in ("int", "real"):
            yield SV(v.kind, z3.If(v.tree >= 0, v.tree, -v.tree)), st
            return
        if v.kind.tag == "any":
            x = v.tree
            r = core.num_of(x)
            yield SV(ANY, z3.If(z3.Or(Val.is_VInt(x), Val.is_VBool(x)),
                                Val.VInt(z3.If(core.int_of(x) >= 0, core.int_of(x), -core.int_of(x))),
                                Val.VReal(z3.If(r >= 0, r, -r)))), st
            return
        raise Unsupported("abs(%r)" % (v.kind,))

    @reg("round")
    def _round(I, st, args, kw):
        v = args[0]
        if len(args) > 1 or kw:
            raise Unsupported("round with ndigits")
        if not isinstance(v, SV):
            yield round(v), st
            return
        r = I.coerce(v, REAL).tree if v.kind.tag != "any" else core.num_of(v.tree)
        fl = z3.ToInt(r)
        frac = r - z3.ToReal(fl)
        half_even = z3.If(fl % 2 == 0, fl, fl + 1)
        yield SV(INT, z3.If(frac < z3.RealVal("1/2"), fl, z3.If(frac > z3.RealVal("1/2"), fl + 1, half_even))), st

    @reg("tuple")
    def _tuple(I, st, args, kw):
        if not args:
            yield (), st
            return
        v = args[0]
        if isinstance(v, (tuple, list)):
            yield tuple(v), st
            return
        if isinstance(v, CompVal):
            lst = I.comp_list(ast.ListComp(elt=v.node.elt, generators=v.node.generators), v.st)
            if isinstance(lst, list):
                yield tuple(lst), st
                return
            raise Unsupported("tuple() of a symbolic-length generator")
        if isinstance(v, SV) and v.kind.tag == "tuple":
            yield v, st
            return
        if isinstance(v, SV) and v.kind.tag == "any":
            yield v, st      # tuple(t) of a Val that is a tuple (definedness not checked: A-builtins)
            return
        if isinstance(v, SV) and v.kind.tag == "list":
            # tuple(xs) of a list of symbolic length: the same sequence as an immutable value (no home).  For scalar elements
            # the value is hashable (core.keysort): its array is NORMALISED -- a default beyond the length -- so that two tuples are
            # the same key exactly when they have the same length and the same components
            ek = v.kind.args[0]
            if ek.tag in ("int", "str", "bool", "obj") and not isinstance(v.tree[1], tuple):
                n = v.tree[0]
                arr = z3.Const(core.fresh_name("tupn"), v.tree[1].sort())
                i = z3.Int(core.fresh_name("i"))
                dflt = z3.BoolVal(False) if ek.tag == "bool" else z3.IntVal(0)
                I.define([z3.ForAll([i], z3.Select(arr, i) == z3.If(z3.And(0 <= i, i < n), z3.Select(v.tree[1], i), dflt))])
                yield SV(v.kind, (n, arr)), st
                return
            yield SV(v.kind, v.tree), st
            return
        raise Unsupported("tuple(%r)" % (v,))

    @reg("list")
    def _list(I, st, args, kw):
        if not args:
            yield [], st
            return
        yield I.to_list_value(st, args[0]), st

    def to_list_value(st, v):
        """list(x): a snapshot.  For unordered sources the result is an IterSpec('set') (arbitrary order)."""
        if isinstance(v, (tuple, list)):
            return list(v)
        if isinstance(v, I.EmptyLit) or (isinstance(v, (set, dict)) and not v):
            return []
        if isinstance(v, CompVal):
            return I.comp_list(ast.ListComp(elt=v.node.elt, generators=v.node.generators), v.st)
        if isinstance(v, IterSpec) and v.mode == "seq" and v.ekind is not None and getattr(v, "materialize", True):
            k = LIST(v.ekind)
            res = tfresh(k, "listed")
            i = z3.Int(core.fresh_name("i"))
            I.define([res[0] == v.length, z3.ForAll([i], z3.Implies(z3.And(0 <= i, i < v.length), teq(tselect(res[1], i), v.elt(i).tree)))])
            return SV(k, res)
        if isinstance(v, IterSpec):
            return v
        if isinstance(v, ViewVal) or (isinstance(v, SV) and v.kind.tag in ("set", "dict")):
            return I.to_iterspec(st, ViewVal(v.what, SV(v.dsv.kind, v.dsv.tree)) if isinstance(v, ViewVal)
                                 else SV(v.kind, v.tree))
        if isinstance(v, SV) and v.kind.tag == "list":
            return SV(v.kind, v.tree)
        if isinstance(v, SV) and v.kind.tag == "tuple":
            return [SV(k, t) for k, t in zip(v.kind.args, v.tree)]
        if isinstance(v, SV) and v.kind.tag == "obj":
            return I.to_iterspec(st, v)
        raise Unsupported("list(%r)" % (v,))
    I.to_list_value = to_list_value

    @reg("set")
    def _set(I, st, args, kw):
        if not args:
            yield set(), st
            return
        yield I.to_set_value(st, args[0]), st
    I.lib["frozenset"] = I.lib["set"]

    def to_set_value(st, v):
        if isinstance(v, (tuple, list, set)) and not isinstance(v, SV):
            return I.make_set(list(v)) if v else set()
        if isinstance(v, I.EmptyLit):
            return set()
        if isinstance(v, CompVal):
            return I.comp_set(ast.SetComp(elt=v.node.elt, generators=v.node.generators), v.st)
        if isinstance(v, ViewVal):
            d = v.dsv
            if v.what == "keys":
                return SV(SET(d.kind.args[0]), d.tree[0])
            if v.what == "values":
                vk = d.kind.args[1]
                kk = d.kind.args[0]
                res = z3.Const(core.fresh_name("vals"), z3.ArraySort(keysort(vk), core.B))
                x = z3.Const(core.fresh_name("k"), keysort(kk))
                y = z3.Const(core.fresh_name("v"), keysort(vk))
                wit = z3.Function(core.fresh_name("wit"), keysort(vk), keysort(kk))
                I.define([z3.ForAll([x], z3.Implies(z3.Select(d.tree[0], x), z3.Select(res, to_key(vk, tselect(d.tree[1], x))))),
                          z3.ForAll([y], z3.Implies(z3.Select(res, y), z3.And(z3.Select(d.tree[0], wit(y)),
                                                                               to_key(vk, tselect(d.tree[1], wit(y))) == y)))])
                return SV(SET(vk), res)
            raise Unsupported("set(items view)")
        if isinstance(v, SV):
            t = v.kind.tag
            if t == "set":
                return SV(v.kind, v.tree)
            if t == "dict":
                return SV(SET(v.kind.args[0]), v.tree[0])
            if t == "list":
                ek = v.kind.args[0]
                res = z3.Const(core.fresh_name("setl"), z3.ArraySort(keysort(ek), core.B))
                i = z3.Int(core.fresh_name("i"))
                y = z3.Const(core.fresh_name("y"), keysort(ek))
                pos = z3.Function(core.fresh_name("pos"), keysort(ek), core.I)
                I.define([z3.ForAll([i], z3.Implies(z3.And(0 <= i, i < v.tree[0]), z3.Select(res, to_key(ek, tselect(v.tree[1], i))))),
                          z3.ForAll([y], z3.Implies(z3.Select(res, y), z3.And(0 <= pos(y), pos(y) < v.tree[0],
                                                                               to_key(ek, tselect(v.tree[1], pos(y))) == y)))])
                return SV(SET(ek), res)
            if t == "tuple":
                return I.make_set([SV(k, x) for k, x in zip(v.kind.args, v.tree)])
        if isinstance(v, IterSpec) and v.mode == "set":
            return SV(SET(v.ekind), v.mem)
        try:
            spec = I.to_iterspec(st, v)
        except Unsupported:
            spec = None
        if spec is not None and spec.mode == "set" and getattr(spec, "identity", False):
            return SV(SET(spec.ekind), spec.mem)
        raise Unsupported("set(%r)" % (v,))
    I.to_set_value = to_set_value

    @reg("dict")
    def _dict(I, st, args, kw):
        if not args and not kw:
            yield {}, st
            return
        if args and not kw:
            v = args[0]
            if isinstance(v, SV) and v.kind.tag == "dict":
                yield SV(DICT(v.kind.args[0], v.kind.args[1]), v.tree), st
                return
            if isinstance(v, ViewVal) and v.what == "items":
                d = v.dsv
                yield SV(DICT(d.kind.args[0], d.kind.args[1]), d.tree), st
                return
            if isinstance(v, (dict,)) and not v:
                yield {}, st
                return
            if isinstance(v, I.EmptyLit):
                yield {}, st
                return
            if isinstance(v, I.StaticDict):
                yield v, st
                return
            if isinstance(v, CompVal):
                elt = v.node.elt
                if isinstance(elt, ast.Tuple) and len(elt.elts) == 2:
                    yield I.comp_dict(ast.DictComp(key=elt.elts[0], value=elt.elts[1], generators=v.node.generators), v.st), st
                    return
            if isinstance(v, (list, tuple)):
                yield I.make_dict([tuple(I.concrete_items(p)) for p in v]), st
                return
        raise Unsupported("dict(...) form")

    @reg("defaultdict")
    def _defaultdict(I, st, args, kw):
        raise Unsupported("defaultdict() in code under contract needs a declared field kind")

    @reg("range")
    def _range(I, st, args, kw):
        vals = list(args)
        if all(not isinstance(a, SV) for a in vals):
            r = range(*vals)
            if len(r) <= 64:
                yield list(r), st
                return
        if len(vals) == 1:
            lo, hi = 0, vals[0]
        elif len(vals) == 2:
            lo, hi = vals
        else:
            raise Unsupported("range with step on symbolic bounds")
        lo_t = I.coerce(lo, INT).tree
        hi_t = I.coerce(hi, INT).tree
        n = z3.If(hi_t > lo_t, hi_t - lo_t, z3.IntVal(0))
        yield IterSpec("seq", length=n, ekind=INT, elt=lambda i: SV(INT, lo_t + i)), st

    @reg("enumerate")
    def _enumerate(I, st, args, kw):
        src = I.to_iterspec(st, args[0])
        start = kw.get("start", args[1] if len(args) > 1 else 0)
        if src.mode == "concrete":
            yield [(start + i if not isinstance(start, SV) else I.arith("+", start, i, st), it) for i, it in enumerate(src.items)], st
            return
        if src.mode == "seq":
            st_t = I.coerce(start, INT).tree
            yield IterSpec("seq", length=src.length, ekind=None, elt=lambda i: (SV(INT, st_t + i), src.elt(i))), st
            return
        raise Unsupported("enumerate over an unordered collection")

    @reg("zip")
    def _zip(I, st, args, kw):
        specs = [I.to_iterspec(st, a) for a in args]
        if all(s.mode == "concrete" for s in specs):
            yield [tuple(t) for t in zip(*[s.items for s in specs])], st
            return
        if all(s.mode in ("seq", "concrete") for s in specs):
            specs = [I.concrete_to_seq(s) if s.mode == "concrete" else s for s in specs]
            n = specs[0].length
            for s in specs[1:]:
                n = z3.If(s.length < n, s.length, n)
            yield IterSpec("seq", length=n, ekind=None, elt=lambda i: tuple(s.elt(i) for s in specs)), st
            return
        raise Unsupported("zip over unordered collections")

    @reg("sorted")
    def _sorted(I, st, args, kw):
        src = args[0]
        key = kw.get("key")
        rev = kw.get("reverse", False)
        if isinstance(src, (list, tuple)) and all(not isinstance(x, SV) for x in src) and key is None:
            yield sorted(src, reverse=bool(rev)), st
            return
        yield I.sorted_model(st, src, key, rev), st

    def sorted_model(st, src, key, rev):
        """A-builtins: sorted(xs) is a permutation of xs, ordered by key; for *set-like* sources the result
        has no duplicates.  Stability is modelled only for sequences with an explicit key (ties keep input order)."""
        if rev is not False and rev != 0:
            raise Unsupported("sorted(reverse=...)")
        if isinstance(src, CompVal):
            raise Unsupported("sorted(generator)")
        if isinstance(src, ViewVal) and src.what == "items" and key is None:
            # sorted(d.items()): keys are distinct, so the pairs are ordered by key
            d = src.dsv
            kk, vk = d.kind.args
            ks = sorted_model(st, ViewVal("keys", d), None, False)
            return IterSpec("seq", length=ks.tree[0], ekind=None,
                            elt=lambda i: (SV(kk, tselect(ks.tree[1], i)),
                                           SV(vk, tselect(d.tree[1], to_key(kk, tselect(ks.tree[1], i))))),
                            keys_list=ks, as_list=ks)
        spec = I.to_iterspec(st, src)
        if spec.mode == "concrete":
            spec = I.concrete_to_seq(spec)
        if spec.mode == "set":
            ek = spec.ekind
            k = LIST(ek)
            res = tfresh(k, "sorted")
            n = res[0]
            ks = keysort(ek)
            x = z3.Const(core.fresh_name("x"), ks)
            i, j = z3.Int(core.fresh_name("i")), z3.Int(core.fresh_name("j"))
            pos = z3.Function(core.fresh_name("pos"), ks, core.I)
            elt_key = lambda idx: to_key(ek, tselect(res[1], idx))
            ax = [n >= 0, n == I.card(spec.mem),
                  z3.ForAll([x], z3.Implies(z3.Select(spec.mem, x), z3.And(0 <= pos(x), pos(x) < n, elt_key(pos(x)) == x))),
                  z3.ForAll([i], z3.Implies(z3.And(0 <= i, i < n), z3.And(z3.Select(spec.mem, elt_key(i)), pos(elt_key(i)) == i)))]
            def keyof(idx):
                e = SV(ek, tselect(res[1], idx))
                if key is None:
                    return e
                outs = list(I.call(pure(st), key, [e], {}))
                if len(outs) != 1:
                    raise Unsupported("sort key forks")
                return outs[0][0]
            try:
                le = I.order("<=", keyof(i), keyof(j))
                ax.append(z3.ForAll([i, j], z3.Implies(z3.And(0 <= i, i < j, j < n), le)))
                if key is None:
                    ax.append(z3.ForAll([i, j], z3.Implies(z3.And(0 <= i, i < j, j < n), z3.Not(I.py_eq(keyof(i), keyof(j))))))
            except Unsupported:
                I.assumptions_used.add("sorted(): ordering of the result not modelled for this key kind (only permutation)")
            I.define(ax)
            cache = I.__dict__.setdefault("_list_sets", {})
            k_new = tuple(l.get_id() for l in core.tleaves(res))
            cache[k_new] = SV(SET(ek), spec.mem)          # elements of sorted(S) are exactly S
            cache[("keep", k_new)] = res
            return SV(k, res)
        if spec.mode == "seq":
            ek = spec.ekind
            if ek is None:
                raise Unsupported("sorted over tuple-yielding sequence")
            k = LIST(ek)
            res = tfresh(k, "sorted")
            n = res[0]
            i, j = z3.Int(core.fresh_name("i")), z3.Int(core.fresh_name("j"))
            perm = z3.Function(core.fresh_name("perm"), core.I, core.I)     # result index -> source index
            inv = z3.Function(core.fresh_name("pinv"), core.I, core.I)
            ax = [n == spec.length,
                  z3.ForAll([i], z3.Implies(z3.And(0 <= i, i < n), z3.And(0 <= perm(i), perm(i) < n, inv(perm(i)) == i,
                                                                           teq(tselect(res[1], i), spec.elt(perm(i)).tree)))),
                  z3.ForAll([i], z3.Implies(z3.And(0 <= i, i < n), z3.And(0 <= inv(i), inv(i) < n, perm(inv(i)) == i)))]
            # the same fact triggered by the *source* element at i (so that "x is in the source" reaches "x is in the result")
            try:
                src_leaf = list(core.tleaves(spec.elt(i).tree))[0]
                if z3.is_app(src_leaf) and not z3.is_const(src_leaf) and any(z3.eq(i, c) for c in src_leaf.children()):
                    ax.append(z3.ForAll([i], z3.Implies(z3.And(0 <= i, i < n),
                                                        z3.And(0 <= inv(i), inv(i) < n, perm(inv(i)) == i,
                                                               teq(tselect(res[1], inv(i)), spec.elt(i).tree))),
                                        patterns=[src_leaf]))
            except (TypeError, AttributeError, IndexError, z3.Z3Exception):
                pass
            def keyof(idx):
                e = SV(ek, tselect(res[1], idx))
                if key is None:
                    return e
                outs = list(I.call(pure(st), key, [e], {}))
                if len(outs) != 1:
                    raise Unsupported("sort key forks")
                return outs[0][0]
            try:
                le = I.order("<=", keyof(i), keyof(j))
                ax.append(z3.ForAll([i, j], z3.Implies(z3.And(0 <= i, i < j, j < n), le)))
                # stability: equal keys keep source order
                ax.append(z3.ForAll([i, j], z3.Implies(z3.And(0 <= i, i < j, j < n, I.py_eq(keyof(i), keyof(j))),
                                                       perm(i) < perm(j))))
            except Unsupported:
                I.assumptions_used.add("sorted(): ordering of the result not modelled for this key kind (only permutation)")
            I.define(ax)
            if isinstance(src, SV) and src.kind.tag == "list":
                try:
                    keysort(ek)
                    cache = I.__dict__.setdefault("_list_sets", {})
                    k_old = tuple(l.get_id() for l in core.tleaves(src.tree))
                    if k_old not in cache:
                        cache[k_old] = I.to_set_value(None, SV(src.kind, src.tree))
                        cache[("keep", k_old)] = src.tree
                    k_new = tuple(l.get_id() for l in core.tleaves(res))
                    cache[k_new] = cache[k_old]           # a permutation has the same elements
                    cache[("keep", k_new)] = res
                except TypeError:
                    pass
            return SV(k, res)
        raise Unsupported("sorted(%r)" % (src,))
    I.sorted_model = sorted_model

    def pure(st):
        s = st.copy()
        s.pure = True
        return s

    @reg("all")
    def _all(I, st, args, kw):
        v = args[0]
        if isinstance(v, CompVal):
            t = z3.simplify(I.comp_all_any(v, True))
        else:
            t = z3.simplify(quant_over(st, v, True))
        yield (True if z3.is_true(t) else False if z3.is_false(t) else SV(BOOL, t)), st

    @reg("any")
    def _any(I, st, args, kw):
        v = args[0]
        if isinstance(v, CompVal):
            t = z3.simplify(I.comp_all_any(v, False))
        else:
            t = z3.simplify(quant_over(st, v, False))
        yield (True if z3.is_true(t) else False if z3.is_false(t) else SV(BOOL, t)), st

    def quant_over(st, v, is_all):
        spec = I.to_iterspec(st, v)
        if spec.mode == "concrete":
            ts = [I.truthy(x) for x in spec.items]
            return (z3.And(*ts) if ts else TRUE) if is_all else (z3.Or(*ts) if ts else FALSE)
        if spec.mode == "seq":
            i = z3.Int(core.fresh_name("i"))
            t = I.truthy(spec.elt(i))
            g = z3.And(0 <= i, i < spec.length)
            return z3.ForAll([i], z3.Implies(g, t)) if is_all else z3.Exists([i], z3.And(g, t))
        x = z3.Const(core.fresh_name("x"), keysort(spec.ekind))
        t = I.truthy(spec.elem(x, st))
        g = z3.Select(spec.mem, x)
        return z3.ForAll([x], z3.Implies(g, t)) if is_all else z3.Exists([x], z3.And(g, t))

    @reg("sum")
    def _sum(I, st, args, kw):
        v = args[0]
        if isinstance(v, CompVal):
            conc = I.comp_concrete(v.node, v.st)
            if conc is not None:
                tot = 0
                for s, guard in conc:
                    x, _ = I.eval1(v.node.elt, s)
                    x = I.ite(guard, x, 0) if not z3.is_true(guard) else x
                    tot = I.arith("+", tot, x, st)
                yield tot, st
                return
            raise Unsupported("sum over a symbolic generator (needs a spec function)")
        spec = I.to_iterspec(st, v)
        if spec.mode == "concrete":
            tot = args[1] if len(args) > 1 else 0
            for x in spec.items:
                tot = I.arith("+", tot, x, st)
            yield tot, st
            return
        raise Unsupported("sum over a symbolic collection (needs a spec function)")

    def minmax(is_max):
        def fn(I, st, args, kw):
            if len(args) > 1:
                items = list(args)
            else:
                v = args[0]
                if isinstance(v, CompVal):
                    conc = I.comp_concrete(v.node, v.st)
                    if conc is None:
                        yield from minmax_gen(I, st, v, kw, is_max)
                        return
                    items = []
                    for s, guard in conc:
                        if not z3.is_true(guard):
                            raise Unsupported("min/max with symbolic filter")
                        items.append(I.eval1(v.node.elt, s)[0])
                else:
                    spec = I.to_iterspec(st, v)
                    if spec.mode != "concrete":
                        yield from minmax_sym(I, st, spec, kw, is_max)
                        return
                    items = spec.items
            if not items:
                if "default" in kw:
                    yield kw["default"], st
                else:
                    yield from I.raise_exc(st, "ValueError")
                return
            if "key" in kw:
                raise Unsupported("min/max with key on concrete items")
            best = items[0]
            for x in items[1:]:
                c = I.order(">" if is_max else "<", x, best)
                best = I.ite(c, x, best)
            yield best, st
        return fn

    def minmax_gen(I, st, comp, kw, is_max):
        """max/min of a generator over a symbolic sequence / set: the value is attained and bounds every element"""
        spec, x, s2, dom, guard = I.comp_symbolic(comp.node, comp.st)
        val, _ = I.eval1(comp.node.elt, s2)
        val = I.tup_to_sv(val)
        orig = val
        if val.kind.tag == "bool":
            val = I.coerce(val, INT)
            orig = val
        if val.kind.tag == "any":
            # numbers stored as Vals: ordered numerically, the result is the attaining element itself (keeps int-ness)
            val = SV(REAL, core.num_of(val.tree))
        elif val.kind.tag not in ("int", "real"):
            raise Unsupported("min/max over a generator of %r" % (val.kind,))
        w = z3.Const(core.fresh_name("argm"), x.sort())
        cond = z3.And(dom, guard)
        nonempty = z3.Exists([x], cond)
        at_w = lambda t: z3.substitute(t, (x, w))
        cmp_ = (lambda a, b: a >= b) if is_max else (lambda a, b: a <= b)
        m = at_w(val.tree)
        I.define([z3.Implies(nonempty, z3.And(at_w(cond), z3.ForAll([x], z3.Implies(cond, cmp_(m, val.tree)))))])
        mv = SV(orig.kind, tmap(at_w, orig.tree))
        if "default" in kw:
            yield I.ite(nonempty, mv, kw["default"]), st
            return
        for _, s in I.partial(st, nonempty, "ValueError", None):
            yield mv, s

    def minmax_sym(I, st, spec, kw, is_max):
        if "key" in kw:
            raise Unsupported("min/max with key over symbolic collection")
        if spec.mode == "set":
            ek = spec.ekind
            m = z3.Const(core.fresh_name("max" if is_max else "min"), keysort(ek))
            x = z3.Const(core.fresh_name("x"), keysort(ek))
            mv, xv = SV(ek, from_key(ek, m)), SV(ek, from_key(ek, x))
            nonempty = spec.mem != z3.K(keysort(ek), FALSE)
            I.define([z3.Implies(nonempty, z3.And(z3.Select(spec.mem, m),
                                                  z3.ForAll([x], z3.Implies(z3.Select(spec.mem, x),
                                                                            I.order(">=" if is_max else "<=", mv, xv)))))])
            if "default" in kw:
                yield I.ite(nonempty, mv, kw["default"]), st
                return
            for _, s in I.partial(st, nonempty, "ValueError", None):
                yield mv, s
            return
        raise Unsupported("min/max over a symbolic sequence")

    I.lib["max"] = BuiltinVal("max", minmax(True))
    I.lib["min"] = BuiltinVal("min", minmax(False))

    @reg("getattr")
    def _getattr(I, st, args, kw):
        obj, name = args[0], args[1]
        if not isinstance(name, str):
            raise Unsupported("getattr with symbolic name")
        try:
            yield I.getattr(st, obj, name), st
        except Unsupported:
            if len(args) > 2:
                yield args[2], st
            else:
                raise

    @reg("callable")
    def _callable(I, st, args, kw):
        from .interp import FuncVal, LambdaVal
        yield isinstance(args[0], (FuncVal, LambdaVal, BuiltinVal, ClassVal)), st

    @reg("hasattr")
    def _hasattr(I, st, args, kw):
        obj, name = args
        if isinstance(obj, SV) and obj.kind.tag == "obj":
            c = I.cset.classes.get(obj.kind.extra, {})
            if name in c.get("fields", {}):
                yield True, st
                return
            mod = I.class_module(obj.kind.extra)
            yield bool(mod and ("%s.%s" % (obj.kind.extra, name)) in mod.funcs) or \
                ("%s.%s" % (obj.kind.extra, name)) in I.lib, st
            return
        raise Unsupported("hasattr on %r" % (obj,))

    def id_fun():
        return I.ufunc("py_id", core.I, core.I)

    def alive_fun():
        f = I.ufunc("alive", core.I, core.B)
        if not getattr(I, "_id_ax", False):
            I._id_ax = True
            a, b = z3.Ints("id_a id_b")
            I.axioms.append(z3.ForAll([a, b], z3.Implies(z3.And(f(a), f(b), id_fun()(a) == id_fun()(b)), a == b)))
            I.assumptions_used.add("A-id: id(o) is an integer, equal for the same object and distinct for two objects alive at the same "
                                   "time; otherwise unconstrained (ids may be reused after an object dies)")
        return f

    @reg("id")
    def _id(I, st, args, kw):
        o = args[0]
        if not (isinstance(o, SV) and o.kind.tag == "obj"):
            raise Unsupported("id() of a non-object")
        alive_fun()
        yield SV(INT, id_fun()(o.tree)), st

    @reg("alive")
    def _alive(I, st, args, kw):
        """spec builtin: the object is alive (referenced) at this point"""
        o = args[0]
        yield SV(BOOL, alive_fun()(o.tree)), st

    @reg("iter")
    def _iter(I, st, args, kw):
        yield args[0], st

    @reg("next")
    def _next(I, st, args, kw):
        """next(iter(xs)): the first element in iteration order -- modelled as *some* element (arbitrary order)"""
        src = args[0]
        spec = I.to_iterspec(st, src)
        if spec.mode == "concrete":
            if spec.items:
                yield spec.items[0], st
            elif len(args) > 1:
                yield args[1], st
            else:
                yield from I.raise_exc(st, "StopIteration")
            return
        if spec.mode == "seq":
            for _, s in I.partial(st, spec.length > 0, "StopIteration", None):
                yield spec.elt(z3.IntVal(0)), s
            return
        x = z3.Const(core.fresh_name("first"), keysort(spec.ekind))
        nonempty = spec.mem != z3.K(keysort(spec.ekind), FALSE)
        I.define([z3.Implies(nonempty, z3.Select(spec.mem, x))])
        for _, s in I.partial(st, nonempty, "StopIteration", None):
            yield spec.elem(x, s), s

    @reg("copy.deepcopy")
    def _deepcopy(I, st, args, kw):
        """A-copy: containers are values in this model, so a deep copy of a container of scalars is the same value
        with no home; objects go through the per-class deep-copy model"""
        v = args[0]
        if isinstance(v, SV) and v.kind.tag in ("set", "dict", "list"):
            if contains_obj(v.kind):
                raise Unsupported("deepcopy of a container holding objects")
            yield SV(v.kind, v.tree), st
            return
        if isinstance(v, SV) and v.kind.tag == "obj":
            h = I.lib.get("deepcopy:obj")
            if h is None:
                raise Unsupported("deepcopy of an object")
            yield from h.fn(I, st, [v], kw)
            return
        yield v, st
    I.lib["copy.copy"] = I.lib["copy.deepcopy"]

    def np_zeros(I_, st, args, kw):
        """A-numpy (minimal): np.zeros((n, m), dtype=float) is a matrix indexable exactly at 0 <= i < n, 0 <= j < m, every entry 0.0;
        modelled as a mapping from index pairs to reals (so `M[i, j] += x` is a read-modify-write of one entry and nothing else)"""
        shape = args[0] if args else kw.get("shape")
        if not (isinstance(shape, tuple) and len(shape) == 2):
            raise Unsupported("np.zeros with a shape that is not a literal pair")
        n, m = (I.coerce(x if isinstance(x, SV) else I.materialize(x, INT), INT, what="np.zeros shape") for x in shape)
        kk = TUP(INT, INT)
        kd = DICT(kk, REAL)
        ks = keysort(kk)
        dom = z3.Const(core.fresh_name("npdom"), z3.ArraySort(ks, core.B))
        i, j = z3.Int(core.fresh_name("i")), z3.Int(core.fresh_name("j"))
        key = to_key(kk, (i, j))
        I.define([z3.ForAll([i, j], z3.Select(dom, key) == z3.And(i >= 0, i < n.tree, j >= 0, j < m.tree))])
        yield SV(kd, (dom, z3.K(ks, z3.RealVal(0)))), st
    I.lib["numpy.zeros"] = BuiltinVal("np.zeros", np_zeros)
    I.lib["np.zeros"] = I.lib["numpy.zeros"]

    def contains_obj(k):
        if k.tag == "obj":
            return True
        return any(contains_obj(a) for a in k.args)
    I.contains_obj = contains_obj

    @reg("itertools.islice")
    def _islice(I, st, args, kw):
        """islice(xs, n): the first n items (A-itertools)"""
        src, n = args[0], args[1]
        if len(args) > 2:
            raise Unsupported("islice with start/step")
        if isinstance(src, CompVal):
            src = I.comp_list(ast.ListComp(elt=src.node.elt, generators=src.node.generators), src.st)
        spec = I.to_iterspec(st, src)
        if spec.mode == "concrete":
            spec = I.concrete_to_seq(spec)
        if spec.mode != "seq":
            raise Unsupported("islice over an unordered collection")
        nt = I.coerce(n, INT).tree
        ln = z3.If(nt < spec.length, z3.If(nt > 0, nt, 0), spec.length)
        yield IterSpec("seq", length=ln, ekind=spec.ekind, elt=spec.elt), st
    I.lib["islice"] = I.lib["itertools.islice"]

    @reg("hash")
    def _hash(I, st, args, kw):
        f = I.ufunc("py_hash", Val, core.I)
        yield SV(INT, f(I.as_any(I.tup_to_sv(args[0])))), st

    for tn in ("int", "float", "str", "tuple", "list", "dict", "set", "bool", "frozenset"):
        assert tn in I.lib, tn

    # ---------------------------------------------------------------- methods on values
    def call_method(st, recv, name, args, kw):
        if isinstance(recv, ViewVal):
            raise Unsupported("method %s on dict view" % name)
        if isinstance(recv, I.EmptyLit):
            yield from empty_method(st, recv, name, args, kw)
            return
        if isinstance(recv, I.StaticDict):
            if name == "get":
                yield recv.d.get(args[0], args[1] if len(args) > 1 else None), st
                return
            if name == "items":
                yield [(k, v) for k, v in recv.d.items()], st
                return
            raise Unsupported("method %s on **kwargs" % name)
        if isinstance(recv, tuple):
            if name == "index":
                raise Unsupported("tuple.index")
            if name == "count":
                raise Unsupported("tuple.count")
        if isinstance(recv, list) and not isinstance(recv, SV):
            if name in ("index", "count", "copy"):
                if name == "copy":
                    yield list(recv), st
                    return
            recv = I.make_list(recv) if recv else recv
            if not isinstance(recv, SV):
                raise Unsupported("method %s on empty literal list" % name)
        if isinstance(recv, str):
            if all(not isinstance(a, SV) for a in args):
                try:
                    yield getattr(recv, name)(*args, **kw), st
                    return
                except Exception as ex:
                    raise Unsupported("str.%s: %s" % (name, ex))
            recv = I.lit(recv)
        if recv is None:
            yield from I.raise_exc(st, "AttributeError")
            return
        if isinstance(recv, dict) and recv:
            # static record
            if name == "get":
                k = args[0]
                d = args[1] if len(args) > 1 else None
                if isinstance(k, str):
                    yield recv.get(k, d), st
                    return
                out = d
                for kk, vv in recv.items():
                    out = I.ite(I.py_eq(k, kk), vv if not isinstance(vv, (list, tuple)) else I.tup_to_sv(tuple(vv)), out)
                yield out, st
                return
            if name == "items":
                yield [(k, v) for k, v in recv.items()], st
                return
            if name == "keys":
                yield list(recv.keys()), st
                return
            if name == "values":
                yield list(recv.values()), st
                return
            raise Unsupported("method %s on a static dict record" % name)
        if isinstance(recv, (set, dict)) and not recv:
            raise Unsupported("method %s on an untyped empty literal" % name)
        if not isinstance(recv, SV):
            raise Unsupported("method %s on %r" % (name, recv))
        t = recv.kind.tag
        h = I.lib.get("method:%s.%s" % (t, name))
        if h is None:
            if t == "opt":
                inner = SV(recv.kind.args[0], recv.tree[1], ("optval", recv.origin, recv.kind) if recv.origin else None)
                for _, s in I.partial(st, z3.Not(recv.tree[0]), "AttributeError", None):
                    yield from call_method(s, inner, name, args, kw)
                return
            raise Unsupported("method %s on kind %r" % (name, recv.kind))
        yield from h.fn(I, st, recv, args, kw)
    I.call_method = call_method

    def empty_method(st, recv, name, args, kw):
        """first use of `x = []` / `{}` / `set()` fixes its kind"""
        raise Unsupported("method %s on an untyped empty container; give its kind via `vars` in the contract" % name)

    def meth(name):
        def deco(fn):
            I.lib["method:" + name] = BuiltinVal(name, fn)
            return fn
        return deco

    def need_home(recv, what):
        if recv.origin is None:
            raise Unsupported("%s on a temporary container" % what)

    def set_key(recv, v):
        kk = recv.kind.args[0]
        return to_key(kk, I.coerce(I.tup_to_sv(v), kk, what="set element").tree)

    @meth("set.add")
    def _(I, st, recv, args, kw):
        need_home(recv, "set.add")
        yield None, I.store(st, recv.origin, SV(recv.kind, z3.Store(recv.tree, set_key(recv, args[0]), TRUE)))

    @meth("set.discard")
    def _(I, st, recv, args, kw):
        need_home(recv, "set.discard")
        yield None, I.store(st, recv.origin, SV(recv.kind, z3.Store(recv.tree, set_key(recv, args[0]), FALSE)))

    @meth("set.remove")
    def _(I, st, recv, args, kw):
        need_home(recv, "set.remove")
        k = set_key(recv, args[0])
        for _, s in I.partial(st, z3.Select(recv.tree, k), "KeyError", None):
            yield None, I.store(s, recv.origin, SV(recv.kind, z3.Store(recv.tree, k, FALSE)))

    @meth("set.clear")
    def _(I, st, recv, args, kw):
        need_home(recv, "set.clear")
        yield None, I.store(st, recv.origin, SV(recv.kind, default_tree(recv.kind)))

    @meth("set.copy")
    def _(I, st, recv, args, kw):
        yield SV(recv.kind, recv.tree), st

    @meth("set.update")
    def _(I, st, recv, args, kw):
        need_home(recv, "set.update")
        cur = recv
        for a in args:
            other = I.to_set_value(st, a)
            if isinstance(other, set):
                continue
            cur = I.arith("|", cur, I.coerce(other, recv.kind), st)
        yield None, I.store(st, recv.origin, SV(recv.kind, cur.tree))

    def set_binop(op):
        def fn(I, st, recv, args, kw):
            cur = recv
            for a in args:
                other = I.to_set_value(st, a)
                if isinstance(other, set):
                    if op == "&":
                        cur = SV(recv.kind, default_tree(recv.kind))
                    continue
                cur = I.arith(op, cur, I.coerce(other, recv.kind), st)
            yield SV(recv.kind, cur.tree), st
        return fn
    I.lib["method:set.union"] = BuiltinVal("set.union", set_binop("|"))
    I.lib["method:set.intersection"] = BuiltinVal("set.intersection", set_binop("&"))
    I.lib["method:set.difference"] = BuiltinVal("set.difference", set_binop("-"))

    @meth("set.difference_update")
    def _(I, st, recv, args, kw):
        need_home(recv, "set.difference_update")
        cur = recv
        for a in args:
            other = I.to_set_value(st, a)
            if isinstance(other, set):
                continue
            cur = I.arith("-", cur, I.coerce(other, recv.kind), st)
        yield None, I.store(st, recv.origin, SV(recv.kind, cur.tree))

    @meth("set.issubset")
    def _(I, st, recv, args, kw):
        other = I.to_set_value(st, args[0])
        yield SV(BOOL, I.order("<=", recv, I.coerce(other, recv.kind))), st

    @meth("set.issuperset")
    def _(I, st, recv, args, kw):
        other = I.to_set_value(st, args[0])
        yield SV(BOOL, I.order(">=", recv, I.coerce(other, recv.kind))), st

    @meth("set.isdisjoint")
    def _(I, st, recv, args, kw):
        other = I.coerce(I.to_set_value(st, args[0]), recv.kind)
        inter = I.arith("&", recv, other, st)
        yield SV(BOOL, inter.tree == default_tree(recv.kind)), st

    # ---- dict
    def dict_key(recv, v):
        kk = recv.kind.args[0]
        return to_key(kk, I.coerce(I.tup_to_sv(v), kk, what="dict key").tree)

    @meth("dict.get")
    def _(I, st, recv, args, kw):
        kk, vk = recv.kind.args
        k = dict_key(recv, args[0])
        present = z3.Select(recv.tree[0], k)
        val = SV(vk, tselect(recv.tree[1], k))
        dflt = args[1] if len(args) > 1 else kw.get("default", None)
        if dflt is None or (isinstance(dflt, SV) and dflt.kind.tag == "none"):
            if vk.tag == "any":
                yield SV(ANY, z3.If(present, val.tree, Val.VNone)), st
                return
            # Optional[container]: only truthiness / `is None` tests are supported on the result
            yield SV(OPT(vk), (z3.Not(present), val.tree)), st
            return
        if isinstance(dflt, (list, set, dict, tuple)) and not dflt and vk.tag in ("set", "dict", "list"):
            dflt = SV(vk, default_tree(vk))
        if isinstance(dflt, I.EmptyLit):
            dflt = SV(vk, default_tree(vk))
        yield I.ite(present, val, dflt), st

    @meth("dict.pop")
    def _(I, st, recv, args, kw):
        need_home(recv, "dict.pop")
        kk, vk = recv.kind.args
        k = dict_key(recv, args[0])
        present = z3.Select(recv.tree[0], k)
        val = SV(vk, tselect(recv.tree[1], k))
        newd = SV(recv.kind, (z3.Store(recv.tree[0], k, FALSE), recv.tree[1]))
        if len(args) > 1:
            dflt = args[1]
            s2 = I.store(st, recv.origin, newd)
            if dflt is None:
                if vk.tag == "any":
                    yield SV(ANY, z3.If(present, val.tree, Val.VNone)), s2
                else:
                    yield SV(OPT(vk), (z3.Not(present), val.tree)), s2
            else:
                yield I.ite(present, val, dflt), s2
            return
        for _, s in I.partial(st, present, "KeyError", None):
            yield val, I.store(s, recv.origin, newd)

    @meth("dict.setdefault")
    def _(I, st, recv, args, kw):
        need_home(recv, "dict.setdefault")
        kk, vk = recv.kind.args
        k = dict_key(recv, args[0])
        present = z3.Select(recv.tree[0], k)
        dflt = I.coerce(I.materialize(args[1] if len(args) > 1 else None, vk), vk)
        newval = tite(present, tselect(recv.tree[1], k), dflt.tree)
        newd = SV(recv.kind, (z3.Store(recv.tree[0], k, TRUE), tstore(recv.tree[1], k, newval)))
        s2 = I.store(st, recv.origin, newd)
        yield SV(vk, newval, ("item", recv.origin, recv.kind, k)), s2

    @meth("dict.keys")
    def _(I, st, recv, args, kw):
        yield ViewVal("keys", recv), st

    @meth("dict.values")
    def _(I, st, recv, args, kw):
        yield ViewVal("values", recv), st

    @meth("dict.items")
    def _(I, st, recv, args, kw):
        yield ViewVal("items", recv), st

    @meth("dict.copy")
    def _(I, st, recv, args, kw):
        yield SV(DICT(recv.kind.args[0], recv.kind.args[1]), recv.tree), st

    @meth("dict.clear")
    def _(I, st, recv, args, kw):
        need_home(recv, "dict.clear")
        yield None, I.store(st, recv.origin, SV(recv.kind, (default_tree(recv.kind)[0], recv.tree[1])))

    @meth("dict.update")
    def _(I, st, recv, args, kw):
        need_home(recv, "dict.update")
        other = args[0] if args else None
        cur = recv
        if isinstance(other, I.StaticDict):
            kw = dict(other.d, **kw)
            other = None
        if other is not None and not (isinstance(other, dict) and not other):
            if not (isinstance(other, SV) and other.kind.tag == "dict"):
                raise Unsupported("dict.update(%r)" % (other,))
            other = I.coerce(other, DICT(recv.kind.args[0], recv.kind.args[1]))
            ks = keysort(recv.kind.args[0])
            dom = I.set_op("|", SV(SET(recv.kind.args[0]), cur.tree[0]), SV(SET(recv.kind.args[0]), other.tree[0])).tree
            newval = tmap(lambda s: z3.Const(core.fresh_name("upd"), s), tmap(lambda t: t.sort(), cur.tree[1]))
            x = z3.Const(core.fresh_name("k"), ks)
            I.define([z3.ForAll([x], teq(tselect(newval, x), tite(z3.Select(other.tree[0], x), tselect(other.tree[1], x),
                                                                    tselect(cur.tree[1], x))))])
            cur = SV(recv.kind, (dom, newval))
        for k, v in kw.items():
            kt = dict_key(recv, k)
            vv = I.coerce(I.tup_to_sv(v), recv.kind.args[1])
            cur = SV(recv.kind, (z3.Store(cur.tree[0], kt, TRUE), tstore(cur.tree[1], kt, vv.tree)))
        yield None, I.store(st, recv.origin, cur)

    # ---- list
    @meth("list.append")
    def _(I, st, recv, args, kw):
        need_home(recv, "list.append")
        ek = recv.kind.args[0]
        v = I.coerce(I.tup_to_sv(args[0]), ek, what="list element")
        n = recv.tree[0]
        newl = SV(recv.kind, (n + 1, tstore(recv.tree[1], n, v.tree)))
        try:
            ks = keysort(ek)
        except TypeError:
            ks = None
        if ks is not None:
            # element set of the extended list = element set of the old list + {x}  (keeps `y in xs` tests cheap)
            cache = I.__dict__.setdefault("_list_sets", {})
            k_old = tuple(l.get_id() for l in core.tleaves(recv.tree))
            if k_old not in cache:
                cache[k_old] = I.to_set_value(None, SV(recv.kind, recv.tree))
                cache[("keep", k_old)] = recv.tree
            k_new = tuple(l.get_id() for l in core.tleaves(newl.tree))
            cache[k_new] = SV(SET(ek), z3.Store(cache[k_old].tree, to_key(ek, v.tree), TRUE))
            cache[("keep", k_new)] = newl.tree
        yield None, I.store(st, recv.origin, newl)

    @meth("list.extend")
    def _(I, st, recv, args, kw):
        need_home(recv, "list.extend")
        other = I.to_list_value(st, args[0])
        if isinstance(other, list):
            cur = recv
            for x in other:
                v = I.coerce(I.tup_to_sv(x), recv.kind.args[0])
                cur = SV(recv.kind, (cur.tree[0] + 1, tstore(cur.tree[1], cur.tree[0], v.tree)))
            yield None, I.store(st, recv.origin, cur)
            return
        if isinstance(other, SV) and other.kind.tag == "list":
            yield None, I.store(st, recv.origin, I.list_concat(recv, other))
            return
        raise Unsupported("list.extend(%r)" % (other,))

    @meth("list.copy")
    def _(I, st, recv, args, kw):
        yield SV(recv.kind, recv.tree), st

    @meth("list.pop")
    def _(I, st, recv, args, kw):
        need_home(recv, "list.pop")
        n = recv.tree[0]
        if args:
            i = args[0]
            if not (isinstance(i, int) and i == 0) and not (isinstance(i, int) and i == -1):
                raise Unsupported("list.pop(i) for general i")
            if i == 0:
                ek = recv.kind.args[0]
                res = tfresh(recv.kind, "popped")
                j = z3.Int(core.fresh_name("j"))
                I.define([res[0] == n - 1, z3.ForAll([j], z3.Implies(z3.And(0 <= j, j < n - 1),
                                                                      teq(tselect(res[1], j), tselect(recv.tree[1], j + 1))))])
                for _, s in I.partial(st, n > 0, "IndexError", None):
                    yield SV(ek, tselect(recv.tree[1], z3.IntVal(0))), I.store(s, recv.origin, SV(recv.kind, res))
                return
        ek = recv.kind.args[0]
        for _, s in I.partial(st, n > 0, "IndexError", None):
            yield SV(ek, tselect(recv.tree[1], n - 1)), I.store(s, recv.origin, SV(recv.kind, (n - 1, recv.tree[1])))

    # ---- str (uninterpreted, A-builtins)
    def str_uf(name, nargs, ret):
        def fn(I, st, recv, args, kw):
            f = I.ufunc("str_" + name, *([core.I] * (1 + nargs) + [ret]))
            ts = [recv.tree] + [I.coerce(a, STR).tree for a in args[:nargs]]
            yield SV(STR if ret == core.I else BOOL, f(*ts)), st
        return fn
    I.lib["method:str.strip"] = BuiltinVal("strip", str_uf("strip", 0, core.I))
    I.lib["method:str.lower"] = BuiltinVal("lower", str_uf("lower", 0, core.I))
    I.lib["method:str.upper"] = BuiltinVal("upper", str_uf("upper", 0, core.I))
    I.lib["method:str.startswith"] = BuiltinVal("startswith", str_uf("startswith", 1, core.B))
    I.lib["method:str.endswith"] = BuiltinVal("endswith", str_uf("endswith", 1, core.B))
    I.lib["method:str.isdigit"] = BuiltinVal("isdigit", str_uf("isdigit", 0, core.B))

    @meth("str.join")
    def _(I, st, recv, args, kw):
        yield SV(STR, z3.Int(core.fresh_name("joined"))), st

    @meth("str.format")
    def _(I, st, recv, args, kw):
        yield SV(STR, z3.Int(core.fresh_name("formatted"))), st

    # any-kind receivers holding tuples etc. are not given methods.
