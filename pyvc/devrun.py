import sys, time, json
sys.path.insert(0, "/verif")
from pyvc.contracts import ContractSet
from pyvc import verify

def main():
    path = sys.argv[1]
    only = sys.argv[2:] 
    cs = ContractSet(path)
    eng = verify.new_engine(cs)
    t0 = time.time()
    for key, c in cs.functions.items():
        if only and not any(o in key for o in only):
            continue
        if c.get("inline") or c.get("assumed"):
            continue
        for i, kinds in enumerate(verify.param_cases(c)):
            n0 = len(eng.obligations)
            try:
                verify.verify_function(eng, key, kinds, "" if i == 0 else "@case%d" % i)
            except Exception as ex:
                import traceback; traceback.print_exc()
                print("FAILED", key, ex)
            print(key.split("::")[1], kinds, "->", len(eng.obligations) - n0, "obligations")
    print("gen time", round(time.time() - t0, 2))
    if getattr(eng, "vacuous_exits", None):
        print("VACUOUS LOOP EXITS (broken contract):", eng.vacuous_exits)
    d = verify.Discharger(eng, timeout_s=int(__import__("os").environ.get("T", "10")))
    res = d.discharge_all(eng.obligations)
    bad = 0
    for r in res:
        if r["status"] not in ("discharged", "covered"):
            bad += 1
            print(r["status"], r["name"], {k: v[0][:20] for k, v in r["tried"].items()}, (r.get("file") or "")[-22:], r.get("trail")[-4:])
    print(len(res), "obligations,", bad, "not discharged; total", round(time.time() - t0, 2), "s")

main()
