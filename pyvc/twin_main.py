"""entry point of the executable twin (run under /venv/bin/python, PYTHONPATH=/repo:/verif)"""
import importlib.util
import json
import os
import sys

VERIF = os.path.dirname(os.path.dirname(os.path.abspath(__file__)))
sys.path.insert(0, VERIF)
from pyvc.twin import Twin  # noqa: E402


def load_harness(prop):
    path = os.path.join(VERIF, "contracts", "%s_twin.py" % prop)
    spec = importlib.util.spec_from_file_location("twin_" + prop, path)
    mod = importlib.util.module_from_spec(spec)
    spec.loader.exec_module(mod)
    return mod


def main(argv):
    prop = argv[0]
    tw = Twin(prop)
    h = load_harness(prop)
    if argv[1] == "--replay":
        desc = json.loads(argv[2])
        out = h.replay(tw, desc)
        # a replay answers "does THIS violation still occur": violations that belong to a listed known finding of the property
        # (same clause prefix) are reported separately, not as the replayed violation
        try:
            kf = json.load(open(os.path.join(VERIF, "known_findings.json")))
            clauses = [k["twin_match"].get("clause") for k in kf.get("findings", []) if k.get("property") == prop and k.get("status") == "open"
                       and k.get("twin_match")]
            known = [v for v in out.get("violations", []) if any(c and v.startswith(c) for c in clauses)]
            if known:
                out["known_finding_violations"] = known
                out["violations"] = [v for v in out["violations"] if v not in known]
        except Exception:
            pass
        print(json.dumps(out, indent=1, default=str))
        return 1 if out.get("violations") else 0
    tier, seed = argv[1], int(argv[2])
    only = None
    if "--only" in argv:
        only = set(argv[argv.index("--only") + 1].split(","))
    res = h.run(tw, tier, seed, only)
    # frequent failures of one kind (e.g. a known finding) must not crowd out other kinds: at most three examples per
    # (function, clause, tags), the total count is kept
    per, kept = {}, []
    for f in res.get("failures", []):
        k = (f.get("function"), (f.get("violations") or [""])[0].split(":")[0][:60], json.dumps(f.get("tags", {}), sort_keys=True, default=str))
        per[k] = per.get(k, 0) + 1
        if per[k] <= 3:
            kept.append(f)
    res.setdefault("n_failures", len(res.get("failures", [])))
    res["failures"] = kept[:80]
    print(json.dumps(res, default=str))
    return 0


if __name__ == "__main__":
    sys.exit(main(sys.argv[1:]))
