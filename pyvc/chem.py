"""pyvc.chem -- helpers of the RDKit-based bounded twins (run under /venv/bin/python): corpus loading, formula / charge counting,
ITS signatures.  The corpus is /repo's own data (Data/ecoli.json.gz: 274 mapped reactions; synkit/Data/paracetamol.json.gz)."""
import gzip, json, os, random
import networkx as nx

REPO = os.environ.get("PYVC_REPO", "/repo")

DIVERSE = ["CCO", "CC(=O)O", "c1ccccc1", "c1ccncc1", "c1cc[nH]c1", "c1ccoc1", "c1ccsc1", "CC(=O)[O-]", "C[NH3+]", "[Na+]", "[Cl-]", "O", "[OH-]", "[H+]",
           "[HH]", "N#N", "C#N", "CC#C", "O=C=O", "CS(=O)(=O)O", "OP(=O)(O)O", "c1ccc2ccccc2c1", "Cc1ccccc1", "Oc1ccccc1", "Nc1ncnc2[nH]cnc12",
           "C1CCCCC1", "C1CC1", "C=CC=C", "CC(C)(C)C", "ClC(Cl)Cl", "BrCCBr", "FC(F)(F)C", "[O-][N+](=O)c1ccccc1", "C[N+](C)(C)C", "O=C1CCCN1",
           "CC(=O)Nc1ccc(O)cc1", "OCC(O)C(O)C=O", "NC(CS)C(=O)O", "c1cnc[nH]1", "C[S+](C)C", "[NH4+]", "CC=O", "CN", "C=C", "OO", "S", "P"]


def _load(path):
    raw = open(path, "rb").read()
    try:
        return json.loads(raw)
    except Exception:
        return json.loads(gzip.decompress(raw))


def corpus_reactions(limit=None, rng=None):
    out = []
    p = os.path.join(REPO, "Data", "ecoli.json.gz")
    if os.path.exists(p):
        try:
            out += [d["smart"] for d in _load(p) if d.get("smart")]
        except Exception:
            pass
    p = os.path.join(REPO, "synkit", "Data", "paracetamol.json.gz")
    if os.path.exists(p):
        try:
            out += [d["aam"] for d in _load(p) if d.get("aam")]
        except Exception:
            pass
    out += VENDORED_RXNS
    if limit is not None and len(out) > limit:
        rng = rng or random.Random(0)
        keep = VENDORED_RXNS + rng.sample(out[:-len(VENDORED_RXNS)], max(0, limit - len(VENDORED_RXNS)))
        return keep
    return out


VENDORED_RXNS = [
    "[CH3:1][CH:2]=[O:3].[NH2:4][CH3:5]>>[CH3:1][CH:2]=[N:4][CH3:5].[OH2:3]",
    "[CH3:1][C:2](=[O:3])[OH:4].[CH3:5][OH:6]>>[CH3:1][C:2](=[O:3])[O:6][CH3:5].[OH2:4]",
    "[CH3:5][NH2:7].[CH3:9][Cl:12]>>[CH3:5][NH2+:7][CH3:9].[Cl-:12]",
    "[CH2:1]=[CH2:2].[H:3][H:4]>>[CH2:1]([H:3])[CH2:2][H:4]",
    "[CH3:1][S-:2].[CH3:3][Br:4]>>[CH3:1][S:2][CH3:3].[Br-:4]",
    "[S-2:1].[CH3:2][Br:3]>>[S-:1][CH3:2].[Br-:3]",
    "[CH2:1]=[CH:2][CH:3]=[CH2:4].[CH2:5]=[CH2:6]>>[CH2:1]1[CH:2]=[CH:3][CH2:4][CH2:5][CH2:6]1",
    "[cH:1]1[cH:2][cH:3][cH:4][cH:5][c:6]1[Br:7].[OH2:8]>>[cH:1]1[cH:2][cH:3][cH:4][cH:5][c:6]1[OH:8].[BrH:7]",
    "[CH3:1][CH2:2][Br:3].[OH-:4]>>[CH3:1][CH2:2][OH:4].[Br-:3]",
    "[CH3:1][C:2](=[O:3])[OH:4].[CH3:5][CH2:6][OH:7]>>[CH3:1][C:2](=[O:3])[O:7][CH2:6][CH3:5].[OH2:4]",
]


def molecules(limit=None, rng=None):
    from rdkit import Chem
    seen, out = set(), []
    for s in DIVERSE:
        if s not in seen:
            seen.add(s); out.append(s)
    for rs in corpus_reactions():
        for side in rs.split(">>"):
            for frag in side.split("."):
                m = Chem.MolFromSmiles(frag)
                if m is None:
                    continue
                for a in m.GetAtoms():
                    a.SetAtomMapNum(0)
                Chem.RemoveStereochemistry(m)
                try:
                    c = Chem.MolToSmiles(Chem.RemoveHs(m))
                except Exception:
                    continue
                if c and c not in seen and not any(a.GetNumRadicalElectrons() for a in m.GetAtoms()):
                    seen.add(c); out.append(c)
    if limit is not None and len(out) > limit:
        rng = rng or random.Random(0)
        out = out[:len(DIVERSE)] + rng.sample(out[len(DIVERSE):], limit - len(DIVERSE))
    return out


def canon_nostereo(smiles):
    from rdkit import Chem
    m = Chem.MolFromSmiles(smiles)
    if m is None:
        return None
    for a in m.GetAtoms():
        a.SetAtomMapNum(0)
    Chem.RemoveStereochemistry(m)
    # all hydrogens explicit: one spelling for [HH] / [H][H] and for explicit-H inputs
    return Chem.MolToSmiles(Chem.AddHs(m))


def formula(smiles):
    """element counts (hydrogens included) and total charge of a (multi-fragment) SMILES"""
    from rdkit import Chem
    m = Chem.MolFromSmiles(smiles)
    if m is None:
        return None
    m = Chem.AddHs(m)
    cnt = {}
    for a in m.GetAtoms():
        cnt[a.GetSymbol()] = cnt.get(a.GetSymbol(), 0) + 1
    return cnt, sum(a.GetFormalCharge() for a in m.GetAtoms())


def graph_formula(G):
    cnt, q = {}, 0
    for n, d in G.nodes(data=True):
        cnt[d.get("element")] = cnt.get(d.get("element"), 0) + 1
        cnt["H"] = cnt.get("H", 0) + int(d.get("hcount", 0) or 0)
        q += int(d.get("charge", 0) or 0)
    if cnt.get("H") == 0:
        del cnt["H"]
    return cnt, q


def its_signature(g):
    """ITS graph reduced to (element, charge before/after) on atoms and (order before, after) on bonds"""
    s = nx.Graph()
    for n, d in g.nodes(data=True):
        t = d.get("typesGH")
        if t:
            a, b = t
            s.add_node(n, lab=(a[0], a[3], b[0], b[3]))
        else:
            s.add_node(n, lab=(d.get("element"), d.get("charge"), d.get("element"), d.get("charge")))
    for u, v, d in g.edges(data=True):
        o = d.get("order")
        s.add_edge(u, v, lab=(float(o[0]), float(o[1])) if isinstance(o, (tuple, list)) else (float(o), float(o)))
    return s


def iso_lab(g1, g2):
    return nx.is_isomorphic(g1, g2, node_match=lambda x, y: x["lab"] == y["lab"], edge_match=lambda x, y: x["lab"] == y["lab"])


def renumber_rsmi(rsmi, rng):
    """permute the atom-map numbers of a mapped reaction consistently on both sides"""
    import re
    maps = sorted({int(m) for m in re.findall(r":(\d+)\]", rsmi)})
    perm = maps[:]
    rng.shuffle(perm)
    table = dict(zip(maps, perm))
    return re.sub(r":(\d+)\]", lambda m: ":%d]" % table[int(m.group(1))], rsmi)


def rewrite_smiles(smiles, rng):
    """a random non-canonical rewriting of the same molecule(s): atom order, ring-closure digits, fragment order"""
    from rdkit import Chem
    frags = smiles.split(".")
    rng.shuffle(frags)
    out = []
    for f in frags:
        m = Chem.MolFromSmiles(f)
        if m is None:
            out.append(f)
            continue
        order = list(range(m.GetNumAtoms()))
        rng.shuffle(order)
        m2 = Chem.RenumberAtoms(m, order)
        out.append(Chem.MolToSmiles(m2, canonical=False))
    return ".".join(out)
