"""pyvc.gen -- small-input enumerators shared by the executable-twin harnesses (bounded stand-ins)."""
import itertools
import random

import networkx as nx

ORDERS = [(1, 1), (1, 2), (0, 1), (1, 0), (2, 1), (1.5, 1.5), (1.5, 1), (2, 2)]
ELEMS = ["C", "O", "H", "N"]


def its_node(el, hl=0, hr=0, ql=0, qr=0, arom=False):
    return dict(element=el, charge=ql, atom_map=0, hcount=hl,
                typesGH=((el, arom, hl, ql, []), (el, arom, hr, qr, [])))


def make_its(node_ids, elems, edge_labels, mtg=()):
    """edge_labels: dict (i,j) -> (o0,o1) over positions in node_ids"""
    G = nx.Graph()
    for n, el in zip(node_ids, elems):
        d = its_node(el)
        d["atom_map"] = n
        G.add_node(n, **d)
    for (i, j), (o0, o1) in edge_labels.items():
        G.add_edge(node_ids[i], node_ids[j], order=(o0, o1), standard_order=o0 - o1)
        if (i, j) in mtg:
            G[node_ids[i]][node_ids[j]]["is_mtg"] = True
    return G


def all_small_its(n, elems=("C", "H"), orders=((1, 1), (1, 2), (0, 1), (2, 1))):
    ids = list(range(1, n + 1))
    pairs = list(itertools.combinations(range(n), 2))
    for els in itertools.product(elems, repeat=n):
        for labs in itertools.product((None,) + tuple(orders), repeat=len(pairs)):
            yield make_its(ids, els, {p: l for p, l in zip(pairs, labs) if l is not None})


def random_its(rng, max_nodes=7):
    n = rng.randint(2, max_nodes)
    ids = rng.sample(range(1, 40), n)
    els = [rng.choice(ELEMS) for _ in range(n)]
    labels = {}
    mtg = set()
    for i, j in itertools.combinations(range(n), 2):
        if rng.random() < 0.45:
            labels[(i, j)] = rng.choice(ORDERS)
            if rng.random() < 0.15:
                mtg.add((i, j))
    G = make_its(ids, els, labels, mtg)
    # some atoms change their charge and / or hydrogen count (also atoms none of whose bonds change)
    for n_, d in G.nodes(data=True):
        if rng.random() < 0.3:
            ql, qr = rng.choice([(0, 1), (0, -1), (1, 0), (-1, 0), (1, 1)])
            hl, hr = rng.choice([(0, 0), (1, 0), (0, 1), (2, 3), (1, 1)])
            el = d["element"]
            d["charge"], d["hcount"] = ql, hl
            d["typesGH"] = ((el, False, hl, ql, []), (el, False, hr, qr, []))
    # a few irregular attributes the code must tolerate
    for u, v, d in G.edges(data=True):
        r = rng.random()
        if r < 0.05:
            d["standard_order"] = 0.0
        elif r < 0.08:
            d.pop("standard_order")
    for n_, d in G.nodes(data=True):
        if rng.random() < 0.1:
            d.pop("typesGH")
    return G


def graph_dump(G):
    return (sorted((n, sorted((k, repr(v)) for k, v in d.items())) for n, d in G.nodes(data=True)),
            sorted((tuple(sorted((u, v))), sorted((k, repr(x)) for k, x in d.items())) for u, v, d in G.edges(data=True)))


def graph_desc(G):
    return {"nodes": [[n, {k: (list(v) if isinstance(v, tuple) else v) for k, v in d.items() if k != "typesGH"}] for n, d in G.nodes(data=True)],
            "edges": [[u, v, {k: (list(x) if isinstance(x, tuple) else x) for k, x in d.items()}] for u, v, d in G.edges(data=True)]}


def mol_node(el, h=0, q=0, arom=False, amap=0):
    return dict(element=el, aromatic=arom, hcount=h, charge=q, atom_map=amap, neighbors=[])


def random_mol_pair(rng, max_nodes=6, same_nodes=True):
    """(G, H): reactant / product graphs on a shared node set (atom maps = node ids)"""
    n = rng.randint(1, max_nodes)
    ids = rng.sample(range(1, 30), n)
    G, H = nx.Graph(), nx.Graph()
    spectators = rng.random() < 0.5      # atoms whose labels do not change (pi-bond shifts, spectator fragments)
    for i in ids:
        el = rng.choice(ELEMS)
        g_attrs = mol_node(el, rng.randint(0, 3), rng.choice([0, 0, 1, -1]), rng.random() < 0.2, i)
        G.add_node(i, **g_attrs)
        if same_nodes or rng.random() < 0.8:
            if spectators and rng.random() < 0.8:
                H.add_node(i, **dict(g_attrs, neighbors=[]))
            else:
                H.add_node(i, **mol_node(el, rng.randint(0, 3), rng.choice([0, 0, 1, -1]), rng.random() < 0.2, i))
    for X in (G, H):
        nodes = list(X.nodes)
        for a, b in itertools.combinations(nodes, 2):
            if rng.random() < 0.4:
                X.add_edge(a, b, order=rng.choice([1, 2, 3, 1.5, 1.0, 2.0]))
    return G, H


def all_small_mol_pairs(n, elems=("C", "O"), orders=(1, 2), same_labels=False):
    ids = list(range(1, n + 1))
    pairs = list(itertools.combinations(range(n), 2))
    for els in itertools.product(elems, repeat=n):
        for lg in itertools.product((None,) + tuple(orders), repeat=len(pairs)):
            for lh in itertools.product((None,) + tuple(orders), repeat=len(pairs)):
                G, H = nx.Graph(), nx.Graph()
                for i, el in zip(ids, els):
                    G.add_node(i, **mol_node(el, 1, 0, False, i))
                    H.add_node(i, **mol_node(el, 1 if same_labels else 0, 0, False, i))
                for (a, b), o in zip(pairs, lg):
                    if o is not None:
                        G.add_edge(ids[a], ids[b], order=o)
                for (a, b), o in zip(pairs, lh):
                    if o is not None:
                        H.add_edge(ids[a], ids[b], order=o)
                yield G, H


def small_networks(n_species=3, max_rxn=2, coeffs=(1,), species="ABC"):
    """all reaction networks over n_species with up to max_rxn reactions; sides are multisets with the given
    coefficients (a side may be empty, a reaction must not be empty on both sides)"""
    sp = list(species[:n_species])
    sides = [{}]
    for k in range(1, n_species + 1):
        for combo in itertools.combinations(sp, k):
            for cs in itertools.product(coeffs, repeat=k):
                sides.append(dict(zip(combo, cs)))
    rxns = [(r, p) for r in sides for p in sides if (r or p)]
    for k in range(1, max_rxn + 1):
        for combo in itertools.combinations_with_replacement(range(len(rxns)), k):
            yield [rxns[i] for i in combo]


def random_network(rng, max_species=6, max_rxn=6, max_coeff=3):
    sp = ["S%d" % i for i in range(rng.randint(2, max_species))]
    out = []
    for _ in range(rng.randint(1, max_rxn)):
        r = {s: rng.randint(1, max_coeff) for s in rng.sample(sp, rng.randint(0, min(3, len(sp))))}
        p = {s: rng.randint(1, max_coeff) for s in rng.sample(sp, rng.randint(0, min(3, len(sp))))}
        if r or p:
            out.append((r, p))
    return out or [({sp[0]: 1}, {sp[1]: 1})]


def build_crn(rxns, rules=None):
    from synkit.CRN.Hypergraph.hypergraph import CRNHyperGraph
    H = CRNHyperGraph()
    for i, (r, p) in enumerate(rxns):
        H.add_rxn(dict(r), dict(p), rule=(rules[i] if rules else None))
    return H


def labelled_graphs(n_max, elems=("C", "O"), orders=(1, 2), hcounts=(0, 1), connected_only=False, limit=None, rng=None):
    """all labelled graphs on 1..n_max nodes (ids 0..n-1) over the given label sets (optionally sampled)"""
    out = []
    for n in range(1, n_max + 1):
        pairs = list(itertools.combinations(range(n), 2))
        for els in itertools.product(elems, repeat=n):
            for hs in itertools.product(hcounts, repeat=n):
                for labs in itertools.product((None,) + tuple(orders), repeat=len(pairs)):
                    G = nx.Graph()
                    for i in range(n):
                        G.add_node(i, element=els[i], hcount=hs[i], charge=0)
                    for (a, b), o in zip(pairs, labs):
                        if o is not None:
                            G.add_edge(a, b, order=o)
                    if connected_only and n > 0 and not nx.is_connected(G):
                        continue
                    out.append(G)
    if limit is not None and len(out) > limit and rng is not None:
        out = rng.sample(out, limit)
    return out


def brute_monos(host, pattern, node_attrs, edge_attrs, hrule=True):
    """all injective pattern->host maps preserving the selected labels (host hcount >= pattern hcount) and bonds"""
    P, Hn = list(pattern.nodes), list(host.nodes)
    res = []
    for image in itertools.permutations(Hn, len(P)):
        m = dict(zip(P, image))
        ok = True
        for p in P:
            a, b = host.nodes[m[p]], pattern.nodes[p]
            if any(a.get(k) != b.get(k) for k in node_attrs) or (hrule and a.get("hcount", 0) < b.get("hcount", 0)):
                ok = False
                break
        if ok:
            for p, q, d in pattern.edges(data=True):
                if not host.has_edge(m[p], m[q]) or any(host[m[p]][m[q]].get(k) != d.get(k) for k in edge_attrs):
                    ok = False
                    break
        if ok:
            res.append(m)
    return res
