"""pyvc.twin -- the executable twin of the contracts: the *same* contract texts evaluated natively
against the real code (runs under /venv/bin/python with PYTHONPATH=/repo).

Used for (1) replaying / finding concrete failing inputs for undischarged obligations and
(2) bounded stand-ins (labelled bounded, never counted as proved).
"""
from __future__ import annotations

import ast
import copy
import importlib.util
import os
import sys

VERIF = os.path.dirname(os.path.dirname(os.path.abspath(__file__)))
if VERIF not in sys.path:
    sys.path.insert(0, VERIF)

from pyvc import rt  # noqa: E402


def load_contract_module(prop):
    path = os.path.join(VERIF, "contracts", "%s.py" % prop)
    spec = importlib.util.spec_from_file_location("contract_" + prop, path)
    mod = importlib.util.module_from_spec(spec)
    spec.loader.exec_module(mod)
    return mod


class _Rewrite(ast.NodeTransformer):
    """old(E) -> __old__(lambda <params>: E);  A is B -> __same__(A, B)"""

    def __init__(self, params):
        self.params = params

    def visit_Call(self, node):
        self.generic_visit(node)
        if isinstance(node.func, ast.Name) and node.func.id == "old" and len(node.args) == 1:
            lam = ast.Lambda(
                args=ast.arguments(posonlyargs=[], args=[ast.arg(arg=p) for p in self.params], kwonlyargs=[],
                                   kw_defaults=[], defaults=[]),
                body=node.args[0])
            return ast.Call(func=ast.Name(id="__old__", ctx=ast.Load()), args=[lam], keywords=[])
        return node

    def visit_Compare(self, node):
        self.generic_visit(node)
        if len(node.ops) == 1 and isinstance(node.ops[0], (ast.Is, ast.IsNot)):
            a, b = node.left, node.comparators[0]
            if isinstance(b, ast.Constant) and b.value is None:
                return node
            call = ast.Call(func=ast.Name(id="__same__", ctx=ast.Load()), args=[a, b], keywords=[])
            if isinstance(node.ops[0], ast.IsNot):
                return ast.UnaryOp(op=ast.Not(), operand=call)
            return call
        return node


def _atoms(obj, out, seen, depth=0):
    """collect strings / ints reachable from obj (for quantifier universes)"""
    if id(obj) in seen or depth > 12:
        return
    seen.add(id(obj))
    if isinstance(obj, str):
        out["str"].add(obj)
    elif isinstance(obj, bool):
        pass
    elif isinstance(obj, int):
        out["int"].add(obj)
    elif isinstance(obj, dict):
        for k, v in obj.items():
            _atoms(k, out, seen, depth + 1)
            _atoms(v, out, seen, depth + 1)
    elif isinstance(obj, (list, tuple, set, frozenset)):
        for x in obj:
            _atoms(x, out, seen, depth + 1)
    elif hasattr(obj, "nodes") and hasattr(obj, "edges") and hasattr(obj, "adj"):
        for n, d in obj.nodes(data=True):
            _atoms(n, out, seen, depth + 1)
            _atoms(d, out, seen, depth + 1)
        for u, v, d in obj.edges(data=True):
            _atoms(d, out, seen, depth + 1)
    elif hasattr(obj, "__dict__"):
        for v in vars(obj).values():
            _atoms(v, out, seen, depth + 1)


class Twin:
    def __init__(self, prop):
        self.prop = prop
        self.mod = load_contract_module(prop)
        self.functions = self.mod.FUNCTIONS
        self._compiled = {}
        self.evaluations = 0

    def compile(self, text, params):
        key = (text, tuple(params))
        if key not in self._compiled:
            tree = ast.parse(text.strip(), mode="eval")
            tree = _Rewrite(list(params)).visit(tree)
            ast.fix_missing_locations(tree)
            self._compiled[key] = compile(tree, "<contract>", "eval")
        return self._compiled[key]

    def check_call(self, key, func, args, extra_universe=()):
        """run `func(**args)` under contract `key`.  Returns (outcome, violations) where outcome is
        ('return', value) / ('raise', exc) / ('skip', reason) and violations is a list of clause labels."""
        c = self.functions[key]
        params = list(args)
        ns = dict(vars(self.mod))
        ns.update(args)
        atoms = {"str": set(), "int": set()}
        _atoms(args, atoms, set())
        for x in extra_universe:
            _atoms(x, atoms, set())
        rt.UNIVERSE["str"] = sorted(atoms["str"])
        rt.UNIVERSE["int"] = sorted(atoms["int"])
        rt.UNIVERSE["any"] = sorted(atoms["str"]) + sorted(atoms["int"])

        def ev(text, env):
            code = self.compile(text, params)
            return eval(code, env)

        memo = {}
        snap = copy.deepcopy(args, memo)
        inv = {id(v): k for k, v in memo.items() if not isinstance(v, (str, int, float, bool, type(None), tuple))}
        orig_by_id = {}

        def walk(o, seen):
            if id(o) in seen:
                return
            seen.add(id(o))
            orig_by_id[id(o)] = o
            if isinstance(o, dict):
                for k, v in o.items():
                    walk(v, seen)
            elif isinstance(o, (list, tuple, set, frozenset)):
                for x in o:
                    walk(x, seen)
            elif hasattr(o, "__dict__"):
                for v in vars(o).values():
                    walk(v, seen)
        walk(args, set())
        pre_ids = set(orig_by_id)

        def same(a, b):
            if a is b:
                return True
            oa = inv.get(id(a))
            if oa is not None and oa == id(b):
                return True
            ob = inv.get(id(b))
            if ob is not None and ob == id(a):
                return True
            return False

        def old(f):
            return f(*[snap[p] for p in params])

        def is_fresh(o):
            return id(o) not in pre_ids

        rt._SAME_HOOK[0] = same
        ns["__same__"] = same
        ns["__old__"] = old
        ns["is_fresh"] = is_fresh
        # precondition
        try:
            for r in c.get("requires") or []:
                if not ev(r, ns):
                    return ("skip", "requires: " + r), []
        except Exception as ex:      # a precondition that cannot be evaluated on this input does not hold
            return ("skip", "requires raised %r" % (ex,)), []
        raises = c.get("raises") or {}
        expected = None
        for exc, cond in raises.items():
            if ev(cond, ns):
                expected = exc
                break
        self.evaluations += 1
        violations = []
        try:
            result = func(**args)
            outcome = ("return", result)
        except Exception as ex:
            outcome = ("raise", type(ex).__name__)
        # universe may have grown (generated ids)
        _atoms(args, atoms, set())
        if outcome[0] == "return":
            _atoms(outcome[1], atoms, set())
        rt.UNIVERSE["str"] = sorted(atoms["str"])
        rt.UNIVERSE["int"] = sorted(atoms["int"])
        rt.UNIVERSE["any"] = sorted(atoms["str"]) + sorted(atoms["int"])
        if outcome[0] == "raise":
            if outcome[1] != expected:
                violations.append("raise:%s (contract allows %s)" % (outcome[1], expected))
            else:
                for i, cl in enumerate(c.get("on_raise") or []):
                    try:
                        if not ev(cl, ns):
                            violations.append("on_raise[%d]" % i)
                    except Exception as ex:
                        violations.append("on_raise[%d] raised %r" % (i, ex))
            return outcome, violations
        if expected is not None:
            violations.append("post:no-%s (returned where the contract demands %s)" % (expected, expected))
            return outcome, violations
        ns["result"] = outcome[1]
        for i, cl in enumerate(c.get("ensures") or []):
            try:
                ok = ev(cl, ns)
            except Exception as ex:
                ok = False
                violations.append("ensures[%d] raised %r" % (i, ex))
                continue
            if not ok:
                violations.append("ensures[%d]" % i)
        return outcome, violations
