"""pyvc.contracts -- loading of sidecar contract files (/verif/contracts/Cxx.py).

A contract file is an ordinary Python module:

    PROPERTY  = "C15"
    CLASSES   = {"RXNSide": {"file": "synkit/CRN/Hypergraph/rxn.py", "fields": {"data": "dict[str,int]"}}, ...}
    FUNCTIONS = {"<relpath>::<qualname>": {params, returns, requires, ensures, raises, on_raise, modifies,
                                            mutates, loops, inline, cases}, ...}
    LEMMAS    = {...}            # obligations without code
    def wf(H): return ...        # spec functions: plain Python over the *real* objects, using pyvc.rt helpers

Contract expressions are Python-syntax strings.  They are evaluated (a) symbolically by the same
interpreter that runs the code (pure mode) and (b) natively by pyvc.rt against the real objects
(the executable twin used for replay and bounded stand-ins) -- one text, two semantics.
"""
from __future__ import annotations

import ast
import importlib.util
import os

from .core import parse_kind
from .source import ModuleSrc

VERIF = os.path.dirname(os.path.dirname(os.path.abspath(__file__)))


class ContractSet:
    def __init__(self, path, root=None):
        self.path = path
        self.root = root                     # repository root override (scratch copies); None = /repo
        rel = os.path.relpath(path, VERIF)
        self.spec_mod = ModuleSrc(rel, VERIF)
        self.spec_mod.is_spec = True
        spec = importlib.util.spec_from_file_location("contract_" + os.path.basename(path)[:-3], path)
        mod = importlib.util.module_from_spec(spec)
        spec.loader.exec_module(mod)
        self.pymod = mod
        self.property = mod.PROPERTY
        self.classes = {}
        for name, c in getattr(mod, "CLASSES", {}).items():
            self.classes[name] = {"file": c.get("file"),
                                  "fields": {f: parse_kind(k) for f, k in c.get("fields", {}).items()},
                                  "funcs": dict(c.get("funcs", {}))}
        if getattr(mod, "USES_NX", False):
            from .lib_nx import GRAPH_FIELDS
            for g in ("Graph", "DiGraph"):
                self.classes[g] = {"file": None, "fields": {f: parse_kind(k) for f, k in GRAPH_FIELDS.items()}}
        self.native_only = set(getattr(mod, "NATIVE_ONLY", []))
        self.functions = dict(getattr(mod, "FUNCTIONS", {}))
        self.lemmas = dict(getattr(mod, "LEMMAS", {}))
        self.spec_funcs = {n: f for n, f in self.spec_mod.funcs.items() if "." not in n}
        self._parsed = {}
        # INCLUDE = ["C15"]: classes, spec functions and (as assumed, verified under their own property) function contracts
        # of other contract files
        self.included = []
        for other in getattr(mod, "INCLUDE", []):
            o = ContractSet(os.path.join(VERIF, "contracts", "%s.py" % other), root)
            self.included.append(o)
            for name, c in o.classes.items():
                self.classes.setdefault(name, c)
            for name, f in o.spec_funcs.items():
                self.spec_funcs.setdefault(name, f)
            for name, g in o.spec_mod.globals.items():
                self.spec_mod.globals.setdefault(name, g)
            for key, c in o.functions.items():
                if key not in self.functions:
                    c2 = dict(c)
                    c2["assumed"] = True
                    c2["verified_under"] = other
                    self.functions[key] = c2
            self.native_only |= o.native_only

    def parse_expr(self, text):
        if text not in self._parsed:
            self._parsed[text] = ast.parse(text.strip(), mode="eval").body
        return self._parsed[text]
