"""pyvc.source -- mechanical extraction of the functions under contract from /repo's working tree.

Nothing is imported from the repository: files are read and parsed with `ast` on every run.
What extraction drops (complete list): type annotations, docstrings, comments, `logger.*` / `print`
calls (arguments are not evaluated), decorators staticmethod/classmethod/property/dataclass (their
semantics are built into the interpreter).  Any other decorator makes the function *unsupported*.
"""
from __future__ import annotations

import ast
import hashlib
import os

REPO = os.environ.get("PYVC_REPO", "/repo")


class Unsupported(Exception):
    """construct outside the supported subset (never silently skipped)"""


class ShapeMismatch(Exception):
    """the function no longer has the shape its contract is keyed to"""


class ModuleSrc:
    def __init__(self, relpath, root=None):
        self.relpath = relpath
        self.path = os.path.join(root or REPO, relpath)
        with open(self.path, "r", encoding="utf-8") as fh:
            self.text = fh.read()
        self.tree = ast.parse(self.text, filename=self.path)
        self.funcs = {}      # qualname -> FunctionDef
        self.classes = {}    # name -> ClassDef
        self.imports = {}    # local name -> (module dotted, attr or None)
        self.globals = {}    # simple module-level constants: name -> ast expr
        self.class_consts = {}   # (class, name) -> ast expr  (class-level assignments)
        self._index()

    def _index(self):
        for node in self.tree.body:
            if isinstance(node, (ast.FunctionDef, ast.AsyncFunctionDef)):
                self.funcs[node.name] = node
            elif isinstance(node, ast.ClassDef):
                self.classes[node.name] = node
                for sub in node.body:
                    if isinstance(sub, ast.FunctionDef):
                        self.funcs["%s.%s" % (node.name, sub.name)] = sub
                    elif isinstance(sub, ast.Assign) and len(sub.targets) == 1 and isinstance(sub.targets[0], ast.Name):
                        self.class_consts[(node.name, sub.targets[0].id)] = sub.value
                    elif isinstance(sub, ast.AnnAssign) and isinstance(sub.target, ast.Name) and sub.value is not None:
                        self.class_consts[(node.name, sub.target.id)] = sub.value
            elif isinstance(node, ast.Import):
                for a in node.names:
                    self.imports[a.asname or a.name.split(".")[0]] = (a.name, None)
            elif isinstance(node, ast.ImportFrom):
                mod = node.module or ""
                if node.level:
                    pkg = self.relpath[:-3].replace("/", ".").split(".")
                    pkg = pkg[: len(pkg) - node.level]
                    mod = ".".join(pkg + ([mod] if mod else []))
                for a in node.names:
                    self.imports[a.asname or a.name] = (mod, a.name)
            elif isinstance(node, ast.Assign) and len(node.targets) == 1 and isinstance(node.targets[0], ast.Name):
                self.globals[node.targets[0].id] = node.value
            elif isinstance(node, ast.AnnAssign) and isinstance(node.target, ast.Name) and node.value is not None:
                self.globals[node.target.id] = node.value
            elif isinstance(node, ast.Try):
                # try: import x ... except: fallback -- index names bound in the try body
                for sub in node.body:
                    if isinstance(sub, ast.ImportFrom):
                        for a in sub.names:
                            self.imports[a.asname or a.name] = (sub.module or "", a.name)
                    elif isinstance(sub, ast.Import):
                        for a in sub.names:
                            self.imports[a.asname or a.name.split(".")[0]] = (a.name, None)

    def func(self, qualname):
        """qualname may be 'f', 'C.m', or 'C.m.<nested>' / 'f.<nested>'"""
        parts = qualname.split(".")
        for n in (2, 1):
            head = ".".join(parts[:n])
            if head in self.funcs and len(parts) >= n:
                node = self.funcs[head]
                for nested in parts[n:]:
                    found = None
                    want, ordinal = (nested.split("#") + ["1"])[:2]
                    seen = 0
                    for sub in ast.walk(node):
                        if isinstance(sub, ast.FunctionDef) and sub.name == want and sub is not node:
                            seen += 1
                            if seen == int(ordinal):
                                found = sub
                                break
                    if found is None:
                        raise ShapeMismatch("%s::%s: nested function %s not found" % (self.relpath, qualname, nested))
                    node = found
                return node
        raise ShapeMismatch("%s::%s not found" % (self.relpath, qualname))

    def class_of(self, qualname):
        head = qualname.split(".")[0]
        return self.classes.get(head)

    def dataclass_fields(self, clsname):
        """[(name, default ast or None, default_factory ast or None)] for a @dataclass"""
        out = []
        for sub in self.classes[clsname].body:
            if isinstance(sub, ast.AnnAssign) and isinstance(sub.target, ast.Name):
                default, factory = sub.value, None
                if isinstance(default, ast.Call) and getattr(default.func, "id", None) == "field":
                    d2 = None
                    for kw in default.keywords:
                        if kw.arg == "default_factory":
                            factory = kw.value
                        elif kw.arg == "default":
                            d2 = kw.value
                    default = d2
                out.append((sub.target.id, default, factory))
        return out

    def is_dataclass(self, clsname):
        for d in self.classes[clsname].decorator_list:
            name = d.id if isinstance(d, ast.Name) else getattr(getattr(d, "func", None), "id", None)
            if name == "dataclass":
                return True
        return False


_cache = {}


def module(relpath, root=None):
    key = (root or REPO, relpath)
    if key not in _cache:
        _cache[key] = ModuleSrc(relpath, root)
    return _cache[key]


def clear_cache():
    _cache.clear()


def dotted_to_relpath(dotted, root=None):
    p = dotted.replace(".", "/")
    for cand in (p + ".py", p + "/__init__.py"):
        if os.path.exists(os.path.join(root or REPO, cand)):
            return cand
    return None


def strip_docstring(body):
    if body and isinstance(body[0], ast.Expr) and isinstance(getattr(body[0], "value", None), ast.Constant) \
            and isinstance(body[0].value.value, str):
        return body[1:]
    return body


def func_digest(node):
    """sha256 of the extracted text (ast.dump without positions, docstring removed)"""
    import copy
    n = copy.deepcopy(node)
    n.body = strip_docstring(n.body) or [ast.Pass()]
    return hashlib.sha256(ast.dump(n, annotate_fields=True, include_attributes=False).encode()).hexdigest()


def decorators(node):
    out = []
    for d in node.decorator_list:
        if isinstance(d, ast.Name):
            out.append(d.id)
        elif isinstance(d, ast.Attribute):
            out.append(d.attr)
        elif isinstance(d, ast.Call):
            f = d.func
            out.append(f.id if isinstance(f, ast.Name) else getattr(f, "attr", "?"))
        else:
            out.append("?")
    return out


def loops_of(node):
    """for/while loops of a function in source order (nested functions excluded), for ordinal keys"""
    out = []

    def visit(n):
        for child in ast.iter_child_nodes(n):
            if isinstance(child, (ast.FunctionDef, ast.AsyncFunctionDef, ast.Lambda, ast.ClassDef)):
                continue
            if isinstance(child, (ast.For, ast.While)):
                out.append(child)
            visit(child)

    visit(node)
    return out
