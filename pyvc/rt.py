"""pyvc.rt -- native (executable-twin) meaning of the specification builtins.

Contract files import * from here, so their spec functions run as ordinary Python on the real
objects.  Quantifier domains given as kind names ("str", "any", "int") range over pyvc.rt.UNIVERSE,
which the replay / bounded harness fills with the atoms occurring in the objects at hand.
"""
UNIVERSE = {"str": [], "int": [], "any": []}


def _dom(d):
    if isinstance(d, str):
        if d.startswith("obj:"):
            return list(UNIVERSE.get(d, []))
        return list(UNIVERSE.get(d, []))
    if isinstance(d, dict):
        return list(d.keys())
    return list(d)


def forall(dom, f):
    import inspect
    n = len(inspect.signature(f).parameters)
    if n == 1:
        return all(f(x) for x in _dom(dom))
    import itertools
    if not isinstance(dom, (tuple, str)) and hasattr(dom, "__call__") or type(dom).__name__.endswith("EdgeView"):
        return all(f(*x) for x in dom) and all(f(*reversed(tuple(x))) for x in dom)
    if isinstance(dom, (dict, set, frozenset)) and dom and all(isinstance(x, tuple) and len(x) == n for x in dom):
        return all(f(*x) for x in list(dom))      # tuple-keyed map / set: the lambda destructures the key
    doms = dom if isinstance(dom, tuple) and len(dom) == n else (dom,) * n
    return all(f(*xs) for xs in itertools.product(*[_dom(d) for d in doms]))


def exists(dom, f):
    import inspect
    n = len(inspect.signature(f).parameters)
    if n == 1:
        return any(f(x) for x in _dom(dom))
    import itertools
    if type(dom).__name__.endswith("EdgeView"):
        return any(f(*x) for x in dom) or any(f(*reversed(tuple(x))) for x in dom)
    if isinstance(dom, (dict, set, frozenset)) and dom and all(isinstance(x, tuple) and len(x) == n for x in dom):
        return any(f(*x) for x in list(dom))
    doms = dom if isinstance(dom, tuple) and len(dom) == n else (dom,) * n
    return any(f(*xs) for xs in itertools.product(*[_dom(d) for d in doms]))


def implies(a, b):
    return (not a) or bool(b)


def iff(a, b):
    return bool(a) == bool(b)


def ite(c, a, b):
    return a if c else b


def keys(d):
    return set(d.keys()) if isinstance(d, dict) else set(d)


_SAME_HOOK = [None]     # set by the twin: identity modulo the pre-state snapshot (copies of the same object are "the same")


def same(a, b):
    if a is b:
        return True
    h = _SAME_HOOK[0]
    if h is not None and h(a, b):
        return True
    try:
        return bool(a == b)
    except Exception:
        return False


def is_none(x):
    return x is None


def truthy(x):
    return bool(x)


def allocated(o):
    return True


def exists_w(dom, f, hint=None):
    return exists(dom, f)


def ball(G, centers, k):
    """atoms within k bonds of the centre set (the spec function behind `find_nearest_neighbors`)"""
    S = set(centers)
    for _ in range(k):
        S = S | {w for n in S for w in G.neighbors(n)}
    return S


def float_or_none(v):
    try:
        return float(v)
    except (TypeError, ValueError):
        return None


def alive(o):
    return True


def normalized(v):
    """engine-level representation invariant of tuples of symbolic length; always true of real tuples"""
    return True
