#!/bin/bash
# usage: mut.sh <relfile> <python-regex-from> <to> <contracts> <filter>
rm -rf /tmp/scr && mkdir -p /tmp/scr && cp -r /repo/synkit /tmp/scr/synkit
python3 - "$1" "$2" "$3" <<'PY'
import sys,re
p='/tmp/scr/'+sys.argv[1]; s=open(p).read()
n=s.count(sys.argv[2])
assert n>=1, "pattern not found"
s=s.replace(sys.argv[2], sys.argv[3], 1)
open(p,'w').write(s)
PY
cd /verif && PYVC_REPO=/tmp/scr T=5 python3-vt pyvc/devrun.py $4 $5 2>&1 | tail -${6:-8} | cut -c1-250
