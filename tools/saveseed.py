#!/usr/bin/env python3
"""tools/saveseed.py <prop> <i> <detection text>: copy /tmp/seed_<prop>/change<i> to /verif/seeded/<prop>-<i> with my confirmation notes"""
import json, os, shutil, sys
prop, i, det = sys.argv[1], sys.argv[2], sys.argv[3]
src = "/tmp/seed_%s/change%s" % (prop, i)
dst = "/verif/seeded/%s-%s" % (prop, i)
os.makedirs(dst, exist_ok=True)
for f in ("patch.diff", "demo.py"):
    shutil.copy(os.path.join(src, f), os.path.join(dst, f))
m = json.load(open(os.path.join(src, "meta.json")))
m["verified_by_me"] = "tools/seedtest.sh: demo exits 1 with the patch (scratch worktree), 0 without; the agent ran the listed tests and the full suite with the patch"
m["detection"] = det
json.dump(m, open(os.path.join(dst, "meta.json"), "w"), indent=1)
