#!/bin/bash
# tools/allseeds.sh [jobs]: re-run every confirmed seeded change against the registered check of its property.
# Each property's seeds run serially on a scratch copy of the repository (PYVC_REPO) with their own output directory (PYVC_OUT), the
# properties in parallel; /repo and /verif/evidence are not touched.  (tools/seedtest.sh is the variant that applies a patch to /repo itself.)
jobs=${1:-5}
cd /verif
run_prop() {
  prop=$1
  scr=/tmp/pyvc_seedrun_$prop; out=/tmp/pyvc_seedout_$prop
  for d in seeded/$prop-*/; do
    id=$(basename $d)
    rm -rf $scr $out; mkdir -p $scr $out
    cp -r /repo/synkit $scr/synkit; cp -r /repo/Data $scr/Data 2>/dev/null
    (cd $scr && git init -q . >/dev/null 2>&1; git apply /verif/$d/patch.diff) || { echo "$id PATCH-FAILED"; continue; }
    PYVC_REPO=$scr PYVC_OUT=$out ./check $prop quick > $out/out.txt 2> $out/err.txt; rc=$?
    echo "$id rc=$rc violations=$(grep -c VIOLATION $out/out.txt) $(grep '^pyvc' $out/err.txt | cut -c1-140)"
  done
  rm -rf $scr $out
}
export -f run_prop
ls seeded | sed 's/-[0-9]*$//' | sort -u | xargs -P $jobs -I{} bash -c 'run_prop {}'
