#!/bin/bash
# tools/allseeds.sh: re-run every confirmed seeded change against the registered check of its property (applies and undoes each patch on /repo)
cd /verif
for d in seeded/*/; do
  id=$(basename $d); prop=${id%-*}
  out=$(bash tools/seedtest.sh $prop /verif/$d 2>&1)
  rc=$(echo "$out" | grep -o "check rc=[0-9]*" | head -1)
  demo=$(echo "$out" | grep -o "demo with change: exit [0-9]* ; without: exit [0-9]*" | head -1)
  echo "$id $rc | $demo | $(echo "$out" | grep -c VIOLATION) violation line(s)"
done
git -C /repo status --short | head -3
