#!/bin/bash
# tools/seedtest_scratch.sh <prop> <seed_dir>: like seedtest.sh but on a scratch copy of the repository (PYVC_REPO / PYVC_OUT): /repo and
# /verif/evidence are not touched, so several can run in parallel and while other jobs use /repo.
prop=$1; d=$2; tag=$(basename $(dirname $d))_$(basename $d)
scr=/tmp/pyvc_st_$tag; out=/tmp/pyvc_sto_$tag
rm -rf $scr $out; mkdir -p $scr $out
cp -r /repo/synkit $scr/synkit; cp -r /repo/Data $scr/Data 2>/dev/null
(cd $scr && git init -q . >/dev/null 2>&1; git apply $d/patch.diff) || { echo "$tag PATCH-FAILED"; rm -rf $scr $out; exit 2; }
(cd $scr && PYTHONPATH=$scr /venv/bin/python $d/demo.py > $out/demo_with.out 2>&1); with=$?
(cd /repo && PYTHONPATH=/repo /venv/bin/python $d/demo.py > $out/demo_without.out 2>&1); without=$?
(cd /verif && PYVC_REPO=$scr PYVC_OUT=$out ./check $prop quick > $out/out.txt 2> $out/err.txt); rc=$?
echo "$tag demo with=$with without=$without check rc=$rc violations=$(grep -c VIOLATION $out/out.txt) $(grep '^pyvc' $out/err.txt | cut -c1-120)"
rm -rf $scr $out
