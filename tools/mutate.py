#!/usr/bin/env python3
"""tools/mutate.py <Cxx> [--per-func N] [--jobs J] [--seed S]: mechanical mutants of every function under a discharged contract,
each verified on a scratch copy of the repository (PYVC_REPO).  Measures how many mutants the *proof* notices:
  killed     some obligation of that function is no longer discharged (or is refuted)
  shape      the function no longer fits its contract / the supported subset (the real check then falls back to the bounded twin)
  survived   every obligation still discharges: equivalent mutant, or a contract too weak to notice -> listed for triage
Scratch copies live under /tmp/pyvc_mut_<k> and are removed at the end."""
import ast, copy, json, os, random, re, shutil, subprocess, sys, concurrent.futures

VERIF = os.path.dirname(os.path.dirname(os.path.abspath(__file__)))
sys.path.insert(0, VERIF)
REPO = "/repo"


class Mutator(ast.NodeTransformer):
    """applies exactly the k-th applicable mutation inside one function body"""
    def __init__(self, target):
        self.target, self.n, self.desc = target, 0, None

    def hit(self, what):
        self.n += 1
        if self.n - 1 == self.target:
            self.desc = what
            return True
        return False

    def visit_Compare(self, node):
        self.generic_visit(node)
        swaps = {ast.Eq: ast.NotEq, ast.NotEq: ast.Eq, ast.Lt: ast.LtE, ast.LtE: ast.Lt, ast.Gt: ast.GtE, ast.GtE: ast.Gt,
                 ast.In: ast.NotIn, ast.NotIn: ast.In, ast.Is: ast.IsNot, ast.IsNot: ast.Is}
        for i, op in enumerate(node.ops):
            if type(op) in swaps and self.hit("compare %s -> %s (line %d)" % (type(op).__name__, swaps[type(op)].__name__, node.lineno)):
                node.ops[i] = swaps[type(op)]()
        return node

    def visit_BinOp(self, node):
        self.generic_visit(node)
        swaps = {ast.Add: ast.Sub, ast.Sub: ast.Add, ast.BitOr: ast.BitAnd, ast.BitAnd: ast.BitOr}
        if type(node.op) in swaps and self.hit("binop %s -> %s (line %d)" % (type(node.op).__name__, swaps[type(node.op)].__name__, node.lineno)):
            node.op = swaps[type(node.op)]()
        return node

    def visit_BoolOp(self, node):
        self.generic_visit(node)
        if self.hit("boolop %s flipped (line %d)" % (type(node.op).__name__, node.lineno)):
            node.op = ast.Or() if isinstance(node.op, ast.And) else ast.And()
        return node

    def visit_Constant(self, node):
        if isinstance(node.value, bool):
            if self.hit("constant %r negated (line %d)" % (node.value, node.lineno)):
                return ast.copy_location(ast.Constant(value=not node.value), node)
        elif isinstance(node.value, int):
            if self.hit("constant %r + 1 (line %d)" % (node.value, node.lineno)):
                return ast.copy_location(ast.Constant(value=node.value + 1), node)
        return node

    def visit_If(self, node):
        self.generic_visit(node)
        if self.hit("if-test negated (line %d)" % node.lineno):
            node.test = ast.UnaryOp(op=ast.Not(), operand=node.test)
        return node

    def visit_Expr(self, node):
        self.generic_visit(node)
        if isinstance(node.value, ast.Call) and not (isinstance(node.value.func, ast.Attribute) and getattr(node.value.func.value, "id", "") in ("logger", "log")):
            if self.hit("call statement deleted (line %d)" % node.lineno):
                return ast.copy_location(ast.Pass(), node)
        return node

    def visit_Assign(self, node):
        self.generic_visit(node)
        if isinstance(node.targets[0], ast.Subscript) and self.hit("subscript assignment deleted (line %d)" % node.lineno):
            return ast.copy_location(ast.Pass(), node)
        return node

    def visit_AugAssign(self, node):
        self.generic_visit(node)
        if self.hit("augmented assignment deleted (line %d)" % node.lineno):
            return ast.copy_location(ast.Pass(), node)
        return node

    def visit_Continue(self, node):
        if self.hit("continue -> pass (line %d)" % node.lineno):
            return ast.copy_location(ast.Pass(), node)
        return node


def strip_doc(fn):
    if fn.body and isinstance(fn.body[0], ast.Expr) and isinstance(getattr(fn.body[0], "value", None), ast.Constant) and isinstance(fn.body[0].value.value, str):
        fn.body = fn.body[1:] or [ast.Pass()]


def find_func(tree, qual):
    from pyvc.source import ModuleSrc
    return None


def mutants_of(relpath, qual, limit, rng):
    from pyvc import source
    source.clear_cache()
    mod = source.ModuleSrc(relpath, REPO)
    node = mod.func(qual)
    # count applicable mutations
    probe = Mutator(-1)
    fn = copy.deepcopy(node)
    strip_doc(fn)
    probe.visit(fn)
    total = probe.n
    picks = list(range(total))
    rng.shuffle(picks)
    out = []
    for k in picks[:limit]:
        tree = copy.deepcopy(mod.tree)
        # locate the same function in the copied tree by position
        target = None
        for sub in ast.walk(tree):
            if isinstance(sub, ast.FunctionDef) and sub.name == node.name and sub.lineno == node.lineno:
                target = sub
                break
        strip_doc(target)
        m = Mutator(k)
        m.visit(target)
        ast.fix_missing_locations(tree)
        out.append((k, m.desc, ast.unparse(tree)))
    return total, out


def run_one(job):
    slot, prop, relpath, qual, k, desc, text = job
    scr = "/tmp/pyvc_mut_%d" % slot
    if not os.path.isdir(scr):
        os.makedirs(scr)
        shutil.copytree(os.path.join(REPO, "synkit"), os.path.join(scr, "synkit"))
    path = os.path.join(scr, relpath)
    orig = open(os.path.join(REPO, relpath)).read()
    open(path, "w").write(text)
    try:
        env = dict(os.environ, PYVC_REPO=scr, T="6")
        p = subprocess.run(["python3-vt", os.path.join(VERIF, "pyvc", "devrun.py"), os.path.join(VERIF, "contracts", prop + ".py"), "::" + qual],
                           capture_output=True, text=True, env=env, timeout=1500, cwd=VERIF)
        out = p.stdout + p.stderr
    except subprocess.TimeoutExpired:
        out = "TIMEOUT"
    finally:
        open(path, "w").write(orig)
    m = re.search(r"(\d+) obligations, (\d+) not discharged", out)
    if "FAILED" in out or "Traceback" in out:
        verdict = "shape"
    elif m and int(m.group(2)) > 0:
        verdict = "killed"
    elif m and int(m.group(1)) > 0:
        verdict = "survived"
    else:
        verdict = "shape"
    names = re.findall(r"^(?:undischarged|refuted) (\S+)", out, re.M)
    return dict(function=qual, mutation=desc, verdict=verdict, obligations=names[:3])


def main():
    prop = sys.argv[1]
    per = int(sys.argv[sys.argv.index("--per-func") + 1]) if "--per-func" in sys.argv else 8
    jobs_n = int(sys.argv[sys.argv.index("--jobs") + 1]) if "--jobs" in sys.argv else 6
    seed = int(sys.argv[sys.argv.index("--seed") + 1]) if "--seed" in sys.argv else 0
    rng = random.Random(seed)
    from pyvc.contracts import ContractSet
    cs = ContractSet(os.path.join(VERIF, "contracts", prop + ".py"))
    jobs = []
    for key, c in cs.functions.items():
        if c.get("assumed") or c.get("inline") or c.get("verified_under"):
            continue
        relpath, qual = key.split("::")
        try:
            total, ms = mutants_of(relpath, qual, per, rng)
        except Exception as ex:
            print("skip", key, ex)
            continue
        for k, desc, text in ms:
            jobs.append([None, prop, relpath, qual, k, desc, text])
    for i, j in enumerate(jobs):
        j[0] = i % jobs_n
    res = []
    # one worker per slot so that a scratch copy is never shared
    by_slot = {}
    for j in jobs:
        by_slot.setdefault(j[0], []).append(tuple(j))

    def work(slot_jobs):
        return [run_one(j) for j in slot_jobs]
    with concurrent.futures.ThreadPoolExecutor(max_workers=jobs_n) as ex:
        for part in ex.map(work, by_slot.values()):
            res.extend(part)
    for s in range(jobs_n):
        shutil.rmtree("/tmp/pyvc_mut_%d" % s, ignore_errors=True)
    summary = {}
    for r in res:
        d = summary.setdefault(r["function"], {"killed": 0, "shape": 0, "survived": 0})
        d[r["verdict"]] += 1
    out = {"property": prop, "per_function": summary, "survivors": [r for r in res if r["verdict"] == "survived"], "mutants": len(res)}
    os.makedirs(os.path.join(VERIF, "mutation"), exist_ok=True)
    json.dump(out, open(os.path.join(VERIF, "mutation", prop + ".json"), "w"), indent=1)
    tot = {"killed": 0, "shape": 0, "survived": 0}
    for d in summary.values():
        for k in tot:
            tot[k] += d[k]
    print(prop, "mutants", len(res), tot)
    for r in out["survivors"]:
        print("  SURVIVED", r["function"], "|", r["mutation"])


if __name__ == "__main__":
    main()
