#!/bin/bash
# tools/seedtest.sh <prop> <seed_dir> [testpath...]: confirm a seeded change (demo fails with it, passes without, tests pass),
# then run the registered quick check against it on /repo itself and undo it.
prop=$1; d=$2; shift 2
wt=/tmp/wt_confirm_$prop
git -C /repo worktree remove --force $wt 2>/dev/null
git -C /repo worktree add -q $wt HEAD || exit 2
git -C $wt apply $d/patch.diff || { echo "PATCH DOES NOT APPLY"; git -C /repo worktree remove --force $wt; exit 2; }
(cd $wt && PYTHONPATH=$wt /venv/bin/python $d/demo.py >/tmp/demo_with.out 2>&1); with=$?
(cd /repo && PYTHONPATH=/repo /venv/bin/python $d/demo.py >/tmp/demo_without.out 2>&1); without=$?
tests="n/a"
if [ $# -gt 0 ]; then
  (cd $wt && PYTHONPATH=$wt /venv/bin/python -m pytest -q -p no:cacheprovider --timeout=900 "$@" 2>&1 | tail -1 > /tmp/seed_tests.out); tests=$(cat /tmp/seed_tests.out)
fi
git -C /repo worktree remove --force $wt
echo "demo with change: exit $with ; without: exit $without ; tests: $tests"
git -C /repo apply $d/patch.diff || exit 2
# evidence and replay files committed in /verif must come from the unchanged tree: keep them aside while checking the changed tree
cp /verif/evidence/$prop.json /tmp/seed_evidence_keep.json 2>/dev/null
rm -rf /tmp/seed_replays_keep && cp -r /verif/replays /tmp/seed_replays_keep 2>/dev/null
(cd /verif && ./check $prop quick > /tmp/seed_check.out 2>/tmp/seed_check.err); rc=$?
git -C /repo checkout -- .
cp /tmp/seed_evidence_keep.json /verif/evidence/$prop.json 2>/dev/null
if [ -d /tmp/seed_replays_keep ]; then rm -rf /verif/replays && cp -r /tmp/seed_replays_keep /verif/replays; fi
echo "check rc=$rc"; grep -h "VIOLATION\|KNOWN\|BROKEN" /tmp/seed_check.out /tmp/seed_check.err | head -5; grep pyvc /tmp/seed_check.err | cut -c1-300
