"""C09 bounded stand-in / replay: reaction normal forms preserve the reaction; equivalence checks are exact."""
import random, logging, re
import networkx as nx
from operator import eq
from networkx.algorithms.isomorphism import generic_node_match, generic_edge_match

from synkit.Chem.Reaction.canon_rsmi import CanonRSMI
from synkit.Chem.Reaction.standardize import Standardize
from synkit.Chem.Reaction.aam_validator import AAMValidator
from synkit.Chem.Reaction.balance_check import BalanceReactionCheck
from synkit.IO.chem_converter import rsmi_to_graph, rsmi_to_its
from synkit.Graph.ITS.its_construction import ITSConstruction
from synkit.Graph.ITS.its_decompose import get_rc
from pyvc import chem

logging.disable(logging.CRITICAL)
K_PAIR = "synkit/Chem/Reaction/canon_rsmi.py::CanonRSMI.get_aam_pairwise_indices"


def its_of(rsmi):
    G, H = rsmi_to_graph(rsmi=rsmi, sanitize=True, drop_non_aam=True)
    return ITSConstruction().ITSGraph(G, H)


def its_equivalent(a, b):
    nm = generic_node_match(["typesGH"], [None], [eq])
    em = generic_edge_match("order", None, eq)
    return nx.is_isomorphic(its_of(a), its_of(b), node_match=nm, edge_match=em)


def exact_balanced(rsmi):
    r, p = rsmi.split(">>")
    fr, fp = chem.formula(r), chem.formula(p)
    if fr is None or fp is None:
        return None
    return fr == fp


def shuffle_fragments(rsmi, rng):
    r, p = rsmi.split(">>")
    a, b = r.split("."), p.split(".")
    rng.shuffle(a); rng.shuffle(b)
    return ".".join(a) + ">>" + ".".join(b)


def rewrite_mapped(rsmi, rng):
    """same mapped reaction, atoms of every fragment written in another order"""
    from rdkit import Chem
    out = []
    for side in rsmi.split(">>"):
        fr = []
        for f in side.split("."):
            ps = Chem.SmilesParserParams()
            ps.removeHs = False            # explicit, mapped hydrogens are part of the mapping
            m = Chem.MolFromSmiles(f, ps)
            if m is None:
                return None
            order = list(range(m.GetNumAtoms()))
            rng.shuffle(order)
            fr.append(Chem.MolToSmiles(Chem.RenumberAtoms(m, order), canonical=False))
        rng.shuffle(fr)
        out.append(".".join(fr))
    return ">>".join(out)


def centre_atoms(rsmi):
    try:
        rc = get_rc(rsmi_to_its(rsmi))
    except Exception:
        return []
    return [(n, d) for n, d in rc.nodes(data=True)], rc


def swap_maps(rsmi_side_product, a, b):
    return re.sub(r":(%d|%d)\]" % (a, b), lambda m: ":%d]" % (b if int(m.group(1)) == a else a), rsmi_side_product)


def distinguishable_reactants(rsmi):
    """all reactant atoms pairwise distinguishable: the reactant graph has no non-trivial automorphism on (element, charge, hcount, aromatic, order)"""
    G, _ = rsmi_to_graph(rsmi=rsmi, sanitize=True, drop_non_aam=True)
    gm = nx.algorithms.isomorphism.GraphMatcher(
        G, G, node_match=lambda x, y: all(x.get(k) == y.get(k) for k in ("element", "charge", "hcount", "aromatic")),
        edge_match=lambda x, y: x.get("order") == y.get("order"))
    n = 0
    for _ in gm.isomorphisms_iter():
        n += 1
        if n > 1:
            return False
    return True


CHARGE_CASES = ["[Fe+2]>>[Fe+3]", "C[O-]>>C[O]", "[Cu+].O>>[Cu+2].O", "[Na+].[Cl-]>>[Na]Cl", "CC(=O)[O-].[H+]>>CC(=O)O", "[NH4+]>>N",
                # element-balanced, net charges of equal size and opposite sign / sign flips / multi-ion sums
                "C[NH3+]>>[CH3-].N", "[Fe+2]>>[Fe-2]", "[Cl-]>>[Cl+]", "[Na+].[Cl-]>>[Na-].[Cl+]", "[Ca+2].[Cl-].[Cl-]>>[Ca]([Cl])[Cl]",
                "[O-]C(=O)C([O-])=O.[H+]>>OC(=O)C([O-])=O", "[O-]C(=O)C([O-])=O.[H+]>>OC(=O)C(O)=O", "[NH4+].[OH-]>>N.O", "[NH4+].[OH-]>>[NH2-].[OH3+]"]


def partly_unmapped(rsmi, rng):
    """a partially mapped variant of the kind expand_aam is written for: one by-product fragment is not drawn (its atoms lose their map
    numbers on the reactant side) and an unmapped spectator molecule is added to the reactants, so that two different reactant
    molecules carry unmapped atoms"""
    r, p = rsmi.split(">>")
    pf = p.split(".")
    if len(pf) < 2:
        return None, set()
    gone = min(pf, key=len)
    maps = set(re.findall(r":(\d+)\]", gone))
    keep = [f for f in pf if f is not gone]
    if not maps or not keep:
        return None, set()
    out_r = r
    for m in maps:
        out_r = re.sub(r"\[([A-Za-z][a-z]?)(H\d?)?([+-]\d?)?:%s\]" % m, lambda mo: "[" + mo.group(1) + (mo.group(2) or "") + (mo.group(3) or "") + "]", out_r)
    return out_r + ".CN(C)C>>" + ".".join(keep), maps


def check_reaction(tw, rsmi, fails, rng, tags, canons, std):
    def bad(fn, msg, clause, extra=None):
        fails.append({"function": fn, "violations": ["%s: %s" % (clause, msg)], "rsmi": rsmi, "tags": dict(tags, clause=clause, **(extra or {}))})
    nontriv = 0
    try:
        G0, H0 = rsmi_to_graph(rsmi=rsmi, sanitize=True, drop_non_aam=True)
        if G0 is None or H0 is None or G0.number_of_nodes() == 0:
            return 0          # the library cannot read this reaction (sanitisation): outside the property's domain
    except Exception:
        return 0
    # the pairing step under proof, on the real graphs of this reaction
    if K_PAIR in tw.functions:
        out, v = tw.check_call(K_PAIR, CanonRSMI.get_aam_pairwise_indices, dict(G=G0, H=H0, aam_key="atom_map"))
        if v:
            fails.append({"function": "CanonRSMI.get_aam_pairwise_indices", "violations": v, "rsmi": rsmi, "tags": tags})
    # --- canonical atom maps ---
    try:
        unm = std.fit(rsmi)
    except Exception as ex:
        unm = None
    variants = []
    try:
        variants.append(chem.renumber_rsmi(rsmi, rng))
        v2 = rewrite_mapped(rsmi, rng)
        if v2:
            variants.append(v2)
        variants.append(shuffle_fragments(chem.renumber_rsmi(rsmi, rng), rng))
    except Exception:
        pass
    for be, canon in canons.items():
        try:
            out = canon.canonicalise(rsmi).canonical_rsmi
        except Exception as ex:
            bad("CanonRSMI.canonicalise", "raised %r (%s)" % (ex, be), "canon-raises", {"backend": be})
            continue
        if out is None or ">>" not in out:
            bad("CanonRSMI.canonicalise", "returned %r (%s)" % (out, be), "canon-equivalent", {"backend": be})
            continue
        try:
            if not its_equivalent(rsmi, out):
                bad("CanonRSMI.canonicalise", "%s: output %s is not atom-map equivalent to the input" % (be, out), "canon-equivalent", {"backend": be})
        except Exception as ex:
            bad("CanonRSMI.canonicalise", "%s: output %s cannot be compared: %r" % (be, out, ex), "canon-equivalent", {"backend": be})
        try:
            if unm is not None and std.fit(out) != unm:
                bad("CanonRSMI.canonicalise", "%s: unmapped reaction changed %s -> %s" % (be, unm, std.fit(out)), "canon-unmapped", {"backend": be})
            again = canon.canonicalise(out).canonical_rsmi
            if again != out:
                bad("CanonRSMI.canonicalise", "%s: not a fixed point: %s -> %s" % (be, out, again), "canon-fixed-point", {"backend": be})
        except Exception as ex:
            bad("CanonRSMI.canonicalise", "raised %r on its own output (%s)" % (ex, be), "canon-fixed-point", {"backend": be})
        try:
            if distinguishable_reactants(rsmi):
                for v in variants:
                    o2 = canon.canonicalise(v).canonical_rsmi
                    if o2 != out:
                        bad("CanonRSMI.canonicalise", "%s: renumbered / reordered input %s gives %s, original gives %s" % (be, v, o2, out), "canon-invariant", {"backend": be})
                        break
                nontriv = 1
        except Exception as ex:
            bad("CanonRSMI.canonicalise", "raised %r on a renumbered input (%s)" % (ex, be), "canon-invariant", {"backend": be})
    # partially mapped input: unmapped reactant atoms get fresh map numbers; the result must still be a reaction with the same molecules
    try:
        pm, dropped = partly_unmapped(rsmi, rng)
        if dropped:
            want_p = std.fit(pm)
            for be, canon in canons.items():
                out_p = canon.canonicalise(pm).canonical_rsmi
                if out_p is None or "None" in str(out_p) or ">>" not in str(out_p) or (want_p is not None and std.fit(out_p) != want_p):
                    bad("CanonRSMI.canonicalise", "%s: partially mapped input %s gives %s (unmapped reaction %s expected)" % (be, pm, out_p, want_p), "canon-partial-maps", {"backend": be})
                    break
    except Exception as ex:
        bad("CanonRSMI.canonicalise", "raised %r on a partially mapped input" % (ex,), "canon-partial-maps")
    # --- standardisation ---
    try:
        if unm is not None:
            if std.fit(unm) != unm:
                bad("Standardize.fit", "not idempotent: %s -> %s" % (unm, std.fit(unm)), "std-idempotent")
            for v in variants:
                if std.fit(v) != unm:
                    bad("Standardize.fit", "variant %s standardises to %s, original to %s" % (v, std.fit(v), unm), "std-invariant")
                    break
    except Exception as ex:
        bad("Standardize.fit", "raised %r" % (ex,), "std-invariant")
    # --- validator ---
    for method in ("RC", "ITS"):
        try:
            for v in variants[:2]:
                if not AAMValidator.smiles_check(v, rsmi, check_method=method):
                    bad("AAMValidator.smiles_check", "%s: rejects the renumbering %s of the same mapping" % (method, v), "validator-accepts", {"method": method})
                    break
        except Exception as ex:
            bad("AAMValidator.smiles_check", "raised %r" % (ex,), "validator-accepts", {"method": method})
    # adversarial: transpose two non-equivalent centre atoms on the product side
    try:
        nodes, rc = centre_atoms(rsmi)
        r, p = rsmi.split(">>")
        done = 0
        for i in range(len(nodes)):
            for j in range(i + 1, len(nodes)):
                (a, da), (b, db) = nodes[i], nodes[j]
                if da.get("element") != db.get("element"):
                    continue          # the swapped string must stay a valid reaction of the same molecules
                wrong = r + ">>" + swap_maps(p, a, b)
                try:
                    same_rxn = std.fit(wrong) == unm
                    equiv = its_equivalent(rsmi, wrong)
                except Exception:
                    continue
                if not same_rxn or equiv:
                    continue          # not a different mapping of the same reaction
                done += 1
                for method in ("RC", "ITS"):
                    try:
                        eq_m = nx.is_isomorphic(get_rc(its_of(rsmi)) if method == "RC" else its_of(rsmi), get_rc(its_of(wrong)) if method == "RC" else its_of(wrong),
                                                node_match=generic_node_match(["typesGH"], [None], [eq]), edge_match=generic_edge_match("order", None, eq))
                    except Exception:
                        continue
                    if eq_m:
                        continue      # the two mappings have equivalent centres: accepting is right for this method
                    if AAMValidator.smiles_check(wrong, rsmi, check_method=method):
                        bad("AAMValidator.smiles_check", "%s: accepts the mapping %s in which centre atoms %d and %d are swapped" % (method, wrong, a, b),
                            "validator-rejects", {"method": method})
                if done >= 3:
                    break
            if done >= 3:
                break
    except Exception as ex:
        bad("AAMValidator.smiles_check", "raised %r on an adversarial mapping" % (ex,), "validator-rejects")
    # --- balance ---
    try:
        variants_b = [rsmi]
        r, p = rsmi.split(">>")
        if "." in r:
            variants_b.append(".".join(r.split(".")[1:]) + ">>" + p)                 # a fragment deleted
        variants_b.append(r + "." + r.split(".")[0] + ">>" + p)                        # a fragment duplicated
        variants_b.append(r + "." + r.split(".")[0] + ">>" + p + "." + r.split(".")[0])  # duplicated on both sides (stays balanced iff it was)
        for v in variants_b + CHARGE_CASES:
            want = exact_balanced(v)
            got = BalanceReactionCheck.rsmi_balance_check(v)
            if want is not None and bool(got) != want:
                bad("BalanceReactionCheck.rsmi_balance_check", "%s reported %s, element/charge counts say %s" % (v, got, want), "balance")
                break
    except Exception as ex:
        bad("BalanceReactionCheck.rsmi_balance_check", "raised %r" % (ex,), "balance")
    return nontriv


def run(tw, tier, seed, only=None):
    rng = random.Random(seed)
    fails, cases, nontriv, samples = [], 0, 0, []
    canons = {"wl": CanonRSMI(backend="wl", wl_iterations=3), "nauty": CanonRSMI(backend="nauty")}
    std = Standardize()
    rxns = chem.corpus_reactions(limit=40 if tier == "quick" else None, rng=rng)
    extra = ["[CH3:1][CH2:2][Br:3].[OH-:4]>>[CH3:1][CH2:2][OH:4]", "[CH3:7][CH2:2][Br:4].[OH-:9]>>[CH3:7][CH2:2][OH:9]",
             "[CH3:1][C:2](=[O:3])[OH:4].[CH3:5][OH:6]>>[CH3:1][C:2](=[O:3])[O:6][CH3:5]",
             "[CH3:1][CH:2]=[O:3].[CH3:4][CH:5]=[O:6]>>[CH3:1][CH:2]([OH:3])[CH2:4][CH:5]=[O:6]",
             "[HH:1].[HH:2].[O:3]=[O:4]>>[OH2:3].[OH2:4]", "[Cl-:1].[Cl-:2].[Ca+2:3]>>[Cl:1][Ca:3][Cl:2]"]
    for r in extra + rxns:
        try:
            nontriv += check_reaction(tw, r, fails, rng, {"family": "reaction"}, canons, std)
        except Exception as ex:
            fails.append({"function": "C09 twin", "violations": ["raised %r" % (ex,)], "rsmi": r, "tags": {}})
        cases += 1
    samples = (extra + rxns)[:2]
    return {"cases": cases, "nontrivial": nontriv, "failures": fails, "samples": samples, "exhaustive": False, "evaluations": cases,
            "bound": "%d mapped reactions (6 special: product side without the leaving group, repeated fragments, ionic; 10 vendored; %s of /repo's corpus); per reaction "
                     "3 renumbered / rewritten / fragment-shuffled variants, up to 3 adversarial transpositions of same-element centre atoms, 3 unbalanced variants; "
                     "canonicaliser back-ends wl and nauty; validator methods RC and ITS" % (cases, "a sample" if tier == "quick" else "all"),
            "rule": "a reaction is non-trivial when its reactant atoms are all distinguishable, so that the invariance clause applies"}


def replay(tw, desc):
    fails = []
    canons = {"wl": CanonRSMI(backend="wl", wl_iterations=3), "nauty": CanonRSMI(backend="nauty")}
    check_reaction(tw, desc["rsmi"], fails, random.Random(0), {}, canons, Standardize())
    return {"violations": [v for f in fails for v in f["violations"]]}
