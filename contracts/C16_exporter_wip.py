"""C16 -- network views (bipartite graph, reaction strings, species graph) round-trip exactly (sidecar contracts)."""
from pyvc.rt import *  # noqa: F401,F403
from contracts.C15 import wf, owned, occurs_r, occurs_p, R, P, norm_of, side_ok, support, not_in_use, implies_side, empty_input, stoich_is  # noqa: F401

PROPERTY = "C16"
USES_NX = True
INCLUDE = ["C15"]
CV = "synkit/CRN/Hypergraph/conversion.py"
CLASSES = {}
TRUSTED = ["A-nx-graph (DiGraph)", "A-builtins (sorted)", "C15 contracts (wf, add_rxn) -- verified under C15"]
ASSUMPTIONS = ["A-fmt: the node-id formatters f'S:{s}' and f'R:{e}' are injective and their ranges are disjoint (true for string "
               "concatenation with distinct non-empty prefixes); the integer-id / prefix-None configurations are covered by the twin only",
               "species-graph and reaction-string round trips are bounded (nested set/dict attributes, regex/string parsing)"]
NOT_APPLICABLE_CLAUSES = []
AXIOMS = [
    "forall(('str', 'str'), lambda a, b: implies(f'S:{a}' == f'S:{b}', a == b))",
    "forall(('str', 'str'), lambda a, b: implies(f'R:{a}' == f'R:{b}', a == b))",
    "forall(('str', 'str'), lambda a, b: f'S:{a}' != f'R:{b}')",
]


def sp(s):
    return f"S:{s}"


def rx(e):
    return f"R:{e}"


SP_ATTRS = ["bipartite", "label", "kind"]


def sp_attrs_ok(G, s):
    return G.nodes[sp(s)] == {"bipartite": 0, "label": s, "kind": "species"}


def rx_attrs_ok(G, H, e, with_eid):
    return G.nodes[rx(e)] == ({"bipartite": 1, "label": H.edges[e].rule, "kind": "reaction", "edge_id": e} if with_eid else
                              {"bipartite": 1, "label": H.edges[e].rule, "kind": "reaction"})


def view_nodes(G, H, E, with_eid):
    """species nodes for every species, reaction nodes exactly for the reactions in E, with their attributes"""
    return forall(H.species, lambda s: G.has_node(sp(s)) and sp_attrs_ok(G, s)) \
        and forall(E, lambda e: G.has_node(rx(e)) and rx_attrs_ok(G, H, e, with_eid)) \
        and forall(G.nodes, lambda n: exists(H.species, lambda s: same(n, sp(s))) or exists(E, lambda e: same(n, rx(e))))


def view_arcs(G, H, E):
    """arc species->reaction iff reactant (stoich, role), reaction->species iff product, for the reactions in E; no other arcs"""
    return forall((H.species, E), lambda s, e: G.has_edge(sp(s), rx(e)) == occurs_r(H, e, s)
                  and G.has_edge(rx(e), sp(s)) == occurs_p(H, e, s)) \
        and forall((H.species, E), lambda s, e: implies(occurs_r(H, e, s), G[sp(s)][rx(e)] == {"stoich": R(H, e, s), "role": "reactant"})
                   and implies(occurs_p(H, e, s), G[rx(e)][sp(s)] == {"stoich": P(H, e, s), "role": "product"})) \
        and forall(G.edges, lambda u, v: exists((H.species, E), lambda s, e: (same(u, sp(s)) and same(v, rx(e)))
                                                 or (same(u, rx(e)) and same(v, sp(s)))))


def is_view(G, H, with_eid):
    """G is the directed bipartite species/reaction view of the network H (string ids, default prefixes, stoichiometry and roles on)"""
    return view_nodes(G, H, keys(H.edges), with_eid) and view_arcs(G, H, keys(H.edges))


def map_ok(species_map, H):
    return keys(species_map) == H.species and forall(species_map, lambda s: same(species_map[s], sp(s)))


FUNCTIONS = {
    CV + "::hypergraph_to_bipartite": {
        "wip": True,      # invariants not complete yet: loop-2 step obligations still open (not registered in MANIFEST)
        "params": {"H": "obj:CRNHyperGraph", "species_prefix": "const:'S:'", "reaction_prefix": "const:'R:'",
                   "bipartite_values": "const:(0, 1)", "include_stoich": "const:True", "include_role": "const:True",
                   "include_isolated_species": "const:True", "integer_ids": "const:False", "include_edge_id_attr": "bool",
                   "include_mol": "const:False"},
        "vars": {"species_map": "dict[str,any]", "seen": "set[str]"},
        "returns": "obj:DiGraph",
        "requires": ["wf(H)"],
        "modifies": [],
        "ensures": ["is_fresh(result)", "is_view(result, H, include_edge_id_attr)"],
        "loops": {
            1: {"modifies": ["G.nodes", "G.nattr"],
                "inv": ["forall(species_map, lambda s: s in H.species and same(species_map[s], sp(s)))",
                        "forall(range(done), lambda j: species_iter[j] in species_map)",
                        "forall(species_map, lambda s: G.has_node(sp(s)) and sp_attrs_ok(G, s))",
                        "forall(G.nodes, lambda n: exists(species_map, lambda s: same(n, sp(s))))",
                        "forall(('any', 'any'), lambda u, v: not G.has_edge(u, v))"]},
            2: {"seq_as": "eids", "modifies": ["G.nodes", "G.nattr", "G.adj", "G.eattr"],
                "ghost_init": ["seen = set()"], "ghost_step": ["seen.add(eid)"],
                "inv": ["map_ok(species_map, H)",
                        "forall('str', lambda e: (e in seen) == exists(range(done), lambda j: eids[j] == e))",
                        "forall(seen, lambda e: e in H.edges)",
                        "view_nodes(G, H, seen, include_edge_id_attr)",
                        "view_arcs(G, H, seen)"]},
            3: {"modifies": ["G.nodes", "G.nattr", "G.adj", "G.eattr"],
                "inv": ["map_ok(species_map, H)", "same(rnode, rx(eid))",
                        # relative to the start of this reaction's iteration: one new node, reactant arcs of the species done
                        "forall('any', lambda n: G.has_node(n) == (at_iter(G.has_node(n)) or same(n, rx(eid))))",
                        "forall(at_iter(set(G.nodes)), lambda n: same(G.nodes[n], at_iter(G.nodes[n])))",
                        "rx_attrs_ok(G, H, eid, include_edge_id_attr)",
                        "forall(('any', 'any'), lambda u, v: G.has_edge(u, v) == (at_iter(G.has_edge(u, v)) or "
                        "       (same(v, rx(eid)) and exists(done, lambda s: same(u, sp(s))))))",
                        "forall(done, lambda s: G[sp(s)][rx(eid)] == {'stoich': R(H, eid, s), 'role': 'reactant'})",
                        "forall(at_iter(set(G.edges)), lambda u, v: same(G[u][v], at_iter(G[u][v])))"]},
            4: {"modifies": ["G.nodes", "G.nattr", "G.adj", "G.eattr"],
                "inv": ["map_ok(species_map, H)", "same(rnode, rx(eid))",
                        "forall('any', lambda n: G.has_node(n) == (at_iter(G.has_node(n)) or same(n, rx(eid))))",
                        "forall(at_iter(set(G.nodes)), lambda n: same(G.nodes[n], at_iter(G.nodes[n])))",
                        "rx_attrs_ok(G, H, eid, include_edge_id_attr)",
                        "forall(('any', 'any'), lambda u, v: G.has_edge(u, v) == (at_iter(G.has_edge(u, v)) or "
                        "       (same(v, rx(eid)) and exists(H.edges[eid].reactants.data, lambda s: same(u, sp(s)))) or "
                        "       (same(u, rx(eid)) and exists(done, lambda s: same(v, sp(s))))))",
                        "forall(H.edges[eid].reactants.data, lambda s: G[sp(s)][rx(eid)] == {'stoich': R(H, eid, s), 'role': 'reactant'})",
                        "forall(done, lambda s: G[rx(eid)][sp(s)] == {'stoich': P(H, eid, s), 'role': 'product'})",
                        "forall(at_iter(set(G.edges)), lambda u, v: same(G[u][v], at_iter(G[u][v])))"]},
        },
    },
}
