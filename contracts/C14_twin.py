"""C14 bounded stand-in / replay: cache transparency under id reuse and eviction, order-preserving de-duplication."""
import gc, itertools, random
import networkx as nx

from synkit.Synthesis.Reactor import batch_reactor as BRM

K_CALL = "synkit/Synthesis/Reactor/batch_reactor.py::_RuleApplier.__call__"
K_DD = "synkit/Synthesis/Reactor/batch_reactor.py::_dedupe"


class FakeApplier(BRM._RuleApplier):
    """the real caching logic with a cheap, content-determined stand-in for the reactor call"""
    __slots__ = ()

    def _execute(self, substrate, rule, inv):
        return ["%s|%s|%s" % (sorted(substrate.nodes(data="element")), sorted(rule.nodes(data="element")), inv)]


def make_graph(label, n):
    g = nx.Graph()
    for i in range(n):
        g.add_node(i, element=label)
    return g


# ---------------------------------------------------------------------------------------------------------------------
# end-to-end comparisons (bounded): batch vs single, serial vs parallel, cache on vs off, batched vs one-shot clustering
# ---------------------------------------------------------------------------------------------------------------------
RULES = ["[CH3:1][CH:2]=[O:3].[NH2:4][CH3:5]>>[CH3:1][CH:2]=[N:4][CH3:5].[OH2:3]",
         "[CH3:1][C:2](=[O:3])[OH:4].[CH3:5][OH:6]>>[CH3:1][C:2](=[O:3])[O:6][CH3:5].[OH2:4]",
         "[CH2:1]=[CH2:2].[H:3][H:4]>>[CH2:1]([H:3])[CH2:2][H:4]"]
SUBSTRATES = ["CC=O.NC", "CCC=O.NC", "CC=O.NCC", "CC(=O)O.CO", "CCC(=O)O.CO", "CC(=O)O.OCC", "C=C.[HH]", "CC=C.[HH]", "CCO", "CC=O", "CC=O.NC",
              "O=CC.CN", "CC(O)=O.OC", "OCC", "CC(=O)C", "C=CC.[HH]"]
MAPPED = [("[CH3:1][C:2](=[O:3])[OH:4].[CH3:5][OH:6]>>[CH3:1][C:2](=[O:3])[O:6][CH3:5].[OH2:4]",
           "[CH3:5][C:1](=[O:2])[OH:3].[CH3:6][OH:4]>>[CH3:5][C:1](=[O:2])[O:4][CH3:6].[OH2:3]"),
          ("[CH3:1][C:2](=[O:3])[OH:4].[CH3:5][CH2:6][OH:7]>>[CH3:1][C:2](=[O:3])[O:7][CH2:6][CH3:5].[OH2:4]",
           "[CH3:1][C:2](=[O:3])[OH:4].[CH3:5][CH2:6][OH:7]>>[CH3:1][C:2](=[O:4])[O:7][CH2:6][CH3:5].[OH2:3]"),      # carboxyl oxygens exchanged
          ("[CH3:1][C:2](=[O:3])[OH:4].[CH3:5][OH:6]>>[CH3:1][C:2](=[O:3])[O:6][CH3:5].[OH2:4]",
           "[CH3:5][C:1](=[O:2])[OH:3].[CH3:6][OH:4]>>[CH3:5][C:1](=[O:2])[O:3][CH3:6].[OH2:4]"),                      # wrong oxygen leaves
          ("[cH:1]1[cH:2][cH:3][cH:4][cH:5][c:6]1[Br:7].[OH2:8]>>[cH:1]1[cH:2][cH:3][cH:4][cH:5][c:6]1[OH:8].[BrH:7]",
           "[CH:1]1=[CH:2][CH:3]=[CH:4][CH:5]=[C:6]1[Br:7].[OH2:8]>>[CH:1]1=[CH:2][CH:3]=[CH:4][CH:5]=[C:6]1[OH:8].[BrH:7]"),  # Kekule form
          ("[CH3:1][CH:2]=[O:3].[NH2:4][CH3:5]>>[CH3:1][CH:2]=[N:4][CH3:5].[OH2:3]",
           "[CH3:2][CH:1]=[O:5].[NH2:3][CH3:4]>>[CH3:2][CH:1]=[N:3][CH3:4].[OH2:5]")]
BALANCE = ["CC=O.CC=O>>CC(O)CC=O", "CCO>>CC=O", "CC(=O)O.CO>>CC(=O)OC.O", "[HH].[HH].O=O>>O.O", "CO.CO>>CO", "C=C.[HH]>>CC", "CC>>C.C",
           "[Na+].[Cl-]>>[Na]Cl", "CC(=O)[O-].[H+]>>CC(=O)O"]


def end_to_end(tier, rng, fails):
    import networkx as nx, logging
    logging.disable(logging.CRITICAL)
    cases = 0

    def bad(fn, msg, clause):
        fails.append({"function": fn, "violations": ["%s: %s" % (clause, msg)], "tags": {"clause": clause}})
    # (1) rule application: every entry of a batch equals the entry applied alone; cache on/off; order; worker processes
    from synkit.Synthesis.Reactor.batch_reactor import BatchReactor
    key = "syn_fw"
    subs = SUBSTRATES if tier != "quick" else SUBSTRATES[:11]

    def fit(data, **kw):
        return [tuple(r[key]) for r in BatchReactor(list(data), react_engine="syn", enable_logging=False, **kw).fit(RULES)]
    alone = {s: fit([s], cache_enabled=False)[0] for s in set(subs)}
    for kw, name in (({"cache_enabled": True}, "cache on"), ({"cache_enabled": False}, "cache off"), ({"cache_enabled": True, "cache_maxsize": 2}, "cache of 2"),
                     ({"cache_enabled": True, "entry_n_jobs": 2}, "2 entry workers"), ({"cache_enabled": True, "parallel_rules": True, "rule_n_jobs": 2}, "parallel rules")):
        for order in (list(subs), list(reversed(subs)), rng.sample(subs, len(subs))):
            try:
                got = fit(order, **kw)
            except Exception as ex:
                bad("BatchReactor.fit", "%s raised %r" % (name, ex), "batch-vs-single")
                break
            cases += len(order)
            wrong = [(s, g) for s, g in zip(order, got) if sorted(g) != sorted(alone[s]) or (list(g) != list(alone[s]))]
            if wrong:
                bad("BatchReactor.fit", "%s, batch %s: entry %r got %d results, alone %d" % (name, order[:3], wrong[0][0], len(wrong[0][1]), len(alone[wrong[0][0]])),
                    "batch-vs-single")
                break
    # (1b) de-duplication off and a rule list in which one rule *object* occurs twice: cached results must not be aliased or grown in place
    try:
        from synkit.IO import rsmi_to_its
        r_br = rsmi_to_its("[CH3:1][Br:2].[OH:3][H:4]>>[CH3:1][OH:3].[Br:2][H:4]", core=True)
        r_cl = rsmi_to_its("[CH3:1][Cl:2].[OH:3][H:4]>>[CH3:1][OH:3].[Cl:2][H:4]", core=True)
        rep_subs = ["ClCCBr.O", "CCBr.O", "CCCl.O", "ClCCBr.O", "CCO"]

        def fit_rep(data, rules, **kw):
            return [list(r[key]) for r in BatchReactor(list(data), react_engine="syn", enable_logging=False, dedupe=False, **kw).fit(list(rules))]
        for rules in ([r_br, r_cl, r_br], [r_br, r_br], [r_cl, r_br, r_cl, r_br]):
            per_rule = {s: [x for r in rules for x in fit_rep([s], [r], cache_enabled=False)[0]] for s in set(rep_subs)}
            for kw, name in (({"cache_enabled": True}, "cache on"), ({"cache_enabled": False}, "cache off"), ({"cache_enabled": True, "cache_maxsize": 1}, "cache of 1")):
                got = fit_rep(rep_subs, rules, **kw)
                cases += len(rep_subs)
                wrong = [(s, g) for s, g in zip(rep_subs, got) if g != per_rule[s]]
                if wrong:
                    bad("BatchReactor.fit", "dedupe off, repeated rule object, %s: entry %r got %d results, per-rule concatenation has %d" % (
                        name, wrong[0][0], len(wrong[0][1]), len(per_rule[wrong[0][0]])), "batch-vs-single-nodedupe")
                    break
        if not any(per_rule.values()):
            bad("BatchReactor.fit", "no product generated (vacuous comparison)", "vacuity")
    except Exception as ex:
        bad("BatchReactor.fit", "dedupe off raised %r" % (ex,), "batch-vs-single-nodedupe")
    # (1c) two different rules that give the same reaction on a substrate (a generic rule and a context-extended variant): the
    #      cross-rule de-duplication must not depend on rule-level / entry-level workers, the cache or the batch
    try:
        from synkit.IO import rsmi_to_its
        r_gen = rsmi_to_its("[C:2](=[O:3])[O:4][H:7].[C:5][O:6][H:8]>>[C:2](=[O:3])[O:6][C:5].[H:7][O:4][H:8]", core=True)
        r_spec = rsmi_to_its("[C:1][C:2](=[O:3])[O:4][H:7].[C:5][O:6][H:8]>>[C:1][C:2](=[O:3])[O:6][C:5].[H:7][O:4][H:8]", core=False)
        ov_subs = ["CC(=O)O.CO", "OC=O.CCO", "CCC(=O)O.CCO", "CCO"]

        def fit_ov(data, **kw):
            return [list(r[key]) for r in BatchReactor(list(data), react_engine="syn", enable_logging=False, **kw).fit([r_gen, r_spec])]
        ov_alone = {s: fit_ov([s], cache_enabled=False)[0] for s in ov_subs}
        if not any(ov_alone.values()):
            bad("BatchReactor.fit", "overlapping rules give no product (vacuous comparison)", "vacuity")
        for kw, name in (({}, "defaults"), ({"parallel_rules": True, "rule_n_jobs": 2}, "parallel rules"), ({"entry_n_jobs": 2}, "2 entry workers"),
                         ({"parallel_rules": True, "rule_n_jobs": 2, "cache_enabled": False}, "parallel rules, cache off")):
            got = fit_ov(ov_subs, **kw)
            cases += len(ov_subs)
            wrong = [(s, g) for s, g in zip(ov_subs, got) if g != ov_alone[s]]
            if wrong:
                bad("BatchReactor.fit", "overlapping rules, %s: entry %r got %d results, alone %d" % (name, wrong[0][0], len(wrong[0][1]), len(ov_alone[wrong[0][0]])),
                    "batch-vs-single-overlap")
    except Exception as ex:
        bad("BatchReactor.fit", "overlapping rules raised %r" % (ex,), "batch-vs-single-overlap")
    # (2) batched clustering == one-shot clustering
    from synkit.Graph.Matcher.batch_cluster import BatchCluster

    def mol(atoms, bonds):
        g = nx.Graph()
        for i, (el, q) in enumerate(atoms, start=1):
            g.add_node(i, element=el, charge=q)
        for u, v, o in bonds:
            g.add_edge(u, v, order=o)
        return g
    graphs = [mol([("C", 0), ("O", 0)], [(1, 2, 1)]), mol([("C", 0), ("N", 0)], [(1, 2, 1)]), mol([("O", 0), ("C", 0)], [(1, 2, 1)]),
              mol([("C", 0), ("C", 0), ("O", 0)], [(1, 2, 1), (2, 3, 1)]), mol([("C", 0), ("O", -1)], [(1, 2, 1)]),
              mol([("C", 0), ("C", 0), ("N", 0)], [(1, 2, 1), (2, 3, 1)]), mol([("C", 0), ("N", 0)], [(1, 2, 1)]),
              mol([("O", 0), ("C", 0), ("C", 0)], [(1, 2, 1), (2, 3, 1)]), mol([("C", 0), ("O", 0)], [(1, 2, 2)])]

    def data():
        # "n" is an isomorphism invariant; "tag" is a caller-level pre-partition key that separates some isomorphic graphs
        return [{"id": i, "G": g, "n": "%dv%de" % (g.number_of_nodes(), g.number_of_edges()), "tag": "t%d" % (i % 2),
                 "WLHash": nx.weisfeiler_lehman_graph_hash(g, node_attr="element", edge_attr="order")} for i, g in enumerate(graphs)]

    def part(ds):
        groups = {}
        for d in ds:
            groups.setdefault(d["class"], set()).add(d["id"])
        return sorted(sorted(v) for v in groups.values())
    for attr in ("n", None, "tag", "WLHash"):
        try:
            ref, _ = BatchCluster().fit(data(), None, "G", attr, batch_size=None)
            for bs in (1, 2, 3, 4, 5):
                out, templates = BatchCluster().fit(data(), None, "G", attr, batch_size=bs)
                cases += 1
                if part(out) != part(ref) or len(templates) != len(part(ref)):
                    bad("BatchCluster.fit", "batch_size=%d (attribute %r): classes %s, one-shot %s" % (bs, attr, part(out), part(ref)), "batched-vs-oneshot")
                    break
        except Exception as ex:
            bad("BatchCluster.fit", "raised %r" % (ex,), "batched-vs-oneshot")
    # (3) validation: serial == parallel == one pair at a time, for every flag combination and method
    from synkit.Chem.Reaction.aam_validator import AAMValidator
    recs = [{"ref": a, "map": b} for a, b in MAPPED]
    for method in ("RC", "ITS"):
        for arom, taut in itertools.product((False, True), repeat=2):
            try:
                outs = {}
                for nj in (1, 2):
                    r = AAMValidator.validate_smiles(data=[dict(x) for x in recs], ground_truth_col="ref", mapped_cols=["map"], check_method=method,
                                                     ignore_aromaticity=arom, n_jobs=nj, verbose=0, ignore_tautomers=taut)[0]
                    outs[nj] = (list(r["results"]), r["accuracy"])
                single = [AAMValidator.check_pair(dict(x), "map", "ref", method, arom, taut) for x in recs]
            except Exception as ex:
                bad("AAMValidator.validate_smiles", "raised %r" % (ex,), "serial-vs-parallel")
                continue
            cases += 1
            if outs[1] != outs[2] or outs[1][0] != single:
                bad("AAMValidator.validate_smiles", "method %s ignore_aromaticity=%s ignore_tautomers=%s: serial %s parallel %s single %s"
                    % (method, arom, taut, outs[1], outs[2], single), "serial-vs-parallel")
    # (4) balance checking
    from synkit.Chem.Reaction.balance_check import BalanceReactionCheck
    single = [BalanceReactionCheck.rsmi_balance_check(r) for r in BALANCE]
    for nj in (1, 2):
        try:
            res = BalanceReactionCheck(n_jobs=nj).dicts_balance_check([{"rsmi": r} for r in BALANCE], "rsmi")
            got = [bool(x["balanced"]) if isinstance(x, dict) and "balanced" in x else x for x in (res[0] + res[1] if isinstance(res, tuple) else res)]
        except Exception as ex:
            bad("BalanceReactionCheck.dicts_balance_check", "raised %r" % (ex,), "serial-vs-parallel")
            continue
        cases += 1
        if isinstance(res, tuple):
            bal = sorted(x["rsmi"] for x in res[0])
            unb = sorted(x["rsmi"] for x in res[1])
            if bal != sorted(r for r, b in zip(BALANCE, single) if b) or unb != sorted(r for r, b in zip(BALANCE, single) if not b):
                bad("BalanceReactionCheck.dicts_balance_check", "n_jobs=%d: balanced %s differs from one-at-a-time %s" % (nj, bal, single), "serial-vs-parallel")
    # (4b) records that already carry fields (incl. an earlier "balanced" annotation): the record returned for an entry is the same
    #      whatever the worker count and whether it is checked alone or in a batch
    annotated = [{"id": "a", "rsmi": "CC(=O)O.CCO>>CC(=O)OCC.O"}, {"id": "b", "rsmi": "CC(=O)O.CCO>>CC(=O)OCC"},
                 {"id": "c", "rsmi": "CCBr.O>>CCO.Br", "balanced": False}, {"id": "d", "rsmi": "CCBr.O>>CCO", "balanced": True},
                 {"id": "e", "rsmi": "CCl.O>>CO.Cl", "balanced": True, "note": 1}]
    try:
        def bal_run(records, nj):
            b, u = BalanceReactionCheck(n_jobs=nj).dicts_balance_check([dict(r) for r in records], "rsmi")
            return sorted(b, key=lambda r: r["id"]), sorted(u, key=lambda r: r["id"])
        ref = bal_run(annotated, 1)
        for nj in (2, 3):
            cases += 1
            if bal_run(annotated, nj) != ref:
                bad("BalanceReactionCheck.dicts_balance_check", "annotated records: n_jobs=%d differs from n_jobs=1" % nj, "serial-vs-parallel")
        for nj in (1, 2):
            inb = {r["id"]: (r, i) for i, part in enumerate(bal_run(annotated, nj)) for r in part}
            for rec in annotated:
                cases += 1
                al = bal_run([rec], nj)
                got = (al[0][0], 0) if al[0] else (al[1][0], 1)
                if got != inb[rec["id"]]:
                    bad("BalanceReactionCheck.dicts_balance_check", "annotated record %s (n_jobs=%d): alone %s, in the batch %s" % (rec["id"], nj, got, inb[rec["id"]]), "batch-vs-single")
    except Exception as ex:
        bad("BalanceReactionCheck.dicts_balance_check", "annotated records raised %r" % (ex,), "serial-vs-parallel")
    # (5) network expansion
    from synkit.CRN.DAG.syncrn import build_syncrn_from_smarts

    def crn_dump(G):
        sp = {n: d.get("smiles") for n, d in G.nodes(data=True) if d.get("kind") == "species"}
        ev = sorted((sorted(sp.get(u, str(u)) for u in G.predecessors(n)), sorted(sp.get(v, str(v)) for v in G.successors(n)), d.get("rule_index"), d.get("step"))
                    for n, d in G.nodes(data=True) if d.get("kind") != "species")
        return sorted(map(str, sp.values())), ev
    crn_rules = ["[C:2]=[O:3].[H:6][N:4][H:7]>>[C:2]=[N:4].[H:6][O:3][H:7]",
                 "[C:2](=[O:3])[O:4][H:8].[C:5][O:6][H:7]>>[C:2](=[O:3])[O:6][C:5].[H:8][O:4][H:7]"]
    try:
        sn2 = ["[C:1][Br:2].[O:3][H:4]>>[C:1][O:3].[Br:2][H:4]"]
        for rl, seeds in ((crn_rules, ["CC=O", "NC", "CC(=O)O", "CO"]), (crn_rules, ["CC=O", "NC", "CO"]), (crn_rules, ["CC=O", "NC", "CC(=O)O", "CO", "NCC"]),
                          (sn2, ["CBr", "CCBr", "O"]), (sn2, ["CBr", "CCBr", "CCCBr", "O"]), (sn2, ["O", "CBr", "CCBr", "CC(C)Br", "BrCCBr"]),
                          (sn2 + crn_rules[:1], ["CBr", "O", "CC=O", "NC", "CCBr"])):
            a = crn_dump(build_syncrn_from_smarts(rl, seeds, repeats=2, parallel=False))
            if rl is crn_rules and len(seeds) == 4:
                # a configured matching strategy must reach the worker processes too (a two-component rule whose whole pattern also fits
                # inside one molecule -- a hydroxy acid -- tells the strategies apart)
                hy = ["[C:2](=[O:3])[O:4][H:7].[C:5][O:6][H:8]>>[C:2](=[O:3])[O:6][C:5].[H:7][O:4][H:8]",
                      "[C:2](=[O:3])[O:6][C:5].[H:7][O:4][H:8]>>[C:2](=[O:3])[O:4][H:7].[C:5][O:6][H:8]"]
                for strat in ("all", "comp", "bt"):
                    sa = crn_dump(build_syncrn_from_smarts(hy, ["OCCC(=O)O", "CO", "CCO", "O"], repeats=2, parallel=False, strategy=strat))
                    sb = crn_dump(build_syncrn_from_smarts(hy, ["OCCC(=O)O", "CO", "CCO", "O"], repeats=2, parallel=True, max_workers=2, strategy=strat))
                    cases += 1
                    if sa != sb:
                        bad("SynCRN.build", "strategy %s: parallel expansion differs from serial (%d vs %d events)" % (strat, len(sb[1]), len(sa[1])), "serial-vs-parallel")
            for mw in (2, 3, 4):          # worker counts that do and do not divide the number of rule applications of a step
                b = crn_dump(build_syncrn_from_smarts(rl, seeds, repeats=2, parallel=True, max_workers=mw))
                cases += 1
                if a != b:
                    bad("SynCRN.build", "parallel expansion (%d workers, seeds %s) differs from serial: %d vs %d events" % (mw, seeds, len(b[1]), len(a[1])), "serial-vs-parallel")
            if not a[1]:
                bad("SynCRN.build", "no reaction event generated (vacuous comparison)", "vacuity")
    except Exception as ex:
        bad("SynCRN.build", "raised %r" % (ex,), "serial-vs-parallel")
    return cases


def run(tw, tier, seed, only=None):
    rng = random.Random(seed)
    fails, cases, nontriv, samples = [], 0, 0, []
    cases += end_to_end(tier, rng, fails)
    rules = [make_graph("R%d" % i, 2) for i in range(2)]
    for cache_max in (1, 2, 5, 1000):
        ap = FakeApplier("syn", strategy="bt", explicit_h=False, implicit_temp=False, cache_enabled=True, cache_maxsize=cache_max)
        ref = FakeApplier("syn", strategy="bt", explicit_h=False, implicit_temp=False, cache_enabled=False, cache_maxsize=cache_max)
        # substrates are created and dropped one by one, as BatchReactor.fit's worker does: ids get reused
        for k in range(120 if tier == "quick" else 1500):
            g = make_graph("S%d" % rng.randrange(40), 1 + k % 3)
            r = rng.choice(rules)
            inv = rng.random() < 0.5
            want = ref(g, r, inv)
            if k % 7 == 0:
                out, v = tw.check_call(K_CALL, FakeApplier.__call__, dict(self=ap, substrate=g, rule=r, inv=inv))
                got = out[1] if out[0] == "return" else None
                if v:
                    fails.append({"function": "_RuleApplier.__call__", "violations": v, "cache_max": cache_max, "step": k, "tags": {}})
            else:
                got = ap(g, r, inv)
            cases += 1
            if got != want:
                fails.append({"function": "_RuleApplier.__call__", "violations": [
                    "cached answer %s differs from the uncached answer %s (cache_max=%d, call %d)" % (got, want, cache_max, k)],
                    "tags": {"clause": "cache-transparency"}})
                break
            if ap._cache is not None and len(ap._cache) > max(cache_max, 1):
                fails.append({"function": "_RuleApplier.__call__", "violations": ["cache grew beyond its maximum"], "tags": {}})
                break
            nontriv += 1
            del g
            if k % 10 == 0:
                gc.collect()
    for _ in range(100 if tier == "quick" else 1000):
        items = [rng.choice("abcde") * rng.randint(1, 2) for _ in range(rng.randint(0, 8))]
        out, v = tw.check_call(K_DD, BRM._dedupe, dict(items=list(items)))
        cases += 1
        seen, want = set(), []
        for x in items:
            if x not in seen:
                seen.add(x)
                want.append(x)
        if out[0] == "return" and out[1] != want:
            v = list(v) + ["not the order-preserving first occurrences"]
        if v:
            fails.append({"function": "_dedupe", "violations": v, "items": items, "tags": {}})
        if len(samples) < 2:
            samples.append(items)
    return {"cases": cases, "nontrivial": nontriv, "failures": fails, "samples": samples, "exhaustive": False, "evaluations": tw.evaluations,
            "bound": "end-to-end: BatchReactor on %d substrates x 3 rules (cache on/off/size 2, 3 batch orders, 2 entry workers, parallel rules) vs each "
                     "substrate alone; BatchCluster batch sizes 1..5 vs one-shot on 9 small graphs; validate_smiles n_jobs 1/2 vs check_pair (2 methods x 4 flag "
                     "combinations, 5 mapped pairs); balance check n_jobs 1/2 vs single; SynCRN serial vs 2 workers.  Unit level: %d cached calls on short-lived substrates (cache sizes 1, 2, 5, 1000; ids reused after collection) compared with uncached calls, plus random de-duplication inputs" % (len(SUBSTRATES), cases),
            "rule": "a call is non-trivial when it completes and is compared with the uncached answer"}


def replay(tw, desc):
    """the failures of this property are history dependent (id reuse, batch composition): the whole bounded run is repeated on the
    current tree and the failures of the recorded function are reported"""
    res = run(tw, "quick", 0)
    return {"violations": [v for f in res["failures"] if f.get("function") == desc.get("function") for v in f["violations"]]}
