"""C14 bounded stand-in / replay: cache transparency under id reuse and eviction, order-preserving de-duplication."""
import gc, random
import networkx as nx

from synkit.Synthesis.Reactor import batch_reactor as BRM

K_CALL = "synkit/Synthesis/Reactor/batch_reactor.py::_RuleApplier.__call__"
K_DD = "synkit/Synthesis/Reactor/batch_reactor.py::_dedupe"


class FakeApplier(BRM._RuleApplier):
    """the real caching logic with a cheap, content-determined stand-in for the reactor call"""
    __slots__ = ()

    def _execute(self, substrate, rule, inv):
        return ["%s|%s|%s" % (sorted(substrate.nodes(data="element")), sorted(rule.nodes(data="element")), inv)]


def make_graph(label, n):
    g = nx.Graph()
    for i in range(n):
        g.add_node(i, element=label)
    return g


def run(tw, tier, seed, only=None):
    rng = random.Random(seed)
    fails, cases, nontriv, samples = [], 0, 0, []
    rules = [make_graph("R%d" % i, 2) for i in range(2)]
    for cache_max in (1, 2, 5, 1000):
        ap = FakeApplier("syn", strategy="bt", explicit_h=False, implicit_temp=False, cache_enabled=True, cache_maxsize=cache_max)
        ref = FakeApplier("syn", strategy="bt", explicit_h=False, implicit_temp=False, cache_enabled=False, cache_maxsize=cache_max)
        # substrates are created and dropped one by one, as BatchReactor.fit's worker does: ids get reused
        for k in range(120 if tier == "quick" else 1500):
            g = make_graph("S%d" % rng.randrange(40), 1 + k % 3)
            r = rng.choice(rules)
            inv = rng.random() < 0.5
            want = ref(g, r, inv)
            if k % 7 == 0:
                out, v = tw.check_call(K_CALL, FakeApplier.__call__, dict(self=ap, substrate=g, rule=r, inv=inv))
                got = out[1] if out[0] == "return" else None
                if v:
                    fails.append({"function": "_RuleApplier.__call__", "violations": v, "cache_max": cache_max, "step": k, "tags": {}})
            else:
                got = ap(g, r, inv)
            cases += 1
            if got != want:
                fails.append({"function": "_RuleApplier.__call__", "violations": [
                    "cached answer %s differs from the uncached answer %s (cache_max=%d, call %d)" % (got, want, cache_max, k)],
                    "tags": {"clause": "cache-transparency"}})
                break
            if ap._cache is not None and len(ap._cache) > max(cache_max, 1):
                fails.append({"function": "_RuleApplier.__call__", "violations": ["cache grew beyond its maximum"], "tags": {}})
                break
            nontriv += 1
            del g
            if k % 10 == 0:
                gc.collect()
    for _ in range(100 if tier == "quick" else 1000):
        items = [rng.choice("abcde") * rng.randint(1, 2) for _ in range(rng.randint(0, 8))]
        out, v = tw.check_call(K_DD, BRM._dedupe, dict(items=list(items)))
        cases += 1
        seen, want = set(), []
        for x in items:
            if x not in seen:
                seen.add(x)
                want.append(x)
        if out[0] == "return" and out[1] != want:
            v = list(v) + ["not the order-preserving first occurrences"]
        if v:
            fails.append({"function": "_dedupe", "violations": v, "items": items, "tags": {}})
        if len(samples) < 2:
            samples.append(items)
    return {"cases": cases, "nontrivial": nontriv, "failures": fails[:20], "samples": samples, "exhaustive": False, "evaluations": tw.evaluations,
            "bound": "%d cached calls on short-lived substrates (cache sizes 1, 2, 5, 1000; ids reused after collection) compared with uncached calls, plus random de-duplication inputs" % cases,
            "rule": "a call is non-trivial when it completes and is compared with the uncached answer"}


def replay(tw, desc):
    return {"note": "history-dependent (id reuse); re-run the quick check", "violations": desc.get("violations", [])}
