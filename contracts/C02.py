"""C02 -- reaction centre = changed bonds (+ H-H bonds); radius-k context (sidecar contracts)."""
from pyvc.rt import *  # noqa: F401,F403

PROPERTY = "C02"
USES_NX = True
DEC = "synkit/Graph/ITS/its_decompose.py"
CLASSES = {}
TRUSTED = ["A-nx-graph (pyvc/lib_nx.py: node/edge tables, live attribute dicts, arbitrary-order iteration, subgraph/copy)",
           "A-builtins (dict/set/list methods, comprehensions)", "A-itertools (chain.from_iterable)",
           "ball(G,C,k) axiomatised by Ball(0)=C, Ball(i+1)=Ball(i)+N(Ball(i))"]
ASSUMPTIONS = ["A-real: bond orders are numbers on which Python arithmetic is exact",
               "get_rc is verified for disconnected=False (both keep_mtg values); key names satisfy keys_ok",
               "extract_k is verified for n_knn >= 0 (the DFS variant n_knn=-1 is outside the contract)"]
NOT_APPLICABLE_CLAUSES = ["renumbering the atom maps of the reaction SMILES yields an isomorphic centre: the SMILES front end "
                          "(rsmi_to_its) is RDKit; at graph level equivariance follows from the postcondition is_rc, which does not mention node identities"]


def is_number(x):
    return isinstance(x, (int, float))


def incl(std, mtg, keep):
    """the statement's inclusion rule: a bond belongs to the centre iff its standard order is a non-zero number
    (no tolerance), or it is flagged is_mtg and keep_mtg is on"""
    return (is_number(std) and std != 0) or (truthy(keep) and truthy(mtg))


def edge_incl(ITS, u, v, standard_key, keep_mtg):
    return incl(ITS[u][v].get(standard_key), ITS[u][v].get("is_mtg", False), keep_mtg)


def picked_attrs(rc, ITS, n, element_key):
    """rc's attributes of n are exactly ITS's attributes restricted to element_key"""
    return forall('str', lambda k: (k in rc.nodes[n]) == (k in element_key and k in ITS.nodes[n])) \
        and forall(rc.nodes[n], lambda k: rc.nodes[n][k] == ITS.nodes[n][k])


def edge_attrs_ok(rc, ITS, u, v, bond_key, standard_key):
    return rc[u][v].get(bond_key) == ITS[u][v].get(bond_key) \
        and rc[u][v].get(standard_key) == ITS[u][v].get(standard_key) \
        and rc[u][v].get("is_mtg") == ITS[u][v].get("is_mtg", False) \
        and forall(rc[u][v], lambda k: k == bond_key or k == standard_key or k == "is_mtg")


HH_FALLBACK = (("H", False, 0, 0, []), ("*", False, 0, 0, []))


def is_hh(ITS, u, v):
    return ITS.nodes[u].get("element") == "H" and ITS.nodes[v].get("element") == "H"


def hh_types(ITS, n):
    return ITS.nodes[n]["typesGH"] if "typesGH" in ITS.nodes[n] else HH_FALLBACK


def picked_attrs_hh(rc, ITS, n, element_key):
    """H-H endpoints: element_key attributes of ITS plus a typesGH that falls back to the documented default"""
    return forall('str', lambda k: (k in rc.nodes[n]) == (k == "typesGH" or (k in element_key and k in ITS.nodes[n]))) \
        and forall(rc.nodes[n], lambda k: rc.nodes[n][k] == (hh_types(ITS, n) if k == "typesGH" else ITS.nodes[n][k]))


RE = "synkit/Graph/Context/radius_expand.py"
DEFAULT_KEYS = ["element", "charge", "typesGH", "atom_map"]


def is_rc_node(ITS, n, standard_key, keep_mtg):
    return exists(ITS.nodes, lambda w: ITS.has_edge(n, w) and (edge_incl(ITS, n, w, standard_key, keep_mtg) or is_hh(ITS, n, w)))


def is_rc(rc, ITS, element_key, bond_key, standard_key, keep_mtg):
    """rc is the reaction centre of ITS (the statement of C02 at graph level)"""
    return (
        # a bond is in the centre iff it changes (non-zero standard order; is_mtg if asked) or joins two hydrogens
        forall(('any', 'any'), lambda u, v: rc.has_edge(u, v) == (ITS.has_edge(u, v) and (
            edge_incl(ITS, u, v, standard_key, keep_mtg) or is_hh(ITS, u, v))))
        # exactly the atoms incident to those bonds
        and forall(rc.nodes, lambda n: ITS.has_node(n) and exists(rc.nodes, lambda w: rc.has_edge(n, w)))
        # with their ITS labels
        and forall(rc.nodes, lambda n: picked_attrs(rc, ITS, n, element_key) or picked_attrs_hh(rc, ITS, n, element_key))
        and forall(rc.edges, lambda u, v: edge_attrs_ok(rc, ITS, u, v, bond_key, standard_key)))


def keys_ok(bond_key, standard_key):
    return bond_key != standard_key and bond_key != "is_mtg" and standard_key != "is_mtg"


FUNCTIONS = {
    DEC + "::_should_include_edge": {
        "params": {"std": "any", "is_mtg_attr": "any", "keep_mtg": "bool"},
        "returns": "bool",
        "ensures": ["result == incl(std, is_mtg_attr, keep_mtg)"],
    },
    DEC + "::_ensure_node": {
        "params": {"rc": "obj:Graph", "ITS": "obj:Graph", "node": "any", "element_key": "list[str]"},
        "requires": ["rc is not ITS", "ITS.has_node(node)"],
        "modifies": ["rc.nodes", "rc.nattr"],
        "ensures": [
            "rc.has_node(node)",
            "forall('any', lambda n: implies(not same(n, node), rc.has_node(n) == old(rc.has_node(n))))",
            "forall(old(set(rc.nodes)), lambda n: same(rc.nodes[n], old(rc.nodes[n])))",
            "implies(not old(rc.has_node(node)), picked_attrs(rc, ITS, node, element_key))",
        ],
    },
    DEC + "::_add_changed_bonds": {
        "params": {"ITS": "obj:Graph", "rc": "obj:Graph", "element_key": "list[str]", "bond_key": "str",
                   "standard_key": "str", "keep_mtg": "bool"},
        "vars": {"wit": "dict[any,any]"},
        "requires": ["rc is not ITS", "forall('any', lambda n: not rc.has_node(n))", "keys_ok(bond_key, standard_key)"],
        "modifies": ["rc.nodes", "rc.nattr", "rc.adj", "rc.eattr"],
        "ensures": [
            "forall(('any', 'any'), lambda u, v: rc.has_edge(u, v) == (ITS.has_edge(u, v) and edge_incl(ITS, u, v, standard_key, keep_mtg)))",
            "forall(rc.nodes, lambda n: ITS.has_node(n) and picked_attrs(rc, ITS, n, element_key))",
            "forall(rc.edges, lambda u, v: edge_attrs_ok(rc, ITS, u, v, bond_key, standard_key))",
            "forall(rc.nodes, lambda n: exists_w(rc.nodes, lambda w: rc.has_edge(n, w), 'wit[n]'))",
        ],
        "loops": {1: {
            "ghost_init": ["wit = {}"],
            "ghost_step": ["if rc.has_edge(u, v):\n    wit[u] = v\n    wit[v] = u"],
            "inv": [
                "forall(('any', 'any'), lambda a, b: rc.has_edge(a, b) == ((a, b) in done and edge_incl(ITS, a, b, standard_key, keep_mtg)))",
                "forall(rc.nodes, lambda n: ITS.has_node(n) and picked_attrs(rc, ITS, n, element_key))",
                "forall(rc.edges, lambda a, b: edge_attrs_ok(rc, ITS, a, b, bond_key, standard_key))",
                "forall(rc.nodes, lambda n: n in wit)",
                "forall(rc.nodes, lambda n: rc.has_edge(n, wit[n]))",
            ]}},
    },
    DEC + "::_ensure_node_hh": {
        "params": {"rc": "obj:Graph", "ITS": "obj:Graph", "node": "any", "element_key": "list[str]"},
        "vars": {"node_data": "dict[str,any]"},
        "requires": ["rc is not ITS", "ITS.has_node(node)"],
        "modifies": ["rc.nodes", "rc.nattr"],
        "ensures": [
            "rc.has_node(node)",
            "forall('any', lambda n: implies(not same(n, node), rc.has_node(n) == old(rc.has_node(n))))",
            "forall(old(set(rc.nodes)), lambda n: same(rc.nodes[n], old(rc.nodes[n])))",
            "implies(not old(rc.has_node(node)), picked_attrs_hh(rc, ITS, node, element_key))",
        ],
    },
    DEC + "::_add_hh_bonds": {
        "params": {"ITS": "obj:Graph", "rc": "obj:Graph", "element_key": "list[str]", "bond_key": "str",
                   "standard_key": "str"},
        "vars": {"wit": "dict[any,any]"},
        "requires": ["rc is not ITS", "keys_ok(bond_key, standard_key)"],
        "modifies": ["rc.nodes", "rc.nattr", "rc.adj", "rc.eattr"],
        "ensures": [
            "forall(('any', 'any'), lambda u, v: rc.has_edge(u, v) == (old(rc.has_edge(u, v)) or (ITS.has_edge(u, v) and is_hh(ITS, u, v))))",
            "forall(old(set(rc.nodes)), lambda n: rc.has_node(n) and same(rc.nodes[n], old(rc.nodes[n])))",
            "forall(rc.nodes, lambda n: old(rc.has_node(n)) or (ITS.has_node(n) and picked_attrs_hh(rc, ITS, n, element_key)"
            "       and exists_w(rc.nodes, lambda w: rc.has_edge(n, w), 'wit[n]')))",
            "forall(rc.edges, lambda u, v: ite(old(rc.has_edge(u, v)), same(rc[u][v], old(rc[u][v])), "
            "       edge_attrs_ok(rc, ITS, u, v, bond_key, standard_key)))",
        ],
        "loops": {1: {
            "ghost_init": ["wit = {}"],
            "ghost_step": ["if _is_hh_pair(ITS, u, v):\n    wit[u] = v\n    wit[v] = u"],
            "inv": [
                "forall(('any', 'any'), lambda a, b: rc.has_edge(a, b) == (old(rc.has_edge(a, b)) or ((a, b) in done and is_hh(ITS, a, b))))",
                "forall(old(set(rc.nodes)), lambda n: rc.has_node(n) and same(rc.nodes[n], old(rc.nodes[n])))",
                "forall(rc.nodes, lambda n: old(rc.has_node(n)) or (ITS.has_node(n) and picked_attrs_hh(rc, ITS, n, element_key)"
                "       and n in wit and rc.has_edge(n, wit[n])))",
                "forall(rc.edges, lambda a, b: ite(old(rc.has_edge(a, b)), same(rc[a][b], old(rc[a][b])), "
                "       edge_attrs_ok(rc, ITS, a, b, bond_key, standard_key)))",
            ]}},
    },
    DEC + "::get_rc": {
        "params": {"ITS": "obj:Graph", "element_key": "list[str]", "bond_key": "str", "standard_key": "str",
                   "disconnected": "const:False", "keep_mtg": "bool"},
        "returns": "obj:Graph",
        "requires": ["keys_ok(bond_key, standard_key)"],
        "modifies": [],
        "ensures": ["is_fresh(result)", "is_rc(result, ITS, element_key, bond_key, standard_key, keep_mtg)",
                    "forall('any', lambda n: result.has_node(n) == is_rc_node(ITS, n, standard_key, keep_mtg))"],
    },
    RE + "::RadiusExpand.find_nearest_neighbors": {
        "params": {"G": "obj:Graph", "center_nodes": "set[any]", "n_knn": "int"},
        "returns": "set[any]",
        "requires": ["n_knn >= 0", "forall(center_nodes, lambda c: G.has_node(c))"],
        "modifies": [],
        "ensures": ["result == ball(G, center_nodes, n_knn)", "forall(result, lambda n: G.has_node(n))"],
        "loops": {1: {"inv": ["extended_nodes == ball(G, center_nodes, done)",
                              "forall(extended_nodes, lambda n: G.has_node(n))"]}},
    },
    RE + "::RadiusExpand.extract_k": {
        "params": {"its": "obj:Graph", "n_knn": "int"},
        "returns": "obj:Graph",
        "requires": ["n_knn >= 0"],
        "modifies": [],
        "hints": ["set(rc.nodes) == {m for m in its.nodes if is_rc_node(its, m, 'standard_order', False)}"],
        "ensures": [
            "is_fresh(result)",
            "implies(n_knn == 0, is_rc(result, its, DEFAULT_KEYS, 'order', 'standard_order', False))",
            # radius-k context = the atoms within k bonds of the centre, induced, labels unchanged
            "implies(n_knn >= 1, forall('any', lambda n: result.has_node(n) == "
            "        (n in ball(its, {m for m in its.nodes if is_rc_node(its, m, 'standard_order', False)}, n_knn))))",
            "implies(n_knn >= 1, forall(('any', 'any'), lambda u, v: result.has_edge(u, v) == "
            "        (its.has_edge(u, v) and result.has_node(u) and result.has_node(v))))",
            "implies(n_knn >= 1, forall(result.nodes, lambda n: same(result.nodes[n], its.nodes[n])))",
            "implies(n_knn >= 1, forall(result.edges, lambda u, v: same(result[u][v], its[u][v])))",
        ],
    },
    # ---------------------------------------------------------------- lemmas (obligations without code)
    "lemma::changed_iff_nonzero_standard_order": {
        # for an ITS edge whose standard order is the difference of its (before, after) orders, "in the centre"
        # is exactly "the order differs between the two sides"
        "params": {"std": "any", "o0": "any", "o1": "any", "mtg": "any"},
        "requires": ["is_number(o0)", "is_number(o1)", "is_number(std)", "std == o0 - o1"],
        "ensures": ["incl(std, mtg, False) == (o0 != o1)"],
    },
    "lemma::context_nested": {
        "params": {"G": "obj:Graph", "C": "set[any]", "k": "int"},
        "requires": ["k >= 0"],
        "ensures": ["ball(G, C, k) <= ball(G, C, k + 1)", "C <= ball(G, C, k)" if False else "ball(G, C, 0) == C"],
    },
    "lemma::centre_of_centre": {
        # extracting the centre of a centre changes nothing (needs the element label among the copied keys)
        "params": {"I": "obj:Graph", "rc1": "obj:Graph", "rc2": "obj:Graph", "ek": "list[str]", "bk": "str", "sk": "str",
                   "keep": "bool"},
        "requires": ["keys_ok(bk, sk)", "'element' in ek", "is_rc(rc1, I, ek, bk, sk, keep)", "is_rc(rc2, rc1, ek, bk, sk, keep)"],
        "ensures": [
            "forall(('any', 'any'), lambda u, v: rc2.has_edge(u, v) == rc1.has_edge(u, v))",
            "forall('any', lambda n: rc2.has_node(n) == rc1.has_node(n))",
        ],
    },
}
