"""C14 -- batching, parallelism and caching are operational only: results never change (sidecar contracts)."""
from pyvc.rt import *  # noqa: F401,F403

PROPERTY = "C14"
USES_NX = True
BR = "synkit/Synthesis/Reactor/batch_reactor.py"
CLASSES = {"_RuleApplier": {"file": BR, "fields": {
    "_cache": "opt[dict[tuple[int,int,bool],tuple[obj:Graph,obj:Graph,any]]]", "_cache_max": "int",
    "_engine": "str", "_strategy": "str", "_explicit_h": "bool", "_implicit_temp": "bool"}}}
TRUSTED = ["A-id (id() is injective on simultaneously live objects only)", "A-builtins",
           "_execute abstracted as a pure function of (substrate, rule, inv): graphs are not modified between calls"]
ASSUMPTIONS = ["sequential-equivalence only: joblib / process-pool scheduling, pickling round trips and worker crashes are outside the model (A-pool)",
               "batch == one-shot clustering is property C13's bounded clause"]
NOT_APPLICABLE_CLAUSES = ["behaviour under real worker processes and schedules (concurrency is outside this family of technique); the "
                          "parallel branches are compared with the serial ones by the bounded twin only"]


def cache_inv(A):
    """every cache line was computed for the very objects whose ids key it, and those objects are kept alive by the line"""
    return A._cache is None or forall(A._cache, lambda k0, k1, k2: (
        alive(A._cache[(k0, k1, k2)][0]) and alive(A._cache[(k0, k1, k2)][1])
        and id(A._cache[(k0, k1, k2)][0]) == k0 and id(A._cache[(k0, k1, k2)][1]) == k1
        and same(A._cache[(k0, k1, k2)][2], A._execute(A._cache[(k0, k1, k2)][0], A._cache[(k0, k1, k2)][1], k2))))


FUNCTIONS = {
    BR + "::_RuleApplier._execute": {
        "assumed": True, "functional": True,
        "params": {"substrate": "obj:Graph", "rule": "obj:Graph", "inv": "bool"},
        "returns": "any", "modifies": [], "ensures": [],
    },
    BR + "::_RuleApplier.__call__": {
        "params": {"substrate": "obj:Graph", "rule": "obj:Graph", "inv": "bool"},
        "returns": "any",
        "requires": ["cache_inv(self)", "alive(substrate)", "alive(rule)", "self._cache_max >= 1"],
        "modifies": ["self._cache"],
        "ensures": [
            # cache on or off, hit or miss: the answer is the uncached answer
            "same(result, self._execute(substrate, rule, inv))",
            "cache_inv(self)",
            "(self._cache is None) == old(self._cache is None)",
        ],
    },
    BR + "::_dedupe": {
        "params": {"items": "list[str]"},
        "vars": {"seen": "set[str]", "out": "list[str]", "idxs": "list[int]"},
        "returns": "list[str]",
        "modifies": [],
        "ensures": ["forall(range(len(items)), lambda i: items[i] in result)",
                    "forall((range(len(result)), range(len(result))), lambda a, b: implies(a != b, result[a] != result[b]))"],
        "ghost_ensures": ["len(idxs) == len(result)",
                          "forall(range(len(result)), lambda j: 0 <= idxs[j] and idxs[j] < len(items) and result[j] == items[idxs[j]])",
                          "forall((range(len(result)), range(len(result))), lambda a, b: implies(a < b, idxs[a] < idxs[b]))",
                          "forall(range(len(result)), lambda j: forall(range(len(items)), lambda i: implies(i < idxs[j], items[i] != result[j])))"],
        "loops": {1: {"ghost_init": ["idxs = []"], "ghost_step": ["if len(idxs) < len(out):\n    idxs.append(__done__)"],
                      "inv": ["len(idxs) == len(out)",
                              "forall(range(len(out)), lambda j: 0 <= idxs[j] and idxs[j] < done and out[j] == items[idxs[j]])",
                              "forall((range(len(out)), range(len(out))), lambda a, b: implies(a < b, idxs[a] < idxs[b]))",
                              "forall('str', lambda x: (x in seen) == exists(range(done), lambda i: items[i] == x))",
                              "forall('str', lambda x: (x in seen) == (x in out))",
                              "forall((range(len(out)), range(len(out))), lambda a, b: implies(a != b, out[a] != out[b]))",
                              "forall(range(len(out)), lambda j: forall(range(len(items)), lambda i: implies(i < idxs[j], items[i] != out[j])))"]}},
    },
}
