"""C15 -- reaction-network store stays consistent under every history of edits (sidecar contracts)."""
from pyvc.rt import *  # noqa: F401,F403

try:
    from synkit.CRN.Hypergraph.rxn import RXNSide
except Exception:      # prover process: the repository is not importable (and not needed)
    RXNSide = None

PROPERTY = "C15"
TRUSTED = ["A-builtins (dict/set/defaultdict methods)", "A-copy (deepcopy of a str->int dict is an equal fresh dict)",
           "A-fmt (the id formatter f'{rule}_{cnt}' is an uninterpreted function)"]
ASSUMPTIONS = ["containers are modelled as values: two RXNSide objects never share one `data` dict (true of every constructor in rxn.py)",
               "add_rxn is verified for RXNSide and str->int mapping arguments; iterables of labels / pairs go through the bounded twin only",
               "history quantifier: induction over the operation sequence (every operation proved to preserve wf from any wf state)"]
NOT_APPLICABLE_CLAUSES = []
HG = "synkit/CRN/Hypergraph/hypergraph.py"

CLASSES = {
    "RXNSide": {"file": "synkit/CRN/Hypergraph/rxn.py", "fields": {"data": "dict[str,int]"}},
    "HyperEdge": {"file": "synkit/CRN/Hypergraph/hyperedge.py",
                  "fields": {"id": "str", "reactants": "obj:RXNSide", "products": "obj:RXNSide", "rule": "str"}},
    "CRNHyperGraph": {"file": HG,
                      "fields": {"species": "set[str]", "edges": "dict[str,obj:HyperEdge]",
                                 "_rule_counters": "dict[str,int;int]",
                                 "species_to_in_edges": "dict[str,set[str];set]",
                                 "species_to_out_edges": "dict[str,set[str];set]",
                                 "species_to_mol": "dict[str,any]"}},
}


def R(H, k, s):
    return H.edges[k].reactants.data.get(s, 0)


def P(H, k, s):
    return H.edges[k].products.data.get(s, 0)


def occurs_r(H, k, s):
    return s in H.edges[k].reactants.data


def occurs_p(H, k, s):
    return s in H.edges[k].products.data


def owned(H):
    """no two stored reactions share an edge object or a side object"""
    return forall((H.edges, H.edges), lambda k1, k2: implies(
        k1 != k2,
        H.edges[k1] is not H.edges[k2]
        and H.edges[k1].reactants is not H.edges[k2].reactants
        and H.edges[k1].reactants is not H.edges[k2].products
        and H.edges[k1].products is not H.edges[k2].reactants
        and H.edges[k1].products is not H.edges[k2].products)) \
        and forall(H.edges, lambda k: H.edges[k].reactants is not H.edges[k].products)


def wf(H, allow_empty=False):
    """representation invariant of CRNHyperGraph (DESIGN section 5, C15)"""
    return (
        forall(H.edges, lambda k: H.edges[k].id == k and truthy(H.edges[k].rule))
        and forall(H.edges, lambda k: forall(H.edges[k].reactants.data, lambda s: H.edges[k].reactants.data[s] > 0))
        and forall(H.edges, lambda k: forall(H.edges[k].products.data, lambda s: H.edges[k].products.data[s] > 0))
        and (allow_empty or forall(H.edges, lambda k: truthy(H.edges[k].reactants.data) or truthy(H.edges[k].products.data)))
        and owned(H)
        and forall(H.edges, lambda k: forall(H.edges[k].reactants.data, lambda s: s in H.species))
        and forall(H.edges, lambda k: forall(H.edges[k].products.data, lambda s: s in H.species))
        and keys(H.species_to_in_edges) == H.species
        and keys(H.species_to_out_edges) == H.species
        and forall(H.species, lambda s: forall('str', lambda k: (k in H.species_to_in_edges.get(s, set()))
                                               == (k in H.edges and occurs_p(H, k, s))))
        and forall(H.species, lambda s: forall('str', lambda k: (k in H.species_to_out_edges.get(s, set()))
                                               == (k in H.edges and occurs_r(H, k, s))))
        and keys(H.species_to_mol) <= H.species
    )


def in_minus(H, s, eid):
    return H.species_to_in_edges.get(s, set()) - {eid}


def out_minus(H, s, eid):
    return H.species_to_out_edges.get(s, set()) - {eid}


RX = "synkit/CRN/Hypergraph/rxn.py"
HE = "synkit/CRN/Hypergraph/hyperedge.py"


def norm_of(obj, out):
    """out is the normalised stoichiometry of the mapping obj: positive entries only, same counts"""
    return forall('str', lambda s: (s in out) == (s in obj and obj[s] > 0)) \
        and forall(out, lambda s: out[s] == obj[s])


def side_ok(side):
    return forall(side.data, lambda s: side.data[s] > 0)


def support(e):
    return keys(e.reactants.data) | keys(e.products.data)


def rest_nonempty(H, k, sp):
    """reaction k mentions some species other than sp"""
    return exists('str', lambda s: s != sp and (s in H.edges[k].reactants.data or s in H.edges[k].products.data))


def sides_disjoint(A, B):
    """no edge or side object is shared between the two networks"""
    return forall((A.edges, B.edges), lambda k1, k2: (
        A.edges[k1] is not B.edges[k2]
        and A.edges[k1].reactants is not B.edges[k2].reactants
        and A.edges[k1].reactants is not B.edges[k2].products
        and A.edges[k1].products is not B.edges[k2].reactants
        and A.edges[k1].products is not B.edges[k2].products))


def same_rxn(e1, e2):
    return e1.rule == e2.rule and e1.reactants.data == e2.reactants.data and e1.products.data == e2.products.data


def side_empty(H, k):
    return not truthy(H.edges[k].reactants.data) and not truthy(H.edges[k].products.data)


def not_in_use(H, side):
    """the side object is not (yet) part of a stored reaction"""
    return forall(H.edges, lambda k: H.edges[k].reactants is not side and H.edges[k].products is not side)


def implies_side(x, f):
    """f() is required only when x is an RXNSide object (mappings are normalised into fresh sides)"""
    return f() if isinstance(x, RXNSide) else True


def empty_input(x):
    if isinstance(x, RXNSide):
        return not truthy(x.data)
    return forall(x, lambda s: x[s] <= 0)


def stoich_is(side, x):
    """the stored side is the caller's RXNSide itself, or the normalisation of the caller's mapping"""
    if isinstance(x, RXNSide):
        return side is x
    return norm_of(x, side.data)


def same_edges(H, old_edges, old_R, old_P, old_rule):
    """whole-view frame: every previously stored reaction is still there, same object, same stoichiometry"""
    return forall(old_edges, lambda k: k in H.edges and H.edges[k] is old_edges[k])


FUNCTIONS = {
    RX + "::RXNSide._normalize_any": {
        "params": {"obj": "dict[str,int]"},
        "returns": "dict[str,int]",
        "ensures": ["norm_of(obj, result)"],
        "loops": {1: {"vars": {"out": "dict[str,int]"},
                      "inv": ["forall('str', lambda s: (s in out) == (s in done and obj[s] > 0))",
                              "forall(out, lambda s: out[s] == obj[s])"]}},
    },
    RX + "::RXNSide.copy": {
        "params": {},
        "returns": "obj:RXNSide",
        "requires": ["side_ok(self)"],
        "modifies": [],
        "ensures": ["is_fresh(result)", "result.data == self.data", "side_ok(result)"],
    },
    RX + "::RXNSide.from_any": {
        "params": {"obj": "dict[str,int]"},
        "returns": "obj:RXNSide",
        "modifies": [],
        "ensures": ["is_fresh(result)", "norm_of(obj, result.data)"],
    },
    HG + "::CRNHyperGraph._next_edge_id_for_rule": {
        "params": {"rule": "str"},
        "returns": "str",
        "modifies": ["self._rule_counters"],
        "ensures": [
            "self._rule_counters[rule] >= old(self._rule_counters.get(rule, 0)) + 1",
            "forall('str', lambda r: implies(r != rule, (r in self._rule_counters) == (r in old(self._rule_counters))))",
            "result not in self.edges",          # ids handed out are free (finding 1 on the pinned tree)
        ],
        "loops": {1: {"inv": ["cnt >= old(self._rule_counters.get(rule, 0)) + 1"]}},
    },
    HG + "::CRNHyperGraph.assign_mol": {
        "params": {"species": "str", "mol": "any"},
        "modifies": ["self.species_to_mol"],
        "raises": {"KeyError": "species not in self.species"},
        "ensures": [
            "self.species_to_mol[species] == mol",
            "forall('str', lambda s: implies(s != species, (s in self.species_to_mol) == (s in old(self.species_to_mol))))",
            "keys(self.species_to_mol) == old(keys(self.species_to_mol)) | {species}",
        ],
    },
    HG + "::CRNHyperGraph.remove_rxn": {
        "params": {"edge_id": "str"},
        "requires": ["wf(self, True)"],
        "raises": {"KeyError": "edge_id not in self.edges"},
        "modifies": ["self.edges", "self.species", "self.species_to_in_edges", "self.species_to_out_edges",
                     "self.species_to_mol"],
        "ensures": [
            "keys(self.edges) == old(keys(self.edges)) - {edge_id}",
            "forall(self.edges, lambda k: self.edges[k] is old(self.edges)[k])",
            "forall(old(self.species), lambda s: (s in self.species) == "
            "  (not (s in old(self.edges[edge_id].reactants.data) or s in old(self.edges[edge_id].products.data))"
            "   or truthy(old(in_minus(self, s, edge_id))) or truthy(old(out_minus(self, s, edge_id)))))",
            "self.species <= old(self.species)",
            "forall(self.species, lambda s: self.species_to_mol.get(s) == old(self.species_to_mol.get(s)))",
            "wf(self, True)",
            "implies(old(wf(self)), wf(self))",
        ],
        "loops": {
            1: {"modifies": ["self.species", "self.species_to_in_edges", "self.species_to_out_edges", "self.species_to_mol"],
                "inv": [
                    # species not yet visited are untouched
                    "forall('str', lambda s: implies(s not in done, (s in self.species) == (s in old(self.species))"
                    "  and (s in self.species_to_in_edges) == (s in old(self.species_to_in_edges))"
                    "  and (s in self.species_to_out_edges) == (s in old(self.species_to_out_edges))"
                    "  and (s in self.species_to_mol) == (s in old(self.species_to_mol))"
                    "  and self.species_to_in_edges.get(s, set()) == old(self.species_to_in_edges.get(s, set()))"
                    "  and self.species_to_out_edges.get(s, set()) == old(self.species_to_out_edges.get(s, set()))"
                    "  and self.species_to_mol.get(s) == old(self.species_to_mol.get(s))))",
                    # visited reactants: index updated; dropped iff nothing else refers to them
                    "forall(done, lambda s: ite(not truthy(old(self.species_to_in_edges.get(s, set()))) and not truthy(old(out_minus(self, s, edge_id))),"
                    "   s not in self.species and s not in self.species_to_in_edges and s not in self.species_to_out_edges and s not in self.species_to_mol,"
                    "   s in self.species and s in self.species_to_in_edges and s in self.species_to_out_edges"
                    "   and self.species_to_in_edges[s] == old(self.species_to_in_edges.get(s, set()))"
                    "   and self.species_to_out_edges[s] == old(out_minus(self, s, edge_id))"
                    "   and (s in self.species_to_mol) == (s in old(self.species_to_mol))"
                    "   and self.species_to_mol.get(s) == old(self.species_to_mol.get(s))))",
                ]},
            2: {"modifies": ["self.species", "self.species_to_in_edges", "self.species_to_out_edges", "self.species_to_mol"],
                "inv": [
                    "forall('str', lambda s: implies(s not in done, (s in self.species) == (s in at_entry(self.species))"
                    "  and (s in self.species_to_in_edges) == (s in at_entry(self.species_to_in_edges))"
                    "  and (s in self.species_to_out_edges) == (s in at_entry(self.species_to_out_edges))"
                    "  and (s in self.species_to_mol) == (s in at_entry(self.species_to_mol))"
                    "  and self.species_to_in_edges.get(s, set()) == at_entry(self.species_to_in_edges.get(s, set()))"
                    "  and self.species_to_out_edges.get(s, set()) == at_entry(self.species_to_out_edges.get(s, set()))"
                    "  and self.species_to_mol.get(s) == at_entry(self.species_to_mol.get(s))))",
                    "forall(done, lambda s: ite(not truthy(old(in_minus(self, s, edge_id))) and not truthy(old(out_minus(self, s, edge_id))),"
                    "   s not in self.species and s not in self.species_to_in_edges and s not in self.species_to_out_edges and s not in self.species_to_mol,"
                    "   s in self.species and s in self.species_to_in_edges and s in self.species_to_out_edges"
                    "   and self.species_to_in_edges[s] == old(in_minus(self, s, edge_id))"
                    "   and self.species_to_out_edges[s] == old(out_minus(self, s, edge_id))"
                    "   and (s in self.species_to_mol) == (s in old(self.species_to_mol))"
                    "   and self.species_to_mol.get(s) == old(self.species_to_mol.get(s))))",
                ]},
        },
    },
    HG + "::CRNHyperGraph.add_rxn": {
        "params": {"reactant_side": ["obj:RXNSide", "dict[str,int]"], "product_side": ["obj:RXNSide", "dict[str,int]"],
                   "rule": "opt[str]", "edge_id": "opt[str]"},
        "returns": "obj:HyperEdge",
        "requires": ["wf(self)", "reactant_side is not product_side",
                     "implies_side(reactant_side, lambda: side_ok(reactant_side) and not_in_use(self, reactant_side))",
                     "implies_side(product_side, lambda: side_ok(product_side) and not_in_use(self, product_side))"],
        "raises": {"KeyError": "edge_id is not None and edge_id in self.edges",
                   "ValueError": "not (edge_id is not None and edge_id in self.edges) and "
                                 "empty_input(reactant_side) and empty_input(product_side)"},
        "modifies": ["self.edges", "self.species", "self.species_to_in_edges", "self.species_to_out_edges",
                     "self._rule_counters"],
        "ensures": [
            "wf(self)",
            "result.id not in old(self.edges)",
            "keys(self.edges) == old(keys(self.edges)) | {result.id}",
            "self.edges[result.id] is result",
            "implies(edge_id is not None, result.id == edge_id)",
            "forall(old(self.edges), lambda k: self.edges[k] is old(self.edges)[k])",
            "stoich_is(result.reactants, reactant_side)",
            "stoich_is(result.products, product_side)",
            "result.rule == (rule if truthy(rule) else 'r')",
            "self.species == old(self.species) | support(result)",
        ],
        "loops": {
            1: {"modifies": ["self.species", "self.species_to_in_edges", "self.species_to_out_edges"],
                "inv": ["self.species == old(self.species) | done",
                        "keys(self.species_to_in_edges) == old(keys(self.species_to_in_edges)) | done",
                        "keys(self.species_to_out_edges) == old(keys(self.species_to_out_edges)) | done",
                        "forall('str', lambda s: self.species_to_in_edges.get(s, set()) == old(self.species_to_in_edges.get(s, set())))",
                        "forall('str', lambda s: self.species_to_out_edges.get(s, set()) == old(self.species_to_out_edges.get(s, set())))"]},
            2: {"modifies": ["self.species_to_out_edges"],
                "inv": ["keys(self.species_to_out_edges) == at_entry(keys(self.species_to_out_edges))",
                        "forall('str', lambda s: self.species_to_out_edges.get(s, set()) == "
                        " (at_entry(self.species_to_out_edges.get(s, set())) | {edge_id} if s in done else at_entry(self.species_to_out_edges.get(s, set()))))"]},
            3: {"modifies": ["self.species_to_in_edges"],
                "inv": ["keys(self.species_to_in_edges) == at_entry(keys(self.species_to_in_edges))",
                        "forall('str', lambda s: self.species_to_in_edges.get(s, set()) == "
                        " (at_entry(self.species_to_in_edges.get(s, set())) | {edge_id} if s in done else at_entry(self.species_to_in_edges.get(s, set()))))"]},
        },
    },
    HG + "::CRNHyperGraph.remove_species": {
        "params": {"species": "str", "prune_orphans": "bool"},
        "vars": {"to_remove_edges": "set[str]"},
        "requires": ["wf(self)"],
        "raises": {"KeyError": "species not in self.species"},
        "modifies": ["self.edges", "self.species", "self.species_to_in_edges", "self.species_to_out_edges",
                     "self.species_to_mol", "RXNSide.data"],
        "ensures": [
            "wf(self)",
            # a reaction survives iff something other than `species` is left in it
            "forall(old(self.edges), lambda k: (k in self.edges) == old(rest_nonempty(self, k, species)))",
            "forall(self.edges, lambda k: k in old(self.edges) and self.edges[k] is old(self.edges)[k])",
            "forall(self.edges, lambda k: forall('str', lambda s: "
            "   R(self, k, s) == (0 if s == species else old(R(self, k, s))) and "
            "   P(self, k, s) == (0 if s == species else old(P(self, k, s)))))",
            "(species in self.species) == (not prune_orphans)",
            "self.species <= old(self.species)",
            "forall(self.species, lambda s: self.species_to_mol.get(s) == old(self.species_to_mol.get(s)))",
        ],
        "loops": {
            1: {"modifies": ["self.species_to_in_edges", "RXNSide.data"],
                "inv": [
                    "forall(self.edges, lambda k: forall('str', lambda s: "
                    "  occurs_p(self, k, s) == (old(occurs_p(self, k, s)) and not (k in done and s == species))"
                    "  and implies(occurs_p(self, k, s), self.edges[k].products.data[s] == old(self.edges[k].products.data[s]))"
                    "  and occurs_r(self, k, s) == old(occurs_r(self, k, s))"
                    "  and implies(occurs_r(self, k, s), self.edges[k].reactants.data[s] == old(self.edges[k].reactants.data[s]))))",
                    "self.species_to_in_edges.get(species, set()) == old(self.species_to_in_edges.get(species, set())) - done",
                    "keys(self.species_to_in_edges) == old(keys(self.species_to_in_edges))",
                    "forall('str', lambda s: implies(s != species, self.species_to_in_edges.get(s, set()) == old(self.species_to_in_edges.get(s, set()))))",
                    "forall('str', lambda k: (k in to_remove_edges) == (k in done and k in self.edges and side_empty(self, k)))",
                ]},
            2: {"modifies": ["self.species_to_out_edges", "RXNSide.data"],
                "inv": [
                    "forall(self.edges, lambda k: forall('str', lambda s: "
                    "  occurs_r(self, k, s) == (old(occurs_r(self, k, s)) and not (k in done and s == species))"
                    "  and implies(occurs_r(self, k, s), self.edges[k].reactants.data[s] == old(self.edges[k].reactants.data[s]))"
                    "  and occurs_p(self, k, s) == at_entry(occurs_p(self, k, s))"
                    "  and implies(occurs_p(self, k, s), self.edges[k].products.data[s] == old(self.edges[k].products.data[s]))))",
                    "self.species_to_out_edges.get(species, set()) == old(self.species_to_out_edges.get(species, set())) - done",
                    "keys(self.species_to_out_edges) == old(keys(self.species_to_out_edges))",
                    "forall('str', lambda s: implies(s != species, self.species_to_out_edges.get(s, set()) == old(self.species_to_out_edges.get(s, set()))))",
                    "forall('str', lambda k: (k in to_remove_edges) == "
                    "  ((k in old(self.species_to_in_edges.get(species, set())) or k in done) and k in self.edges and side_empty(self, k)))",
                ]},
            3: {"modifies": ["self.edges", "self.species", "self.species_to_in_edges", "self.species_to_out_edges",
                             "self.species_to_mol"],
                "inv": [
                    "wf(self, True)",
                    "keys(self.edges) == at_entry(keys(self.edges)) - done",
                    "forall(self.edges, lambda k: self.edges[k] is old(self.edges)[k])",
                    "species in self.species",
                    "self.species <= old(self.species)",
                    "not truthy(self.species_to_in_edges.get(species, set())) and not truthy(self.species_to_out_edges.get(species, set()))",
                    "forall(self.species, lambda s: self.species_to_mol.get(s) == old(self.species_to_mol.get(s)))",
                ]},
        },
    },
    HG + "::CRNHyperGraph.merge": {
        "params": {"other": "obj:CRNHyperGraph", "prefix_edges": "bool"},
        "vars": {"wit": "dict[str,str]", "wit_inv": "dict[str,str]"},
        "requires": ["wf(self)", "wf(other)", "other is not self", "sides_disjoint(self, other)"],
        "modifies": ["self.edges", "self.species", "self.species_to_in_edges", "self.species_to_out_edges",
                     "self._rule_counters"],
        "ensures": [
            "wf(self)",
            "forall(old(self.edges), lambda k: k in self.edges and self.edges[k] is old(self.edges)[k])",
            # one new reaction per reaction of `other`, same rule and stoichiometry ...
            "forall(other.edges, lambda k: exists_w(self.edges, lambda j: j not in old(self.edges) "
            "       and same_rxn(self.edges[j], other.edges[k]), 'wit[k]'))",
            # ... and nothing else
            "forall(self.edges, lambda j: j in old(self.edges) or exists_w(other.edges, lambda k: "
            "       same_rxn(self.edges[j], other.edges[k]), 'wit_inv[j]'))",
            # ownership: the merged reactions do not share mutable state with `other` (finding 2 on the pinned tree)
            "sides_disjoint(self, other)",
        ],
        "ghost_ensures": [
            "forall(other.edges, lambda k: wit_inv[wit[k]] == k)",
        ],
        "loops": {
            1: {"ghost_init": ["wit = {}", "wit_inv = {}"],
                "ghost_step": ["wit[e.id] = new_id", "wit_inv[new_id] = e.id"],
                "inv": [
                    "wf(self)",
                    "forall(old(self.edges), lambda k: k in self.edges and self.edges[k] is old(self.edges)[k])",
                    "forall(done, lambda k: k in wit and wit[k] in self.edges and wit[k] not in old(self.edges))",
                    "forall(done, lambda k: same_rxn(self.edges[wit[k]], other.edges[k]))",
                    "forall(done, lambda k: wit_inv[wit[k]] == k)",
                    "forall(self.edges, lambda j: j in old(self.edges) or (j in wit_inv and wit_inv[j] in done "
                    "       and wit[wit_inv[j]] == j))",
                    "forall(self.edges, lambda j: j in old(self.edges) or (is_fresh(self.edges[j]) "
                    "       and is_fresh(self.edges[j].reactants) and is_fresh(self.edges[j].products)))",
                ]},
        },
    },
    # the network's own incidence matrix (sparse form): entry (species, reaction) = produced minus consumed, no other keys
    HG + "::CRNHyperGraph.incidence_matrix": {
        "params": {"sparse": "const:True"},
        "vars": {"mapping": "dict[tuple[str,str],int]", "edge_order": "list[str]", "species_order": "list[str]", "seen": "set[str]"},
        "returns": "tuple[list[str],list[str],dict[tuple[str,str],int]]",
        "requires": ["wf(self)"],
        "modifies": [],
        "ensures": [
            "forall('str', lambda s: (s in result[0]) == (s in self.species))",
            "forall('str', lambda e: (e in result[1]) == (e in self.edges))",
            "forall((range(len(result[1])), range(len(result[1]))), lambda i, j: implies(i < j, result[1][i] < result[1][j]))",
            "forall(('str', 'str'), lambda s, e: implies(e in self.edges, result[2].get((s, e), 0) == P(self, e, s) - R(self, e, s)))",
            "forall(result[2], lambda s, e: e in self.edges and (s in self.edges[e].reactants.data or s in self.edges[e].products.data))",
        ],
        "loops": {
            1: {"ghost_init": ["seen = set()"], "ghost_step": ["seen.add(eid)"],
                "step_hints": [
                    "forall('str', lambda s: mapping.get((s, eid), 0) == P(self, eid, s) - R(self, eid, s))",
                    "forall(('str', 'str'), lambda s, e2: implies(e2 != eid, ((s, e2) in mapping) == at_iter((s, e2) in mapping) and mapping.get((s, e2), 0) == at_iter(mapping.get((s, e2), 0))))",
                    "forall('str', lambda s: implies((s, eid) in mapping, s in self.edges[eid].reactants.data or s in self.edges[eid].products.data))",
                    "at_iter(eid not in seen)"],
                "inv": [
                    "forall(seen, lambda e: exists(range(done), lambda j: edge_order[j] == e))",
                    "forall(range(done), lambda j: edge_order[j] in seen)",
                    "forall(seen, lambda e: e in self.edges)",
                    "forall(seen, lambda e: forall('str', lambda s: mapping.get((s, e), 0) == P(self, e, s) - R(self, e, s)))",
                    "forall(mapping, lambda s, e: e in seen and (s in self.edges[e].reactants.data or s in self.edges[e].products.data))"]},
            2: {"inv": [
                "forall('str', lambda s: mapping.get((s, eid), 0) == (0 - R(self, eid, s) if s in done else 0))",
                "forall('str', lambda s: implies((s, eid) in mapping, s in done))",
                "forall(('str', 'str'), lambda s, e2: implies(e2 != eid, ((s, e2) in mapping) == at_iter((s, e2) in mapping) and mapping.get((s, e2), 0) == at_iter(mapping.get((s, e2), 0))))"]},
            3: {"inv": [
                "forall('str', lambda s: mapping.get((s, eid), 0) == (P(self, eid, s) if s in done else 0) - R(self, eid, s))",
                "forall('str', lambda s: implies((s, eid) in mapping, s in done or s in self.edges[eid].reactants.data))",
                "forall(('str', 'str'), lambda s, e2: implies(e2 != eid, ((s, e2) in mapping) == at_iter((s, e2) in mapping) and mapping.get((s, e2), 0) == at_iter(mapping.get((s, e2), 0))))"]},
        },
    },
}
