"""C15 -- reaction-network store stays consistent under every history of edits (sidecar contracts)."""
from pyvc.rt import *  # noqa: F401,F403

PROPERTY = "C15"
HG = "synkit/CRN/Hypergraph/hypergraph.py"

CLASSES = {
    "RXNSide": {"file": "synkit/CRN/Hypergraph/rxn.py", "fields": {"data": "dict[str,int]"}},
    "HyperEdge": {"file": "synkit/CRN/Hypergraph/hyperedge.py",
                  "fields": {"id": "str", "reactants": "obj:RXNSide", "products": "obj:RXNSide", "rule": "str"}},
    "CRNHyperGraph": {"file": HG,
                      "fields": {"species": "set[str]", "edges": "dict[str,obj:HyperEdge]",
                                 "_rule_counters": "dict[str,int;int]",
                                 "species_to_in_edges": "dict[str,set[str];set]",
                                 "species_to_out_edges": "dict[str,set[str];set]",
                                 "species_to_mol": "dict[str,any]"}},
}


def R(H, k, s):
    return H.edges[k].reactants.data.get(s, 0)


def P(H, k, s):
    return H.edges[k].products.data.get(s, 0)


def occurs_r(H, k, s):
    return s in H.edges[k].reactants.data


def occurs_p(H, k, s):
    return s in H.edges[k].products.data


def owned(H):
    """no two stored reactions share an edge object or a side object"""
    return forall((H.edges, H.edges), lambda k1, k2: implies(
        k1 != k2,
        H.edges[k1] is not H.edges[k2]
        and H.edges[k1].reactants is not H.edges[k2].reactants
        and H.edges[k1].reactants is not H.edges[k2].products
        and H.edges[k1].products is not H.edges[k2].reactants
        and H.edges[k1].products is not H.edges[k2].products))


def wf(H, allow_empty=False):
    """representation invariant of CRNHyperGraph (DESIGN section 5, C15)"""
    return (
        forall(H.edges, lambda k: H.edges[k].id == k)
        and forall(H.edges, lambda k: forall(H.edges[k].reactants.data, lambda s: H.edges[k].reactants.data[s] > 0))
        and forall(H.edges, lambda k: forall(H.edges[k].products.data, lambda s: H.edges[k].products.data[s] > 0))
        and (allow_empty or forall(H.edges, lambda k: truthy(H.edges[k].reactants.data) or truthy(H.edges[k].products.data)))
        and owned(H)
        and forall(H.edges, lambda k: forall(H.edges[k].reactants.data, lambda s: s in H.species))
        and forall(H.edges, lambda k: forall(H.edges[k].products.data, lambda s: s in H.species))
        and keys(H.species_to_in_edges) == H.species
        and keys(H.species_to_out_edges) == H.species
        and forall(H.species, lambda s: forall('str', lambda k: (k in H.species_to_in_edges.get(s, set()))
                                               == (k in H.edges and occurs_p(H, k, s))))
        and forall(H.species, lambda s: forall('str', lambda k: (k in H.species_to_out_edges.get(s, set()))
                                               == (k in H.edges and occurs_r(H, k, s))))
        and keys(H.species_to_mol) <= H.species
    )


def in_minus(H, s, eid):
    return H.species_to_in_edges.get(s, set()) - {eid}


def out_minus(H, s, eid):
    return H.species_to_out_edges.get(s, set()) - {eid}


FUNCTIONS = {
    HG + "::CRNHyperGraph._next_edge_id_for_rule": {
        "params": {"rule": "str"},
        "returns": "str",
        "modifies": ["self._rule_counters"],
        "ensures": [
            "self._rule_counters[rule] == old(self._rule_counters.get(rule, 0)) + 1",
            "forall('str', lambda r: implies(r != rule, (r in self._rule_counters) == (r in old(self._rule_counters))))",
        ],
    },
    HG + "::CRNHyperGraph.assign_mol": {
        "params": {"species": "str", "mol": "any"},
        "modifies": ["self.species_to_mol"],
        "raises": {"KeyError": "species not in self.species"},
        "ensures": [
            "self.species_to_mol[species] == mol",
            "forall('str', lambda s: implies(s != species, (s in self.species_to_mol) == (s in old(self.species_to_mol))))",
            "keys(self.species_to_mol) == old(keys(self.species_to_mol)) | {species}",
        ],
    },
    HG + "::CRNHyperGraph.remove_rxn": {
        "params": {"edge_id": "str"},
        "requires": ["wf(self, True)"],
        "raises": {"KeyError": "edge_id not in self.edges"},
        "modifies": ["self.edges", "self.species", "self.species_to_in_edges", "self.species_to_out_edges",
                     "self.species_to_mol"],
        "ensures": [
            "keys(self.edges) == old(keys(self.edges)) - {edge_id}",
            "forall(self.edges, lambda k: self.edges[k] is old(self.edges)[k])",
            "forall(old(self.species), lambda s: (s in self.species) == "
            "  (not (s in old(self.edges[edge_id].reactants.data) or s in old(self.edges[edge_id].products.data))"
            "   or truthy(old(in_minus(self, s, edge_id))) or truthy(old(out_minus(self, s, edge_id)))))",
            "self.species <= old(self.species)",
            "forall(self.species, lambda s: self.species_to_mol.get(s) == old(self.species_to_mol.get(s)))",
            "wf(self, True)",
            "implies(old(wf(self)), wf(self))",
        ],
        "loops": {
            1: {"modifies": ["self.species", "self.species_to_in_edges", "self.species_to_out_edges", "self.species_to_mol"],
                "inv": [
                    # species not yet visited are untouched
                    "forall('str', lambda s: implies(s not in done, (s in self.species) == (s in old(self.species))"
                    "  and (s in self.species_to_in_edges) == (s in old(self.species_to_in_edges))"
                    "  and (s in self.species_to_out_edges) == (s in old(self.species_to_out_edges))"
                    "  and (s in self.species_to_mol) == (s in old(self.species_to_mol))"
                    "  and self.species_to_in_edges.get(s, set()) == old(self.species_to_in_edges.get(s, set()))"
                    "  and self.species_to_out_edges.get(s, set()) == old(self.species_to_out_edges.get(s, set()))"
                    "  and self.species_to_mol.get(s) == old(self.species_to_mol.get(s))))",
                    # visited reactants: index updated; dropped iff nothing else refers to them
                    "forall(done, lambda s: ite(not truthy(old(self.species_to_in_edges.get(s, set()))) and not truthy(old(out_minus(self, s, edge_id))),"
                    "   s not in self.species and s not in self.species_to_in_edges and s not in self.species_to_out_edges and s not in self.species_to_mol,"
                    "   s in self.species and s in self.species_to_in_edges and s in self.species_to_out_edges"
                    "   and self.species_to_in_edges[s] == old(self.species_to_in_edges.get(s, set()))"
                    "   and self.species_to_out_edges[s] == old(out_minus(self, s, edge_id))"
                    "   and (s in self.species_to_mol) == (s in old(self.species_to_mol))"
                    "   and self.species_to_mol.get(s) == old(self.species_to_mol.get(s))))",
                ]},
            2: {"modifies": ["self.species", "self.species_to_in_edges", "self.species_to_out_edges", "self.species_to_mol"],
                "inv": [
                    "forall('str', lambda s: implies(s not in done, (s in self.species) == (s in at_entry(self.species))"
                    "  and (s in self.species_to_in_edges) == (s in at_entry(self.species_to_in_edges))"
                    "  and (s in self.species_to_out_edges) == (s in at_entry(self.species_to_out_edges))"
                    "  and (s in self.species_to_mol) == (s in at_entry(self.species_to_mol))"
                    "  and self.species_to_in_edges.get(s, set()) == at_entry(self.species_to_in_edges.get(s, set()))"
                    "  and self.species_to_out_edges.get(s, set()) == at_entry(self.species_to_out_edges.get(s, set()))"
                    "  and self.species_to_mol.get(s) == at_entry(self.species_to_mol.get(s))))",
                    "forall(done, lambda s: ite(not truthy(old(in_minus(self, s, edge_id))) and not truthy(old(out_minus(self, s, edge_id))),"
                    "   s not in self.species and s not in self.species_to_in_edges and s not in self.species_to_out_edges and s not in self.species_to_mol,"
                    "   s in self.species and s in self.species_to_in_edges and s in self.species_to_out_edges"
                    "   and self.species_to_in_edges[s] == old(in_minus(self, s, edge_id))"
                    "   and self.species_to_out_edges[s] == old(out_minus(self, s, edge_id))"
                    "   and (s in self.species_to_mol) == (s in old(self.species_to_mol))"
                    "   and self.species_to_mol.get(s) == old(self.species_to_mol.get(s))))",
                ]},
        },
    },
}
