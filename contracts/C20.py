"""C20 -- siphons, traps and pathway realizability match their Petri-net definitions (sidecar contracts)."""
from pyvc.rt import *  # noqa: F401,F403

PROPERTY = "C20"
USES_NX = True
ST = "synkit/CRN/Petri/structure.py"
NET = "synkit/CRN/Petri/net.py"
CLASSES = {
    "Transition": {"file": NET, "fields": {"tid": "str", "pre": "dict[str,int]", "post": "dict[str,int]"}},
    "PetriNet": {"file": NET, "fields": {"places": "set[str]", "transitions": "dict[str,obj:Transition]",
                                         "_place_index": "dict[str,int]"}},
}
TRUSTED = ["A-nx-graph (DiGraph: G.edges(n) yields the out-arcs of n only; in_edges/out_edges)", "A-builtins"]
ASSUMPTIONS = ["the bipartite view has no self-loops (a reaction node is never a species node)",
               "find_siphons / find_traps (enumeration of all subsets with itertools.combinations) and BFS completeness are bounded only; the minimality filter _minimal_sets is proved"]
NOT_APPLICABLE_CLAUSES = []


def arc_produces(G, r, s):
    """reaction r produces species s in the bipartite view: arc r -> s with role product and positive stoichiometry"""
    return G.has_edge(r, s) and G[r][s].get("role") == "product" and G[r][s].get("stoich", 0) > 0


def arc_consumes(G, r, s):
    return G.has_edge(s, r) and G[s][r].get("role") == "reactant" and G[s][r].get("stoich", 0) > 0


def members(species_nodes_sorted, S_idx):
    return {species_nodes_sorted[i] for i in S_idx}


def wf_net(N):
    """_place_index numbers the places 0..n-1 without repetition"""
    return keys(N._place_index) == N.places \
        and forall(N._place_index, lambda p: 0 <= N._place_index[p] and N._place_index[p] < len(N._place_index)) \
        and forall((N._place_index, N._place_index), lambda p, q: implies(p != q, N._place_index[p] != N._place_index[q]))


def hit(G, r, a, b, S_nodes, role):
    """the test the scans apply to an arc (a, b) incident to r"""
    return ((b if a == r else a) in S_nodes) and G[a][b].get("role") == role and G[a][b].get("stoich", 0) > 0


def view_ok(G, reaction_nodes, species_nodes_sorted, S_idx):
    """what the scans rely on: indices in range, reaction nodes are nodes of G and are not species nodes,
    stoichiometries are numbers, arcs carry their role in the direction the view defines"""
    return forall(S_idx, lambda i: 0 <= i and i < len(species_nodes_sorted)) \
        and forall(reaction_nodes, lambda r: G.has_node(r)) \
        and forall(G.edges, lambda u, v: isinstance(G[u][v].get("stoich", 0), (int, float))) \
        and forall(reaction_nodes, lambda r: not G.has_edge(r, r)) \
        and forall(reaction_nodes, lambda r: forall(G.edges, lambda a, b: implies(a == r, G[a][b].get("role") != "reactant")
                                                    and implies(b == r, G[a][b].get("role") != "product")))


def subset(a, b):
    return forall(a, lambda x: x in b)


FUNCTIONS = {
    ST + "::_is_siphon_indices": {
        "params": {"G": "obj:DiGraph", "species_nodes_sorted": "list[any]", "reaction_nodes": "list[any]", "S_idx": "set[int]"},
        "returns": "bool",
        "requires": ["view_ok(G, reaction_nodes, species_nodes_sorted, S_idx)"],
        "modifies": [],
        "ensures": [
            # S is a siphon iff it is non-empty and every reaction producing a member also consumes a member
            "result == (truthy(S_idx) and forall(reaction_nodes, lambda r: implies("
            "   exists(members(species_nodes_sorted, S_idx), lambda s: arc_produces(G, r, s)),"
            "   exists(members(species_nodes_sorted, S_idx), lambda s: arc_consumes(G, r, s)))))",
        ],
        "loops": {
            1: {"inv": ["forall(range(done), lambda j: implies("
                        "   exists(S_nodes, lambda s: arc_produces(G, reaction_nodes[j], s)),"
                        "   exists(S_nodes, lambda s: arc_consumes(G, reaction_nodes[j], s))))"]},
            2: {"inv": ["not produces", "forall(done, lambda a, b: not hit(G, r, a, b, S_nodes, 'product'))"]},
            3: {"inv": ["not consumes", "forall(done, lambda a, b: not hit(G, r, a, b, S_nodes, 'reactant'))"]},
        },
    },
    ST + "::_is_trap_indices": {
        "params": {"G": "obj:DiGraph", "species_nodes_sorted": "list[any]", "reaction_nodes": "list[any]", "S_idx": "set[int]"},
        "returns": "bool",
        "requires": ["view_ok(G, reaction_nodes, species_nodes_sorted, S_idx)"],
        "modifies": [],
        "ensures": [
            # S is a trap iff it is non-empty and every reaction consuming a member also produces a member
            "result == (truthy(S_idx) and forall(reaction_nodes, lambda r: implies("
            "   exists(members(species_nodes_sorted, S_idx), lambda s: arc_consumes(G, r, s)),"
            "   exists(members(species_nodes_sorted, S_idx), lambda s: arc_produces(G, r, s)))))",
        ],
        "loops": {
            1: {"inv": ["forall(range(done), lambda j: implies("
                        "   exists(S_nodes, lambda s: arc_consumes(G, reaction_nodes[j], s)),"
                        "   exists(S_nodes, lambda s: arc_produces(G, reaction_nodes[j], s))))"]},
            2: {"inv": ["not consumes", "forall(done, lambda a, b: not hit(G, r, a, b, S_nodes, 'reactant'))"]},
            3: {"inv": ["not produces", "forall(done, lambda a, b: not hit(G, r, a, b, S_nodes, 'product'))"]},
        },
    },
    NET + "::PetriNet.enabled": {
        "params": {"marking": "dict[str,int]", "tid": "str"},
        "returns": "bool",
        "raises": {"KeyError": "tid not in self.transitions"},
        "modifies": [],
        # firing is possible exactly when the marking covers the reactants
        "ensures": ["result == forall(self.transitions[tid].pre, lambda p: marking.get(p, 0) >= self.transitions[tid].pre[p])"],
        "loops": {1: {"inv": ["forall(done, lambda p: marking.get(p, 0) >= t.pre[p])"]}},
    },
    NET + "::PetriNet.fire": {
        "params": {"marking": "dict[str,int]", "tid": "str"},
        "returns": "dict[str,int]",
        "raises": {"KeyError": "tid not in self.transitions"},
        "modifies": [],
        "ensures": [
            # the marking changes by products minus reactants
            "forall('str', lambda p: result.get(p, 0) == marking.get(p, 0) - self.transitions[tid].pre.get(p, 0) "
            "       + self.transitions[tid].post.get(p, 0))",
            "keys(result) == keys(marking) | keys(self.transitions[tid].pre) | keys(self.transitions[tid].post)",
        ],
        "loops": {
            1: {"inv": ["keys(m) == keys(marking) | done",
                        "forall('str', lambda p: m.get(p, 0) == marking.get(p, 0) - (t.pre[p] if p in done else 0))"]},
            2: {"inv": ["keys(m) == at_entry(keys(m)) | done",
                        "forall('str', lambda p: m.get(p, 0) == at_entry(m.get(p, 0)) + (t.post[p] if p in done else 0))"]},
        },
    },
    "lemma::firing_keeps_counts_non_negative": {
        # with enabled() and fire() as specified, firing an enabled transition never drives a count negative
        "params": {"m": "dict[str,int]", "m2": "dict[str,int]", "pre": "dict[str,int]", "post": "dict[str,int]"},
        "requires": ["forall('str', lambda p: m.get(p, 0) >= 0)", "forall(post, lambda p: post[p] >= 0)",
                     "forall(pre, lambda p: m.get(p, 0) >= pre[p])",
                     "forall('str', lambda p: m2.get(p, 0) == m.get(p, 0) - pre.get(p, 0) + post.get(p, 0))"],
        "ensures": ["forall('str', lambda p: m2.get(p, 0) >= 0)"],
    },
    NET + "::PetriNet.add_place": {
        "params": {"p": "str"},
        "requires": ["wf_net(self)"],
        "modifies": ["self.places", "self._place_index"],
        "ensures": ["wf_net(self)", "self.places == old(self.places) | {p}",
                    "forall(old(self._place_index), lambda q: self._place_index[q] == old(self._place_index[q]))"],
    },
    NET + "::PetriNet.marking_to_tuple": {
        "params": {"m": "dict[str,int]"},
        "returns": "list[int]",
        "requires": ["wf_net(self)"],
        "modifies": [],
        "ensures": ["len(result) == len(self._place_index)",
                    "forall(self._place_index, lambda p: result[self._place_index[p]] == m.get(p, 0))"],
        "loops": {1: {"inv": ["len(arr) == size",
                              "forall(done, lambda p: arr[self._place_index[p]] == m.get(p, 0))"]}},
    },
    "lemma::marking_tuple_injective": {
        # two markings with the same tuple agree on every place (what the visited-set of the search relies on)
        "params": {"N": "obj:PetriNet", "m1": "dict[str,int]", "m2": "dict[str,int]", "t1": "list[int]", "t2": "list[int]"},
        "requires": ["wf_net(N)", "len(t1) == len(N._place_index)", "len(t2) == len(N._place_index)",
                     "forall(N._place_index, lambda p: t1[N._place_index[p]] == m1.get(p, 0))",
                     "forall(N._place_index, lambda p: t2[N._place_index[p]] == m2.get(p, 0))", "t1 == t2"],
        "ensures": ["forall(N.places, lambda p: m1.get(p, 0) == m2.get(p, 0))"],
    },
    # the minimality filter used by find_siphons / find_traps: the result consists of candidates, every candidate contains a kept set, and no kept
    # set contains another one -- i.e. the result is exactly the family of inclusion-minimal candidates (duplicates removed)
    ST + "::_minimal_sets": {
        "params": {"candidates": "list[set[int]]"},
        "vars": {"out": "list[set[int]]"},
        "returns": "list[set[int]]",
        "modifies": [],
        "ensures": [
            "forall(range(len(result)), lambda a: exists(range(len(candidates)), lambda c: result[a] == candidates[c]))",
            "forall(range(len(candidates)), lambda c: exists(range(len(result)), lambda a: subset(result[a], candidates[c])))",
            "forall((range(len(result)), range(len(result))), lambda a, b: implies(a != b, not subset(result[a], result[b])))",
        ],
        "loops": {1: {"inv": [
            "forall(range(len(out)), lambda a: exists(range(done), lambda c: out[a] == candidates[c]))",
            "forall(range(done), lambda c: exists(range(len(out)), lambda a: subset(out[a], candidates[c])))",
            "forall((range(len(out)), range(len(out))), lambda a, b: implies(a != b, not subset(out[a], out[b])))",
        ]}},
    },
}
