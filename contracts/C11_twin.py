"""C11 bounded stand-in / replay: exact automorphism analysis, WL orbit estimate, match de-duplication and the
symmetry pruning used by rule application, against brute force on small labelled graphs."""
import itertools, random, pickle, base64
import networkx as nx

from synkit.Graph.Matcher.automorphism import Automorphism
from synkit.Graph.Matcher.auto_est import AutoEst
from synkit.Graph.Matcher.dedup_matches import deduplicate_matches_with_anchor, _build_host_orbit_index
from pyvc import gen

K_DD = "synkit/Graph/Matcher/dedup_matches.py::deduplicate_matches_with_anchor"
K_IDX = "synkit/Graph/Matcher/dedup_matches.py::_build_host_orbit_index"
NK, EK = ("element", "charge"), ("order",)


def brute_auts(G, nkeys=NK, ekeys=EK):
    nodes = list(G.nodes)
    out = []
    for image in itertools.permutations(nodes):
        m = dict(zip(nodes, image))
        if all(all(G.nodes[n].get(k) == G.nodes[m[n]].get(k) for k in nkeys) for n in nodes) and \
                all(G.has_edge(m[u], m[v]) and all(G[u][v].get(k) == G[m[u]][m[v]].get(k) for k in ekeys) for u, v in G.edges) and \
                G.number_of_edges() == sum(1 for u, v in itertools.combinations(nodes, 2) if G.has_edge(m[u], m[v]) and G.has_edge(u, v)) + \
                sum(1 for n in nodes if G.has_edge(n, n)):
            out.append(m)
    return out


def orbits_of(G, auts):
    orb = []
    seen = set()
    for n in G.nodes:
        if n in seen:
            continue
        o = frozenset(a[n] for a in auts)
        seen |= o
        orb.append(o)
    return sorted(orb, key=lambda o: sorted(map(repr, o)))


def enc(x):
    return base64.b64encode(pickle.dumps(x)).decode()


def check_graph(tw, G, rng, fails, tags):
    nontrivial = 0
    # ---- exact analysis (connected graphs: the full group; disconnected: per component, swaps excluded)
    comps = [G.subgraph(c).copy() for c in nx.connected_components(G)]
    if len(comps) == 1:
        auts = brute_auts(G)
        want_n, want_orb = len(auts), orbits_of(G, auts)
    else:
        want_n, want_orb = 1, []
        for c in comps:
            a = brute_auts(c)
            want_n *= len(a)
            want_orb += orbits_of(c, a)
        want_orb = sorted(want_orb, key=lambda o: sorted(map(repr, o)))
    A = Automorphism(G)
    got_orb = sorted(A.orbits, key=lambda o: sorted(map(repr, o)))
    if A.n_automorphisms != want_n or got_orb != want_orb:
        fails.append({"function": "Automorphism._analyze", "violations": ["exact analysis: n=%s orbits=%s, brute force: n=%s orbits=%s" % (
            A.n_automorphisms, [sorted(o) for o in got_orb], want_n, [sorted(o) for o in want_orb])], "pickle": enc(G), "tags": tags})
    if want_n > 1:
        nontrivial = 1
    # ---- a later analysis of the same graph object after an in-place label change must be exact again
    if G.number_of_nodes() >= 2:
        n0 = next(iter(G.nodes))
        old = G.nodes[n0]["element"]
        G.nodes[n0]["element"] = "O" if old != "O" else "C"
        try:
            comps2 = [G.subgraph(c).copy() for c in nx.connected_components(G)]
            if len(comps2) == 1:
                a2 = brute_auts(G)
                B = Automorphism(G)
                if B.n_automorphisms != len(a2) or sorted(B.orbits, key=lambda o: sorted(map(repr, o))) != orbits_of(G, a2):
                    fails.append({"function": "Automorphism._analyze", "violations": [
                        "history: analysis after an in-place relabelling is stale (n=%s, brute force %s)" % (B.n_automorphisms, len(a2))],
                        "pickle": enc(G), "tags": dict(tags, clause="history")})
        finally:
            G.nodes[n0]["element"] = old
    # ---- the fast estimate never separates two nodes of one true orbit
    est = AutoEst(G, node_attrs=["element", "charge", "aromatic", "hcount"], edge_attrs=["order"])
    est.fit()
    full = brute_auts(G, nkeys=("element", "charge", "aromatic", "hcount")) if len(comps) == 1 else None
    if full is not None:
        est_of = {n: i for i, o in enumerate(est.orbits) for n in o}
        for o in orbits_of(G, full):
            if len({est_of[n] for n in o}) != 1:
                fails.append({"function": "AutoEst.fit", "violations": ["estimate separates the true orbit %s" % sorted(o)], "pickle": enc(G), "tags": tags})
                break
    # ---- de-duplication: contract (sub-list in order, first of each signature class), plus ValueError on uncovered host nodes
    host = nx.disjoint_union(G, G)
    matches = gen.brute_monos(host, G, ["element", "charge"], ["order"], hrule=False)[:40]
    rng.shuffle(matches)
    for po, pa in ((list(A.orbits), A.anchor_component), (None, None)):
        for ho in (None, [frozenset(c) for c in nx.connected_components(host)]):
            out, v = tw.check_call(K_DD, lambda matches, pattern_orbits, pattern_anchor, host_orbits, host_anchor:
                                   deduplicate_matches_with_anchor(matches, pattern_orbits=pattern_orbits, pattern_anchor=pattern_anchor,
                                                                   host_orbits=host_orbits, host_anchor=host_anchor),
                                   dict(matches=[dict(m) for m in matches], pattern_orbits=po, pattern_anchor=pa, host_orbits=ho, host_anchor=None))
            viol = list(v)
            if out[0] == "return":
                res = out[1]
                it = iter(matches)
                if not all(any(r == m for m in it) for r in res):
                    viol.append("result is not a sub-list of the input in the original order")
            if viol:
                fails.append({"function": "deduplicate_matches_with_anchor", "violations": viol, "pickle": enc(G), "tags": tags})
    if matches:
        try:
            deduplicate_matches_with_anchor(matches, host_orbits=[frozenset([next(iter(host.nodes))])] if host.number_of_nodes() > 1 else None)
            if host.number_of_nodes() > 1 and any(h != next(iter(host.nodes)) for m in matches for h in m.values()):
                fails.append({"function": "deduplicate_matches_with_anchor", "violations": ["no ValueError for a host node outside host_orbits"],
                              "pickle": enc(G), "tags": tags})
        except ValueError:
            pass
    orbs = [set(o) for o in A.orbits]
    out, v = tw.check_call(K_IDX, _build_host_orbit_index, dict(host_orbits=orbs))
    if v:
        fails.append({"function": "_build_host_orbit_index", "violations": v, "pickle": enc(G), "tags": tags})
    # ---- pruning as used by rule application loses no inequivalent match (pattern = G, host = G + G)
    if len(comps) >= 1 and matches:
        kept = deduplicate_matches_with_anchor(matches, pattern_orbits=A.orbits, pattern_anchor=A.anchor_component)
        group = brute_auts(G)          # exact symmetry group of the pattern (component swaps included)
        kept_set = {tuple(sorted(k.items())) for k in kept}
        for m in matches:
            if tuple(sorted(m.items())) in kept_set:
                continue
            if not any(tuple(sorted((p, k[s[p]]) for p in G.nodes)) == tuple(sorted(m.items())) for k in kept for s in group):
                fails.append({"function": "deduplicate_matches_with_anchor", "violations": [
                    "pruning: dropped match %s is not the image of a kept match under a pattern automorphism" % sorted(m.items())],
                    "pickle": enc(G), "tags": dict(tags, clause="prune_eqv")})
                break
    # ---- the default pruning of rule application (WL orbit estimate + anchor component)
    if matches:
        kept = deduplicate_matches_with_anchor(matches, pattern_orbits=est.orbits, pattern_anchor=est.anchor_component)
        group = brute_auts(G, nkeys=("element", "charge", "aromatic", "hcount"))
        kept_set = {tuple(sorted(k.items())) for k in kept}
        for m in matches:
            if tuple(sorted(m.items())) in kept_set:
                continue
            if not any(tuple(sorted((p, k[s[p]]) for p in G.nodes)) == tuple(sorted(m.items())) for k in kept for s in group):
                fails.append({"function": "deduplicate_matches_with_anchor", "violations": [
                    "pruning (WL estimate): dropped match %s is not the image of a kept match under a pattern automorphism" % sorted(m.items())],
                    "pickle": enc(G), "tags": dict(tags, clause="prune_eqv_est")})
                break
    return nontrivial


def run(tw, tier, seed, only=None):
    rng = random.Random(seed)
    fails, cases, nontriv, samples = [], 0, 0, []
    graphs = gen.labelled_graphs(3 if tier == "quick" else 4, hcounts=(0,), limit=150 if tier == "quick" else 700, rng=rng)
    for gi, G in enumerate(graphs):
        for n in G.nodes:
            G.nodes[n]["aromatic"] = False
        if gi % 3 == 1 and G.number_of_nodes() >= 2:          # same element, different formal charge: must not be exchangeable
            G.nodes[sorted(G.nodes)[0]]["charge"] = 1
        cases += 1
        nontriv += check_graph(tw, G, rng, fails, {"kind": "enumerated"})
        if len(fails) > 30:
            break
    for fam in (nx.cycle_graph(4), nx.cycle_graph(5), nx.complete_bipartite_graph(2, 2), nx.path_graph(4), nx.star_graph(3),
                nx.empty_graph(3), nx.empty_graph(4)):
        for n in fam.nodes:
            fam.nodes[n].update(element="C", charge=0, hcount=0, aromatic=False)
        for u, v in fam.edges:
            fam[u][v]["order"] = 1
        cases += 1
        nontriv += check_graph(tw, fam, rng, fails, {"kind": "symmetric-family"})
        if fam.number_of_nodes() >= 2:
            ch = fam.copy()
            ch.nodes[sorted(ch.nodes)[0]]["charge"] = 1       # one charged atom breaks the symmetry of the family
            cases += 1
            nontriv += check_graph(tw, ch, rng, fails, {"kind": "symmetric-family-charged"})
    # localised (Kekule-form) rings built edge by edge: equally coloured neighbours reached through different bond orders, adjacency lists
    # of equivalent atoms in different insertion orders
    for n, start in ((4, 0), (4, 1), (6, 0), (6, 3)):
        ring = nx.Graph()
        for i in range(n):
            ring.add_node(i, element="C", charge=0, hcount=0, aromatic=False)
        for k in range(n):
            i = (start + k) % n
            ring.add_edge(i, (i + 1) % n, order=1 + (i % 2))
        cases += 1
        nontriv += check_graph(tw, ring, rng, fails, {"kind": "kekule-ring"})
    return {"cases": cases, "nontrivial": nontriv, "failures": fails, "samples": [gen.graph_desc(graphs[0])], "exhaustive": False,
            "evaluations": tw.evaluations,
            "bound": "%d labelled graphs <= %d atoms (2 elements, 2 orders; sampled) + cycles C4/C5, K2,2, P4, star, Kekule-form C4/C6 rings; matches of each graph into two disjoint copies of itself" % (
                cases, 3 if tier == "quick" else 4),
            "rule": "a graph is non-trivial when it has a non-identity automorphism"}


def replay(tw, desc):
    G = pickle.loads(base64.b64decode(desc["pickle"]))
    fails = []
    check_graph(tw, G, random.Random(0), fails, {})
    return {"graph": gen.graph_desc(G), "violations": [v for f in fails for v in f["violations"]]}
