"""C19 bounded stand-in / replay: complexes, linkage classes, weak reversibility and deficiency against an
independent exact computation (sympy ranks), plus the ordering-layer contracts run natively."""
import random, warnings
warnings.filterwarnings("ignore")
import sympy

from synkit.CRN.Props.deficiency import DeficiencyAnalyzer
from synkit.CRN.Props import utils as UT
from synkit.CRN.Hypergraph.conversion import _as_bipartite
from pyvc import gen

K_SPLIT = "synkit/CRN/Props/utils.py::_split_species_reactions"
K_ORD = "synkit/CRN/Props/utils.py::_species_order"


def reference(rxns):
    species = sorted({s for r, p in rxns for s in list(r) + list(p)})
    vec = lambda side: tuple(side.get(s, 0) for s in species)
    cx = []
    arcs = []
    for r, p in rxns:
        a, b = vec(r), vec(p)
        for v in (a, b):
            if v not in cx:
                cx.append(v)
        arcs.append((cx.index(a), cx.index(b)))
    n = len(cx)
    parent = list(range(n))

    def find(x):
        while parent[x] != x:
            parent[x] = parent[parent[x]]
            x = parent[x]
        return x
    for a, b in arcs:
        parent[find(a)] = find(b)
    classes = {}
    for i in range(n):
        classes.setdefault(find(i), []).append(i)
    # reachability for weak reversibility
    reach = [[i == j for j in range(n)] for i in range(n)]
    for a, b in arcs:
        reach[a][b] = True
    for k in range(n):
        for i in range(n):
            for j in range(n):
                if reach[i][k] and reach[k][j]:
                    reach[i][j] = True
    weakly = all(reach[i][j] and reach[j][i] for c in classes.values() for i in c for j in c)
    S = sympy.Matrix([[p.get(s, 0) - r.get(s, 0) for r, p in rxns] for s in species]) if species else sympy.Matrix([])
    rank = S.rank() if species else 0
    delta = n - len(classes) - rank
    lc_defs = []
    for c in classes.values():
        cols = [[cx[b][i] - cx[a][i] for i in range(len(species))] for a, b in arcs if a in c and b in c and cx[a] != cx[b]]
        rk = sympy.Matrix(cols).T.rank() if cols else 0
        lc_defs.append(len(c) - 1 - rk)
    return dict(n_complexes=n, n_linkage=len(classes), rank=rank, delta=delta, weakly=weakly, lc_defs=sorted(lc_defs))


def check_network(tw, rxns, fails, tags):
    H = gen.build_crn(rxns)
    G = _as_bipartite(H)
    for key, fn in ((K_SPLIT, UT._split_species_reactions), (K_ORD, UT._species_order)):
        out, v = tw.check_call(key, fn, dict(G=G))
        if v:
            fails.append({"function": key.split("::")[1], "violations": v, "rxns": rxns, "tags": tags})
    ref = reference(rxns)
    an = DeficiencyAnalyzer(H).compute_summary().compute_linkage_deficiencies()
    s = an._summary
    got = dict(n_complexes=s.n_complexes, n_linkage=s.n_linkage_classes, rank=s.stoich_rank, delta=s.deficiency,
               weakly=s.weakly_reversible, lc_defs=sorted(an._linkage_deficiencies))
    viol = []
    for k in ref:
        if got[k] != ref[k]:
            viol.append("%s: reported %s, definition gives %s" % (k, got[k], ref[k]))
    if ref["delta"] < 0 or sum(ref["lc_defs"]) > ref["delta"]:
        viol.append("theorem check failed on the reference values (delta >= 0, sum of class deficiencies <= delta)")
    if viol:
        fails.append({"function": "DeficiencyAnalyzer.compute_summary", "violations": viol, "rxns": rxns, "tags": tags})
    # one analyzer object across an edit that reverses a reaction (stale caches must not survive)
    if len(rxns) >= 2 and rxns[-1][0] and rxns[-1][1]:
        last = list(H.edges)[-1]          # insertion order (sorting the ids would put 'e9' after 'e10')
        r, p = rxns[-1]
        H.remove_rxn(last)
        H.add_rxn(dict(p), dict(r))
        rx2 = list(rxns[:-1]) + [(p, r)]
        ref2 = reference(rx2)
        an.compute_summary().compute_linkage_deficiencies()
        s2 = an._summary
        got2 = dict(n_complexes=s2.n_complexes, n_linkage=s2.n_linkage_classes, rank=s2.stoich_rank, delta=s2.deficiency,
                    weakly=s2.weakly_reversible, lc_defs=sorted(an._linkage_deficiencies))
        bad = ["%s: reported %s, definition gives %s" % (k, got2[k], ref2[k]) for k in ref2 if got2[k] != ref2[k]]
        if bad:
            fails.append({"function": "DeficiencyAnalyzer.compute_summary", "violations": ["history (same analyzer after an edit): " + bad[0]] + bad[1:],
                          "rxns": rx2, "tags": dict(tags, clause="history")})
    return 1 if ref["n_complexes"] > 2 else 0


TEXTBOOK = [
    [({"A": 1, "B": 1}, {"C": 1}), ({"C": 1}, {"A": 1, "B": 1})],
    [({"A": 1}, {"A": 2}), ({"A": 2}, {"A": 1}), ({"A": 1, "B": 1}, {"C": 1}), ({"C": 1}, {"A": 1, "B": 1}), ({"C": 1}, {"B": 1}), ({"B": 1}, {"C": 1})],
    [({"S": 1, "E": 1}, {"C": 1}), ({"C": 1}, {"S": 1, "E": 1}), ({"C": 1}, {"P": 1, "E": 1}), ({"P": 1, "F": 1}, {"D": 1}), ({"D": 1}, {"P": 1, "F": 1}), ({"D": 1}, {"S": 1, "F": 1})],
]


def run(tw, tier, seed, only=None):
    rng = random.Random(seed)
    fails, cases, nontriv, samples = [], 0, 0, []
    for rxns in TEXTBOOK:
        cases += 1
        nontriv += check_network(tw, rxns, fails, {"kind": "textbook"})
    # rings of unimolecular reactions with every rotation (the last reaction gets reversed by the history check)
    for n in (3, 4):
        sp = "ABCD"[:n]
        ring = [({sp[i]: 1}, {sp[(i + 1) % n]: 1}) for i in range(n)]
        for k in range(n):
            cases += 1
            nontriv += check_network(tw, ring[k:] + ring[:k], fails, {"kind": "ring"})
    # complex graphs of every shape: unimolecular reactions among 3 species (all 63 arc sets) and 4 species (sampled in the quick tier), among them
    # reversible blocks joined by an irreversible step (every complex on a cycle, yet not weakly reversible)
    arcs3 = [(a, b) for a in "ABC" for b in "ABC" if a != b]
    arcs4 = [(a, b) for a in "ABCD" for b in "ABCD" if a != b]
    shapes = [[arcs3[i] for i in range(6) if m >> i & 1] for m in range(1, 64)]
    shapes += [[("A", "B"), ("B", "A"), ("B", "C"), ("C", "D"), ("D", "C")], [("A", "B"), ("B", "A"), ("A", "C"), ("C", "D"), ("D", "C")],
               [("A", "B"), ("B", "C"), ("C", "A"), ("C", "D"), ("D", "D2"), ("D2", "D")]]
    masks = range(1, 4096) if tier != "quick" else [rng.randrange(1, 4096) for _ in range(120)]
    shapes += [[arcs4[i] for i in range(12) if m >> i & 1] for m in masks]
    for sh in shapes:
        cases += 1
        nontriv += check_network(tw, [({a: 1}, {b: 1}) for a, b in sh], fails, {"kind": "complex-graph-shape"})
        if len(fails) > 20:
            break
    for rxns in gen.small_networks(3, 2, (1, 2) if tier != "quick" else (1,)):
        cases += 1
        nontriv += check_network(tw, rxns, fails, {"kind": "exhaustive"})
        if len(fails) > 20:
            break
    ex = cases
    for _ in range(60 if tier == "quick" else 1000):
        rxns = gen.random_network(rng, 6, 6, 2)
        cases += 1
        nontriv += check_network(tw, rxns, fails, {"kind": "random"})
        if len(samples) < 2:
            samples.append(rxns)
        if len(fails) > 20:
            break
    return {"cases": cases, "nontrivial": nontriv, "failures": fails, "samples": samples, "exhaustive": False,
            "evaluations": tw.evaluations,
            "bound": "3 textbook networks + all networks over 3 species with <= 2 reactions (%d) + %d random networks <= 6 species / 6 reactions; exact ranks by sympy" % (ex - 3, cases - ex),
            "rule": "a network is non-trivial when it has more than two complexes"}


def replay(tw, desc):
    fails = []
    check_network(tw, [tuple(x) for x in desc["rxns"]], fails, {})
    return {"rxns": desc["rxns"], "violations": [v for f in fails for v in f["violations"]]}
