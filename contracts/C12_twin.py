"""C12 bounded stand-in / replay: common-subgraph mappings vs brute force (validity, equal sizes, maximality, directions)."""
import itertools, random, pickle, base64
import networkx as nx

from synkit.Graph.Matcher.mcs_matcher import MCSMatcher
from synkit.Graph.MTG.mcs_matcher import MCSMatcher as MCSMatcherOld
from pyvc import gen

K_EM = "synkit/Graph/Matcher/mcs_matcher.py::MCSMatcher._edge_match"
K_GM = "synkit/Graph/Matcher/mcs_matcher.py::MCSMatcher.get_mappings"


def common(P, H, m):
    """m: nodes of P -> nodes of H is a common induced subgraph with equal element labels and bond orders"""
    if len(set(m.values())) != len(m):
        return False
    if any(P.nodes[p].get("element", "*") != H.nodes[h].get("element", "*") for p, h in m.items()):
        return False
    for p, q in itertools.combinations(list(m), 2):
        if P.has_edge(p, q) != H.has_edge(m[p], m[q]):
            return False
        if P.has_edge(p, q) and float(P[p][q].get("order")) != float(H[m[p]][m[q]].get("order")):
            return False
    return True


def max_common(P, H):
    best = 0
    Pn, Hn = list(P.nodes), list(H.nodes)
    for k in range(min(len(Pn), len(Hn)), 0, -1):
        for S in itertools.combinations(Pn, k):
            for img in itertools.permutations(Hn, k):
                if common(P, H, dict(zip(S, img))):
                    return k
    return best


def enc(x):
    return base64.b64encode(pickle.dumps(x)).decode()


def check_mol_mode(G1, G2, fails, tags):
    """molecule-level mode (mcs_mol=True): whole fragments are assigned to fragments; the result must still be an injective,
    label- and bond-preserving map and the two directions mutually inverse"""
    try:
        M = MCSMatcher(node_attrs=["element"], node_defaults=["*"], edge_attrs=["order"])
        M.find_common_subgraph(G1, G2, mcs_mol=True)
        a, b = M.get_mappings("G1_to_G2"), M.get_mappings("G2_to_G1")
    except Exception as ex:
        fails.append({"function": "Matcher.MCSMatcher(mcs_mol)", "violations": ["raised %r" % (ex,)], "pickle": enc((G1, G2)), "tags": tags})
        return
    viol = []
    for x in a:
        if len(set(x.values())) != len(x):
            viol.append("mcs_mol: mapping %s is not injective" % sorted(x.items()))
            break
        if not all(k in G1 and v in G2 and G1.nodes[k].get("element", "*") == G2.nodes[v].get("element", "*") for k, v in x.items()):
            viol.append("mcs_mol: mapping does not preserve elements")
            break
        if any((k1 in x and k2 in x) and (not G2.has_edge(x[k1], x[k2]) or G2[x[k1]][x[k2]].get("order") != d.get("order")) for k1, k2, d in G1.edges(data=True)):
            viol.append("mcs_mol: a bond between mapped atoms is not preserved")
            break
    if len(a) != len(b) or any({v: k for k, v in x.items()} != y for x, y in zip(a, b)):
        viol.append("mcs_mol: G1_to_G2 and G2_to_G1 are not mutually inverse")
    if viol:
        fails.append({"function": "Matcher.MCSMatcher(mcs_mol)", "violations": viol, "pickle": enc((G1, G2)), "tags": tags})


def check_pair(tw, G1, G2, fails, tags):
    check_mol_mode(G1, G2, fails, tags)
    truth = max_common(G1, G2)
    for cls, name in ((MCSMatcher, "Matcher.MCSMatcher"), (MCSMatcherOld, "MTG.MCSMatcher")):
        for mcs in (True, False):
            viol = []
            try:
                M = cls(node_attrs=["element"], node_defaults=["*"], edge_attrs=["order"]) if cls is MCSMatcher else cls(node_label_names=["element"], node_label_defaults=["*"])
                M.find_common_subgraph(G1, G2, mcs=mcs)
            except Exception as ex:
                fails.append({"function": name, "violations": ["raised %r" % (ex,)], "pickle": enc((G1, G2)), "tags": tags})
                continue
            pat_is_g1 = getattr(M, "_last_pattern_is_G1", True)
            P, H = (G1, G2) if pat_is_g1 in (True, None) else (G2, G1)
            if cls is MCSMatcherOld:
                P, H = G1, G2          # the older class always treats G1 as the pattern
            maps = M.get_mappings() if cls is MCSMatcherOld else M.get_mappings("pattern_to_host")
            for m in maps:
                if not common(P, H, m):
                    viol.append("invalid mapping %s" % sorted(m.items()))
                    break
            if mcs:
                if maps and len({len(m) for m in maps}) != 1:
                    viol.append("maximum mode returned mappings of different sizes")
                got = len(maps[0]) if maps else 0
                if got != truth:
                    viol.append("maximum mode size %d, largest common induced subgraph has %d atoms" % (got, truth))
            if cls is MCSMatcher:
                a, b = M.get_mappings("G1_to_G2"), M.get_mappings("G2_to_G1")
                if len(a) != len(b) or any({v: k for k, v in x.items()} != y for x, y in zip(a, b)):
                    viol.append("G1_to_G2 and G2_to_G1 are not mutually inverse")
                if any(not common(G1, G2, x) for x in a):
                    viol.append("G1_to_G2 mapping does not map G1 atoms to G2 atoms validly")
                out, v = tw.check_call(K_GM, MCSMatcher.get_mappings, dict(self=M, direction="G2_to_G1"))
                viol += list(v)
            if viol:
                fails.append({"function": name, "violations": viol, "pickle": enc((G1, G2)), "tags": dict(tags, mcs=mcs)})
    return 1 if truth >= 2 else 0


def run(tw, tier, seed, only=None):
    rng = random.Random(seed)
    fails, cases, nontriv, samples = [], 0, 0, []
    M = MCSMatcher(edge_attrs=["order", "w"])
    for hv, pv in itertools.product([None, 1, 1.0, 2, "1", "1.0", "a", 1.5, True], repeat=2):
        out, v = tw.check_call(K_EM, MCSMatcher._edge_match, dict(self=M, host_attrs={"order": hv} if hv is not None else {}, pat_attrs={"order": pv, "w": 1} if pv is not None else {"w": 1}))
        cases += 1
        if v:
            fails.append({"function": "MCSMatcher._edge_match", "violations": v, "args": [repr(hv), repr(pv)], "tags": {}})
    graphs = gen.labelled_graphs(3 if tier == "quick" else 4, hcounts=(0,), limit=60 if tier == "quick" else 300, rng=rng)
    for _ in range(150 if tier == "quick" else 1500):
        a, b = rng.choice(graphs), rng.choice(graphs)
        if rng.random() < 0.3:
            b = nx.relabel_nodes(a, {n: n + 7 for n in a.nodes})
        if rng.random() < 0.2:
            b = nx.disjoint_union(b, rng.choice(graphs))
        if rng.random() < 0.3:          # atoms relying on the default label '*' vs atoms labelled '*' explicitly
            a, b = a.copy(), b.copy()
            for g in (a, b):
                for n in list(g.nodes)[:2]:
                    if rng.random() < 0.5:
                        g.nodes[n].pop("element", None)
                    else:
                        g.nodes[n]["element"] = "*"
        cases += 1
        nontriv += check_pair(tw, a, b, fails, {"kind": "pair"})
        if len(samples) < 2:
            samples.append({"G1": gen.graph_desc(a), "G2": gen.graph_desc(b)})
        if len(fails) > 30:
            break
    return {"cases": cases, "nontrivial": nontriv, "failures": fails, "samples": samples, "exhaustive": False, "evaluations": tw.evaluations,
            "bound": "%d cases: the edge-attribute grid and pairs of labelled graphs <= %d atoms (2 elements, 2 orders) incl. relabelled copies and disjoint unions; "
                     "both MCSMatcher classes, maximum mode on/off, all directions" % (cases, 3 if tier == "quick" else 4),
            "rule": "a pair is non-trivial when the largest common induced subgraph has at least 2 atoms"}


def replay(tw, desc):
    G1, G2 = pickle.loads(base64.b64decode(desc["pickle"]))
    fails = []
    check_pair(tw, G1, G2, fails, {})
    return {"G1": gen.graph_desc(G1), "G2": gen.graph_desc(G2), "violations": [v for f in fails for v in f["violations"]]}
