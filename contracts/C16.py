"""C16 -- network views round-trip exactly (sidecar contracts).

Proved here: the bipartite exporter `hypergraph_to_bipartite` (string ids, default prefixes, stoichiometry and roles on, isolated species
kept, molecule labels off; `include_edge_id_attr` symbolic) returns a fresh directed graph that IS the bipartite view of the network: one
species node per species and one reaction node per reaction with exactly the documented attributes, an arc species->reaction iff the
species is a reactant (with its coefficient and role), reaction->species iff it is a product, and nothing else (`is_view`).  The two
nested helpers `add_sp_node` / `add_rxn_node` are verified on their own (closure variables as parameters) and used through their
contracts.  Everything else of the property (importer, reaction strings, species graph, other flag combinations) is bounded: the twin."""
from pyvc.rt import *  # noqa: F401,F403
from contracts.C15 import wf, owned, occurs_r, occurs_p, R, P, norm_of, side_ok, support, not_in_use, implies_side, empty_input, stoich_is  # noqa: F401

PROPERTY = "C16"
USES_NX = True
INCLUDE = ["C15"]
CV = "synkit/CRN/Hypergraph/conversion.py"
CLASSES = {}
TRUSTED = ["A-nx-graph (DiGraph: add_node / add_edge / has_node / has_edge / attribute views)", "A-builtins (sorted, dict.items)",
           "C15 contracts (wf and the reading helpers R, P, occurs_r, occurs_p) -- verified under C15"]
ASSUMPTIONS = ["A-fmt: the node-id formatters f'S:{s}' and f'R:{e}' are injective and their ranges are disjoint (true for string "
               "concatenation with two distinct non-empty prefixes of equal length); stated as AXIOMS of this file",
               "flag combinations other than the contracted one (integer ids, prefix None, include_mol, include_stoich / include_role off, "
               "isolated species dropped) are covered by the twin only",
               "the importer bipartite_to_hypergraph, reaction strings and the species graph are bounded (twin) only"]
NOT_APPLICABLE_CLAUSES = []
AXIOMS = [
    "forall(('str', 'str'), lambda a, b: implies(f'S:{a}' == f'S:{b}', a == b))",
    "forall(('str', 'str'), lambda a, b: implies(f'R:{a}' == f'R:{b}', a == b))",
    "forall(('str', 'str'), lambda a, b: f'S:{a}' != f'R:{b}')",
]


def sp(s):
    return f"S:{s}"


def rx(e):
    return f"R:{e}"


def sp_attrs_ok(G, s):
    return G.nodes[sp(s)] == {"bipartite": 0, "label": s, "kind": "species"}


def sp_ok(species_map, G):
    """every registered species is mapped to its node id, the node exists with the species attributes; species-shaped nodes are registered"""
    return forall(species_map, lambda s: same(species_map[s], sp(s))) \
        and forall(species_map, lambda s: G.has_node(sp(s))) \
        and forall(species_map, lambda s: sp_attrs_ok(G, s)) \
        and forall('str', lambda t: implies(G.has_node(sp(t)), t in species_map))


def view_nodes(G, H, E, with_eid):
    """species nodes for every species, reaction nodes exactly for the reactions in E, with their attributes"""
    return forall(H.species, lambda s: G.has_node(sp(s)) and sp_attrs_ok(G, s)) \
        and forall(E, lambda e: G.has_node(rx(e)) and G.nodes[rx(e)] == rx_attrs(e, H.edges[e].rule, with_eid)) \
        and forall(G.nodes, lambda n: exists(H.species, lambda s: same(n, sp(s))) or exists(E, lambda e: same(n, rx(e))))


def view_arcs(G, H, E):
    """arc species->reaction iff reactant (stoich, role), reaction->species iff product, for the reactions in E; no other arcs"""
    return forall((H.species, E), lambda s, e: G.has_edge(sp(s), rx(e)) == occurs_r(H, e, s)
                  and G.has_edge(rx(e), sp(s)) == occurs_p(H, e, s)) \
        and forall((H.species, E), lambda s, e: ((not occurs_r(H, e, s)) or G[sp(s)][rx(e)] == {"stoich": R(H, e, s), "role": "reactant"})
                   and ((not occurs_p(H, e, s)) or G[rx(e)][sp(s)] == {"stoich": P(H, e, s), "role": "product"})) \
        and forall(G.edges, lambda u, v: exists((H.species, E), lambda s, e: (same(u, sp(s)) and same(v, rx(e)))
                                                 or (same(u, rx(e)) and same(v, sp(s)))))


def is_view(G, H, with_eid):
    """G is the directed bipartite species/reaction view of the network H (string ids, default prefixes, stoichiometry and roles on)"""
    return view_nodes(G, H, keys(H.edges), with_eid) and view_arcs(G, H, keys(H.edges))


def map_full(species_map, H):
    return forall('str', lambda t: (t in species_map) == (t in H.species))


def rx_attrs(eid, rule, with_eid):
    return {"bipartite": 1, "label": rule, "kind": "reaction", "edge_id": eid} if with_eid else {"bipartite": 1, "label": rule, "kind": "reaction"}


FUNCTIONS = {
    CV + "::hypergraph_to_bipartite.add_rxn_node": {
        "closure": {"G": "obj:DiGraph", "integer_ids": "const:False", "reaction_prefix": "const:'R:'", "next_id": "int", "reaction_val": "const:1",
                    "include_edge_id_attr": "bool", "make_rxn_attrs": "func"},
        "params": {"eid": "str", "rule": "str"},
        "returns": "any",
        "requires": ["not G.has_node(rx(eid))"],
        "modifies": ["G.nodes", "G.nattr"],
        "ensures": [
            "same(result, rx(eid))",
            "forall('any', lambda n: G.has_node(n) == (old(G.has_node(n)) or same(n, rx(eid))))",
            "G.nodes[rx(eid)] == rx_attrs(eid, rule, include_edge_id_attr)",
            "forall(old(set(G.nodes)), lambda n: same(G.nodes[n], old(G.nodes[n])))",
            "forall(('any', 'any'), lambda a, b: G.has_edge(a, b) == old(G.has_edge(a, b)))",
            "forall('any', lambda a: not G.has_edge(a, rx(eid)) and not G.has_edge(rx(eid), a))",
        ],
    },
    CV + "::hypergraph_to_bipartite.add_sp_node": {
        "closure": {"species_map": "dict[str,any]", "G": "obj:DiGraph", "integer_ids": "const:False", "species_prefix": "const:'S:'",
                    "next_id": "int", "species_val": "const:0", "include_mol": "const:False", "species_to_mol": "const:None", "make_sp_attrs": "func"},
        "params": {"s": "str"},
        "returns": "any",
        "requires": ["sp_ok(species_map, G)"],
        "modifies": ["G.nodes", "G.nattr"], "mutates": ["species_map"],
        "ensures": [
            "same(result, sp(s))",
            "sp_ok(species_map, G)",
            "s in species_map",
            "forall('str', lambda t: (t in species_map) == (old(t in species_map) or t == s))",
            "forall('any', lambda n: G.has_node(n) == (old(G.has_node(n)) or same(n, sp(s))))",
            "forall(old(set(G.nodes)), lambda n: same(G.nodes[n], old(G.nodes[n])))",
            "forall(('any', 'any'), lambda a, b: G.has_edge(a, b) == old(G.has_edge(a, b)))",
        ],
    },
    CV + "::hypergraph_to_bipartite": {
        "params": {"H": "obj:CRNHyperGraph", "species_prefix": "const:'S:'", "reaction_prefix": "const:'R:'",
                   "bipartite_values": "const:(0, 1)", "include_stoich": "const:True", "include_role": "const:True",
                   "include_isolated_species": "const:True", "integer_ids": "const:False", "include_edge_id_attr": "bool",
                   "include_mol": "const:False"},
        "vars": {"species_map": "dict[str,any]", "seen": "set[str]"},
        "returns": "obj:DiGraph",
        "requires": ["wf(H)"],
        "modifies": [],
        "ensures": ["is_fresh(result)", "is_view(result, H, include_edge_id_attr)"],
        "hints": ["forall(H.edges, lambda e: e in seen)", "forall(seen, lambda e: e in H.edges)"],
        "loops": {
            1: {"modifies": ["G.nodes", "G.nattr"],
                "step_hints": ["s in species_map", "same(species_iter[done - 1], s)",
                               "forall(range(done - 1), lambda j: at_iter(species_iter[j] in species_map))",
                               "forall(range(done - 1), lambda j: species_iter[j] in species_map)"],
                "inv": ["sp_ok(species_map, G)",
                        "forall(species_map, lambda s: s in H.species)",
                        "forall(range(done), lambda j: species_iter[j] in species_map)",
                        "forall(G.nodes, lambda n: exists(species_map, lambda s: same(n, sp(s))))",
                        "forall(('any', 'any'), lambda u, v: not G.has_edge(u, v))"]},
            2: {"seq_as": "eids", "modifies": ["G.nodes", "G.nattr", "G.adj", "G.eattr"],
                "ghost_init": ["seen = set()"], "ghost_step": ["seen.add(eid)"],
                "step_hints": [
                    "same(e, H.edges[eid])", "eid in H.edges", "eids[done - 1] == eid",
                    "forall('str', lambda x: (x in seen) == (at_iter(x in seen) or x == eid))",
                    "forall(range(done), lambda j: eids[j] in seen)",
                    "forall(range(len(eids)), lambda j: implies(j >= done, eids[j] != eid))",
                    "forall(seen, lambda e: forall(range(len(eids)), lambda j: implies(j >= done, eids[j] != e)))",
                    "at_iter(eid not in seen)", "at_iter(forall(seen, lambda x: x != eid))", "at_iter(forall(H.species, lambda t: not same(sp(t), rx(eid))))",
                    "at_iter(not G.has_node(rx(eid)))",
                    # nodes: the old ones with their attributes, plus the reaction node
                    "forall(at_iter(seen), lambda x: G.has_node(rx(x)) and same(G.nodes[rx(x)], at_iter(G.nodes[rx(x)])))",
                    "forall(H.species, lambda t: G.has_node(sp(t)) and same(G.nodes[sp(t)], at_iter(G.nodes[sp(t)])))",
                    # arcs among old nodes are untouched; the arcs of the new reaction node are exactly its reactants / products
                    "forall(('any', 'any'), lambda a, b: implies(at_iter(G.has_edge(a, b)), G.has_edge(a, b) and same(G[a][b], at_iter(G[a][b]))))",
                    "forall(G.edges, lambda a, b: at_iter(G.has_edge(a, b)) or same(a, rx(eid)) or same(b, rx(eid)))",
                    "forall(H.edges[eid].reactants.data, lambda t: t in H.species and G.has_edge(sp(t), rx(eid)))",
                    "forall(H.edges[eid].products.data, lambda t: t in H.species and G.has_edge(rx(eid), sp(t)))",
                    "forall('any', lambda a: at_iter(not G.has_edge(a, rx(eid)) and not G.has_edge(rx(eid), a)))",
                    "forall(H.species, lambda t: implies(G.has_edge(sp(t), rx(eid)), occurs_r(H, eid, t)))",
                    "forall(H.species, lambda t: implies(G.has_edge(rx(eid), sp(t)), occurs_p(H, eid, t)))",
                    "forall(G.nodes, lambda n: at_iter(G.has_node(n)) or same(n, rx(eid)))",
                    "forall(H.edges[eid].reactants.data, lambda t: G[sp(t)][rx(eid)] == {'stoich': R(H, eid, t), 'role': 'reactant'})",
                    "forall(H.edges[eid].products.data, lambda t: G[rx(eid)][sp(t)] == {'stoich': P(H, eid, t), 'role': 'product'})",
                    "forall((H.species, at_iter(seen)), lambda t, x: implies(occurs_r(H, x, t), same(G[sp(t)][rx(x)], at_iter(G[sp(t)][rx(x)]))))",
                    "forall((H.species, at_iter(seen)), lambda t, x: implies(occurs_p(H, x, t), same(G[rx(x)][sp(t)], at_iter(G[rx(x)][sp(t)]))))",
                    "forall(G.edges, lambda a, b: at_iter(G.has_edge(a, b)) or (same(b, rx(eid)) and exists(H.species, lambda t: same(a, sp(t)))) "
                    "       or (same(a, rx(eid)) and exists(H.species, lambda t: same(b, sp(t)))))",
                    "at_iter(forall(G.nodes, lambda n: exists(H.species, lambda s: same(n, sp(s))) or exists(seen, lambda e: same(n, rx(e)))))",
                    "at_iter(forall((H.species, seen), lambda s, e: ((not occurs_r(H, e, s)) or G[sp(s)][rx(e)] == {'stoich': R(H, e, s), 'role': 'reactant'})"
                    "        and ((not occurs_p(H, e, s)) or G[rx(e)][sp(s)] == {'stoich': P(H, e, s), 'role': 'product'})))",
                    "forall((H.species, at_iter(seen)), lambda t, x: G.has_edge(sp(t), rx(x)) == at_iter(G.has_edge(sp(t), rx(x))))",
                    "forall((H.species, at_iter(seen)), lambda t, x: G.has_edge(rx(x), sp(t)) == at_iter(G.has_edge(rx(x), sp(t))))",
                ],
                "inv": ["map_full(species_map, H)", "sp_ok(species_map, G)",
                        "forall(range(done), lambda j: eids[j] in seen)",
                        "forall(seen, lambda e: forall(range(len(eids)), lambda j: implies(j >= done, eids[j] != e)))",
                        "forall(seen, lambda e: e in H.edges)",
                        "forall(range(len(eids)), lambda j: implies(j >= done, not G.has_node(rx(eids[j]))))",
                        {"inv": "view_nodes(G, H, seen, include_edge_id_attr)",
                         "using": ["forall('str', lambda x: (x in seen) == (at_iter(x in seen) or x == eid))",
                                   "forall(G.nodes, lambda n: at_iter(G.has_node(n)) or same(n, rx(eid)))",
                                   "at_iter(forall(G.nodes, lambda n: exists(H.species, lambda s: same(n, sp(s))) or exists(seen, lambda e: same(n, rx(e)))))"]},
                        {"inv": "view_arcs(G, H, seen)",
                         "using": ["forall('str', lambda x: (x in seen) == (at_iter(x in seen) or x == eid))",
                                   "forall(H.edges[eid].reactants.data, lambda t: G[sp(t)][rx(eid)] == {'stoich': R(H, eid, t), 'role': 'reactant'})",
                                   "forall(H.edges[eid].products.data, lambda t: G[rx(eid)][sp(t)] == {'stoich': P(H, eid, t), 'role': 'product'})",
                                   "forall((H.species, at_iter(seen)), lambda t, x: implies(occurs_r(H, x, t), same(G[sp(t)][rx(x)], at_iter(G[sp(t)][rx(x)]))))",
                                   "forall((H.species, at_iter(seen)), lambda t, x: implies(occurs_p(H, x, t), same(G[rx(x)][sp(t)], at_iter(G[rx(x)][sp(t)]))))",
                                   "at_iter(forall((H.species, seen), lambda s, e: ((not occurs_r(H, e, s)) or G[sp(s)][rx(e)] == {'stoich': R(H, e, s), 'role': 'reactant'})"
                                   "        and ((not occurs_p(H, e, s)) or G[rx(e)][sp(s)] == {'stoich': P(H, e, s), 'role': 'product'})))"]}]},
            3: {"modifies": ["G.nodes", "G.nattr", "G.adj", "G.eattr"],
                "step_hints": ["same(e, H.edges[eid])", "s in H.edges[eid].reactants.data", "c == R(H, eid, s)", "s in H.species",
                               "at_iter(s in species_map)", "at_iter(G.has_node(sp(s)))", "same(u, sp(s))",
                               "G.has_node(sp(s)) and G.has_node(rx(eid))",
                               "forall('any', lambda n: implies(at_iter(G.has_node(n)), G.has_node(n)))",
                               "forall(at_iter(set(G.nodes)), lambda n: same(G.nodes[n], at_iter(G.nodes[n])))",
                               "forall(species_map, lambda t: at_iter(t in species_map))",
                               "forall(species_map, lambda t: at_iter(G.has_node(sp(t))))",
                               "G.has_edge(sp(s), rx(eid))", "G[sp(s)][rx(eid)] == {'stoich': R(H, eid, s), 'role': 'reactant'}"],
                "inv": ["map_full(species_map, H)", "sp_ok(species_map, G)", "same(rnode, rx(eid))", "same(e, H.edges[eid])",
                        "forall('any', lambda n: implies(at_iter(G.has_node(n)), G.has_node(n)))", "G.has_node(rx(eid))",
                        "forall(G.nodes, lambda n: at_iter(G.has_node(n)) or same(n, rx(eid)))",
                        "forall(at_iter(set(G.nodes)), lambda n: same(G.nodes[n], at_iter(G.nodes[n])))",
                        "G.nodes[rx(eid)] == rx_attrs(eid, H.edges[eid].rule, include_edge_id_attr)",
                        "forall(('any', 'any'), lambda u, v: implies(at_iter(G.has_edge(u, v)), G.has_edge(u, v)))",
                        "forall(done, lambda s: G.has_edge(sp(s), rx(eid)) and G[sp(s)][rx(eid)] == {'stoich': R(H, eid, s), 'role': 'reactant'})",
                        "forall(G.edges, lambda u, v: at_iter(G.has_edge(u, v)) or (same(v, rx(eid)) and exists(done, lambda s: same(u, sp(s)))))",
                        "forall(H.edges[eid].reactants.data, lambda s2: implies(s2 not in done, not G.has_edge(sp(s2), rx(eid))))",
                        "forall(at_iter(set(G.edges)), lambda u, v: same(G[u][v], at_iter(G[u][v])))",
                        ]},
            4: {"modifies": ["G.nodes", "G.nattr", "G.adj", "G.eattr"],
                "step_hints": ["same(e, H.edges[eid])", "s in H.edges[eid].products.data", "c == P(H, eid, s)", "s in H.species",
                               "at_iter(s in species_map)", "at_iter(G.has_node(sp(s)))", "same(v, sp(s))",
                               "G.has_node(sp(s)) and G.has_node(rx(eid))",
                               "forall('any', lambda n: implies(at_iter(G.has_node(n)), G.has_node(n)))",
                               "forall(at_iter(set(G.nodes)), lambda n: same(G.nodes[n], at_iter(G.nodes[n])))",
                               "forall(species_map, lambda t: at_iter(t in species_map))",
                               "forall(species_map, lambda t: at_iter(G.has_node(sp(t))))",
                               "at_iter(not G.has_edge(rx(eid), sp(s)))",
                               "forall(at_iter(set(G.edges)), lambda a, b: G.has_edge(a, b))",
                               "forall(at_iter(set(G.edges)), lambda a, b: same(G[a][b], at_iter(G[a][b])))",
                               "forall(H.edges[eid].reactants.data, lambda s2: at_iter(G.has_edge(sp(s2), rx(eid))))",
                               "forall(H.edges[eid].reactants.data, lambda s2: G.has_edge(sp(s2), rx(eid)))",
                               "forall(H.edges[eid].reactants.data, lambda s2: same(G[sp(s2)][rx(eid)], at_iter(G[sp(s2)][rx(eid)])))",
                               "at_iter(forall(H.edges[eid].reactants.data, lambda s: G.has_edge(sp(s), rx(eid)) and G[sp(s)][rx(eid)] == {'stoich': R(H, eid, s), 'role': 'reactant'}))",
                               "G.has_edge(rx(eid), sp(s))", "G[rx(eid)][sp(s)] == {'stoich': P(H, eid, s), 'role': 'product'}"],
                "inv": ["map_full(species_map, H)", "sp_ok(species_map, G)", "same(rnode, rx(eid))", "same(e, H.edges[eid])",
                        "forall('any', lambda n: implies(at_iter(G.has_node(n)), G.has_node(n)))", "G.has_node(rx(eid))",
                        "forall(G.nodes, lambda n: at_iter(G.has_node(n)) or same(n, rx(eid)))",
                        "forall(at_iter(set(G.nodes)), lambda n: same(G.nodes[n], at_iter(G.nodes[n])))",
                        "G.nodes[rx(eid)] == rx_attrs(eid, H.edges[eid].rule, include_edge_id_attr)",
                        "forall(('any', 'any'), lambda u, v: implies(at_iter(G.has_edge(u, v)), G.has_edge(u, v)))",
                        "forall(H.edges[eid].reactants.data, lambda s: G.has_edge(sp(s), rx(eid)) and G[sp(s)][rx(eid)] == {'stoich': R(H, eid, s), 'role': 'reactant'})",
                        "forall(done, lambda s: G.has_edge(rx(eid), sp(s)) and G[rx(eid)][sp(s)] == {'stoich': P(H, eid, s), 'role': 'product'})",
                        "forall(G.edges, lambda u, v: at_iter(G.has_edge(u, v)) or (same(v, rx(eid)) and exists(H.edges[eid].reactants.data, lambda s: same(u, sp(s))))"
                        "       or (same(u, rx(eid)) and exists(done, lambda s: same(v, sp(s)))))",
                        "forall(H.edges[eid].products.data, lambda s2: implies(s2 not in done, not G.has_edge(rx(eid), sp(s2))))",
                        "forall(at_iter(set(G.edges)), lambda u, v: same(G[u][v], at_iter(G[u][v])))",
                        ]},
        },
    },
}
