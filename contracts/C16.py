"""C16 -- network views round-trip exactly (sidecar contracts)."""
from pyvc.rt import *  # noqa: F401,F403

PROPERTY = "C16"
RX = "synkit/CRN/Hypergraph/rxn.py"
CLASSES = {}
FUNCTIONS = {}
# no function of this property is under a discharged contract: the check is the bounded twin only and says so in its level text
# (a vacuous twin -- zero cases -- is still reported as a broken check)
BOUNDED_ONLY = True
TRUSTED = []
ASSUMPTIONS = ["bounded only: see contracts/C16_exporter_wip.py for the unfinished exporter contract (not part of any check)"]
