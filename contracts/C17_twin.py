"""C17 bounded stand-in / replay: stoichiometric analysis against exact rational linear algebra and exact certificates."""
import itertools, random
from fractions import Fraction

import numpy as np
from scipy.optimize import linprog

from synkit.CRN.Props import stoich as ST
from synkit.CRN.Props.utils import _species_and_reaction_order
from synkit.CRN.Hypergraph.conversion import _as_bipartite
from pyvc import gen

K_ORD = "synkit/CRN/Props/utils.py::_species_and_reaction_order"
K_INC = "synkit/CRN/Hypergraph/hypergraph.py::CRNHyperGraph.incidence_matrix"


def exact_S(rxns, species):
    return [[Fraction(p.get(s, 0) - r.get(s, 0)) for (r, p) in rxns] for s in species]


def rref_rank_kernel(M, ncols):
    """exact rank and a rational basis of {x : M x = 0}"""
    A = [row[:] for row in M]
    piv, r = [], 0
    for c in range(ncols):
        pr = next((i for i in range(r, len(A)) if A[i][c] != 0), None)
        if pr is None:
            continue
        A[r], A[pr] = A[pr], A[r]
        d = A[r][c]
        A[r] = [x / d for x in A[r]]
        for i in range(len(A)):
            if i != r and A[i][c] != 0:
                f = A[i][c]
                A[i] = [x - f * y for x, y in zip(A[i], A[r])]
        piv.append(c)
        r += 1
    basis = []
    for fc in [c for c in range(ncols) if c not in piv]:
        v = [Fraction(0)] * ncols
        v[fc] = Fraction(1)
        for i, pc in enumerate(piv):
            v[pc] = -A[i][fc]
        basis.append(v)
    return r, basis


def transpose(M, ncols):
    return [[row[c] for row in M] for c in range(ncols)]


def positive_kernel_vector(M, ncols):
    """decide exactly whether {x > 0 : M x = 0} is non-empty (M has ncols columns).  Returns (True, x), (False, y) with the
    Stiemke certificate y (y^T M >= 0, != 0), or (None, None) when neither certificate could be validated exactly."""
    rank, K = rref_rank_kernel(M, ncols)
    if ncols == 0:
        return True, []
    if K:
        k = len(K)
        # maximise t subject to sum_j a_j K_j >= t, -1 <= a <= 1
        A_ub = [[-float(K[j][i]) for j in range(k)] + [1.0] for i in range(ncols)]
        res = linprog([0.0] * k + [-1.0], A_ub=A_ub, b_ub=[0.0] * ncols, bounds=[(-1, 1)] * k + [(None, 1)], method="highs")
        if res.success and res.x[-1] > 1e-9:
            a = [Fraction(float(v)).limit_denominator(10 ** 6) for v in res.x[:k]]
            x = [sum(a[j] * K[j][i] for j in range(k)) for i in range(ncols)]
            if all(v > 0 for v in x):
                return True, x
    nrows = len(M)
    if nrows:
        # Stiemke alternative: y with y^T M >= 0 and != 0
        A_ub = [[-float(M[i][c]) for i in range(nrows)] for c in range(ncols)]
        obj = [-sum(float(M[i][c]) for c in range(ncols)) for i in range(nrows)]
        res = linprog(obj, A_ub=A_ub, b_ub=[0.0] * ncols, bounds=[(-1, 1)] * nrows, method="highs")
        if res.success:
            y = [Fraction(float(v)).limit_denominator(10 ** 6) for v in res.x]
            z = [sum(y[i] * M[i][c] for i in range(nrows)) for c in range(ncols)]
            if all(v >= 0 for v in z) and any(v > 0 for v in z):
                return False, y
    if not K:
        return False, None           # trivial kernel and ncols > 0: no positive vector
    return None, None


def check_network(tw, rxns, fails, tags):
    H = gen.build_crn(rxns)
    species = sorted(H.species)
    eids = sorted(H.edges.keys())
    E = exact_S([(dict(H.edges[e].reactants.items()), dict(H.edges[e].products.items())) for e in eids], species)
    n, m = len(species), len(eids)

    def bad(fn, msg, clause, extra=None):
        fails.append({"function": fn, "violations": ["%s: %s" % (clause, msg)], "rxns": rxns, "tags": dict(tags, **(extra or {}))})

    G = _as_bipartite(H)
    out, v = tw.check_call(K_ORD, _species_and_reaction_order, dict(crn=G))
    if v:
        fails.append({"function": "_species_and_reaction_order", "violations": v, "rxns": rxns, "tags": tags})
    if K_INC in tw.functions:
        out, v = tw.check_call(K_INC, type(H).incidence_matrix, dict(self=H, sparse=True))
        if v:
            fails.append({"function": "CRNHyperGraph.incidence_matrix", "violations": v, "rxns": rxns, "tags": tags})
    sp, rx, S = ST.build_S(H)
    # matrix: one row per species, one column per reaction, produced minus consumed; agrees with the incidence matrix
    if list(sp) != species or S.shape != (n, m):
        bad("build_S", "rows %s / shape %s, expected species %s x %d reactions" % (sp, S.shape, species, m), "matrix-shape")
        return 0
    # columns: reactions in the order build_S reports them
    col_of = {}
    for j, name in enumerate(rx):
        col_of[j] = name
    sp2, ed2, dense = H.incidence_matrix(sparse=False)
    sp3, ed3, sparse = H.incidence_matrix(sparse=True)
    inc_ok = list(sp2) == species and list(ed2) == eids and all(
        Fraction(int(dense[i, j])) == E[i][j] and sparse.get((species[i], eids[j]), 0) == E[i][j] for i in range(n) for j in range(m))
    if not inc_ok or set(k for k, val in sparse.items() if val != 0) - {(s, e) for s in species for e in eids}:
        bad("CRNHyperGraph.incidence_matrix", "incidence matrix differs from produced-minus-consumed", "incidence")
    # build_S columns are a permutation of the exact columns (reaction labels identify them when they are the edge ids)
    cols_exact = sorted(tuple(E[i][j] for i in range(n)) for j in range(m))
    cols_got = sorted(tuple(Fraction(float(S[i, j])).limit_denominator(1000) for i in range(n)) for j in range(m))
    if cols_exact != cols_got:
        bad("build_S", "matrix columns %s differ from exact %s" % (cols_got, cols_exact), "matrix-entries")
        return 0
    rank, Kr = rref_rank_kernel(E, m) if n else (0, [[Fraction(int(i == j)) for i in range(m)] for j in range(m)])
    rk = ST.stoichiometric_rank(H)
    if rk != rank:
        bad("stoichiometric_rank", "reported %d, exact %d" % (rk, rank), "rank")
    L = np.atleast_2d(ST.left_nullspace(H))
    R = np.atleast_2d(ST.right_nullspace(H))
    ldim = 0 if L.size == 0 else L.shape[1]
    rdim = 0 if R.size == 0 else R.shape[1]
    if ldim != n - rank:
        bad("left_nullspace", "dimension %d, exact %d" % (ldim, n - rank), "kernel-dim")
    elif ldim and (L.shape[0] != n or np.abs(L.T @ S).max(initial=0) > 1e-8 or np.linalg.matrix_rank(L) != ldim):
        bad("left_nullspace", "basis does not annihilate S or is not independent", "kernel-annihilates")
    if rdim != m - rank:
        bad("right_nullspace", "dimension %d, exact %d" % (rdim, m - rank), "kernel-dim")
    elif rdim and (R.shape[0] != m or np.abs(S @ R).max(initial=0) > 1e-8 or np.linalg.matrix_rank(R) != rdim):
        bad("right_nullspace", "basis does not annihilate S or is not independent", "kernel-annihilates")
    laws = ST.integer_conservation_laws(H) or []
    if len(laws) != n - rank:
        bad("integer_conservation_laws", "%d laws, exact kernel dimension %d" % (len(laws), n - rank), "kernel-dim")
    for law in laws:
        if any(sum(Fraction(int(law[i])) * E[i][j] for i in range(n)) != 0 for j in range(m)) or not any(law):
            bad("integer_conservation_laws", "law %s does not annihilate S" % (law,), "integer-law-approximate",
                {"kernel_dim": ">=2" if n - rank >= 2 else "1"})
            break
    # decisions against exact certificates
    cons_exact, _ = positive_kernel_vector(transpose(E, m), n) if m else (True, None)
    consi_exact, _ = positive_kernel_vector(E, m) if m else ((n == 0), None)
    basis_scan_hit = ldim >= 1 and any(np.all(L[:, k] > 1e-8) or np.all(L[:, k] < -1e-8) for k in range(ldim))
    got = ST.is_conservative(H)
    flag, wit = ST.compute_conservativity(H)
    for fn, g in (("is_conservative", got), ("compute_conservativity", flag)):
        if cons_exact is not None and g is not None and bool(g) != cons_exact:
            if cons_exact and not g and ldim >= 2 and not basis_scan_hit:
                bad(fn, "reported not conservative although %s exists" % ("a strictly positive conservation law",), "conservative-false-negative-lp",
                    {"kernel_dim": ">=2"})
            else:
                bad(fn, "reported %s, exact %s" % (g, cons_exact), "conservative-decision")
    if wit is not None and m:
        w = np.asarray(wit, dtype=float)
        if w.shape != (n,) or not np.all(w > 0) or np.abs(w @ S).max(initial=0) > 1e-7:
            bad("compute_conservativity", "returned witness is not a strictly positive conservation law", "witness")
    gc = ST.is_consistent(H)
    if consi_exact is not None and gc is not None and bool(gc) != consi_exact:
        bad("is_consistent", "reported %s, exact %s" % (gc, consi_exact), "consistent-decision")
    sm = ST.summary(H)
    if (sm.n_species, sm.n_reactions, sm.rank, sm.dim_left_kernel, sm.dim_right_kernel) != (n, m, rank, n - rank, m - rank):
        bad("summary", "summary %s differs from exact (%d, %d, %d)" % (sm, n, m, rank), "summary")
    # the matrices follow the network through edits (the same object is queried before and after)
    for victim in species[:2]:
        H2 = gen.build_crn(rxns)
        H2.incidence_matrix(sparse=False)
        ST.build_S(H2)
        try:
            H2.remove_species(victim)
        except Exception:
            continue
        sp_l = sorted(H2.species)
        ed_l = sorted(H2.edges.keys())
        E2 = exact_S([(dict(H2.edges[e].reactants.items()), dict(H2.edges[e].products.items())) for e in ed_l], sp_l)
        a, b, dense2 = H2.incidence_matrix(sparse=False)
        _, _, sparse2 = H2.incidence_matrix(sparse=True)
        ok = list(a) == sp_l and list(b) == ed_l and dense2.shape == (len(sp_l), len(ed_l)) and all(
            Fraction(int(dense2[i, j])) == E2[i][j] and sparse2.get((sp_l[i], ed_l[j]), 0) == E2[i][j] for i in range(len(sp_l)) for j in range(len(ed_l)))
        if not ok:
            bad("CRNHyperGraph.incidence_matrix", "after remove_species(%r) the incidence matrix differs from produced-minus-consumed" % victim, "incidence-after-edit")
        if ed_l and sp_l:
            sp4, rx4, S4 = ST.build_S(H2)
            got4 = sorted(tuple(Fraction(float(S4[i, j])).limit_denominator(1000) for i in range(S4.shape[0])) for j in range(S4.shape[1]))
            if list(sp4) != sp_l or got4 != sorted(tuple(E2[i][j] for i in range(len(sp_l))) for j in range(len(ed_l))):
                bad("build_S", "after remove_species(%r) the stoichiometric matrix differs from produced-minus-consumed" % victim, "matrix-after-edit")
    return 1 if (n - rank >= 2 or m - rank >= 1) else 0


def run(tw, tier, seed, only=None):
    rng = random.Random(seed)
    fails, cases, nontriv, samples = [], 0, 0, []
    nets = []
    sides = [dict(zip("ABC", cs)) for cs in itertools.product((0, 1, 2), repeat=3)]
    sides = [{k: v for k, v in s.items() if v} for s in sides]
    single = [[(r, p)] for r in sides for p in sides if (r or p)]
    nets += single if tier != "quick" else single[::3]
    pairs = [a + b for a in single for b in single]
    nets += rng.sample(pairs, 150 if tier == "quick" else 4000)
    fam = [[({"A": 1}, {"B": 1}), ({"B": 1}, {"A": 1})], [({"A": 1}, {"B": 1}), ({"B": 1}, {"C": 1}), ({"C": 1}, {"A": 1})],
           [({}, {"A": 1}), ({"A": 1}, {})], [({"A": 1, "E": 1}, {"B": 1, "E": 1}), ({"B": 1}, {"A": 1})],
           [({"C": 1, "B": 1}, {"F": 1, "A": 1})], [({"E": 1, "S": 1}, {"ES": 1}), ({"ES": 1}, {"E": 1, "S": 1}), ({"ES": 1}, {"E": 1, "P": 1})],
           [({"A": 1}, {"B": 1}), ({"B": 1}, {"A": 1}), ({"C": 1}, {"D": 1}), ({"D": 1}, {"C": 1})], [({"A": 1}, {"B": 1}), ({"A": 1, "B": 1}, {})],
           [({"A": 1, "B": 1}, {"C": 1}), ({"A": 1}, {"B": 1, "C": 1})], [({"A": 12}, {"B": 10})]]
    nets = fam + nets
    for _ in range(60 if tier == "quick" else 1500):
        nets.append(gen.random_network(rng, 7, 6, 3))
    for i, rxns in enumerate(nets):
        tags = {"family": "textbook" if i < len(fam) else "enumerated/random"}
        try:
            nontriv += check_network(tw, rxns, fails, tags)
        except Exception as ex:
            fails.append({"function": "C17 twin", "violations": ["raised %r" % (ex,)], "rxns": rxns, "tags": tags})
        cases += 1
        if len(samples) < 2:
            samples.append(rxns)
    # known findings can be frequent: keep at most three examples per (function, clause) so that no other kind of failure is cut off
    per, kept = {}, []
    for f in fails:
        k = (f["function"], f["violations"][0].split(":")[0], tuple(sorted(f.get("tags", {}).items())))
        per[k] = per.get(k, 0) + 1
        if per[k] <= 3:
            kept.append(f)
    return {"cases": cases, "nontrivial": nontriv, "failures": kept[:60], "n_failures": len(fails), "samples": samples, "exhaustive": False,
            "evaluations": tw.evaluations,
            "bound": "%d networks: single reactions over 3 species with coefficients 0..2 (%s), random pairs of them, textbook families, random networks "
                     "up to 7 species / 6 reactions with coefficients up to 3; rank and kernels by exact rational elimination, decisions by exactly "
                     "validated certificates (positive kernel vector or Stiemke alternative)" % (cases, "all" if tier != "quick" else "every third"),
            "rule": "a network is non-trivial when a kernel has dimension >= 2 (left) or >= 1 (right)"}


def replay(tw, desc):
    fails = []
    check_network(tw, desc["rxns"], fails, {})
    return {"violations": [v for f in fails for v in f["violations"]]}
