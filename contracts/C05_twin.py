"""C05 bounded stand-in / replay: rule application depends on the chemistry only, not on how inputs are written."""
import random, logging, itertools
import networkx as nx

from synkit.Synthesis.Reactor.syn_reactor import SynReactor
from synkit.Chem.Reaction.standardize import Standardize
from synkit.IO.chem_converter import smiles_to_graph
from pyvc import chem
import importlib.util, os

logging.disable(logging.CRITICAL)
_spec = importlib.util.spec_from_file_location("c03_twin_for_c05", os.path.join(os.path.dirname(os.path.abspath(__file__)), "C03_twin.py"))
_c03 = importlib.util.module_from_spec(_spec)
_spec.loader.exec_module(_c03)
TEMPLATES = _c03.TEMPLATES + [
    # symmetric non-anchor component next to an X-C-X anchor that the rule treats asymmetrically
    "[CH3:1][O:2][CH2:3][CH3:4].[H:5][H:6]>>[CH3:1][O:2][H:5].[H:6][CH2:3][CH3:4]",
    "[C:1][O:2][C:3].[H:4][H:5]>>[C:1][O:2][H:4].[H:5][C:3]",
    "[C:1][S:2][C:3].[Cl:4][Cl:5]>>[C:1][S:2][Cl:4].[Cl:5][C:3]",
    "[C:1](=[O:2])[Cl:3].[H:6][O:4][H:5]>>[C:1](=[O:2])[O:4][H:5].[H:6][Cl:3]",
]
SUBSTRATES = _c03.SUBSTRATES + ["COCC.[H][H]", "CCOC.[H][H]", "CC(=O)Cl.O", "CC(=O)Cl.CO", "CC(=O)Cl.OO", "CC(=O)Cl.CNC", 
                                "CC(C)=O.NC", "O=CCC=O.NC", "CCOCC.[H][H]", "OC(=O)C(C)C(=O)O.CO", "CSCC.ClCl", "CCSC.ClCl"]
STD = Standardize()


def result_set(substrate, template, invert, strategy, explicit_h=False, **kw):
    r = SynReactor(substrate=substrate, template=template, invert=invert, explicit_h=explicit_h, strategy=strategy, **kw)
    out = set()
    for s in r.smarts_list:
        try:
            out.add(STD.fit(s))
        except Exception:
            out.add("unparsable:" + str(s))
    return out


def graph_relabelled(smiles, rng, zero_based):
    """the substrate as a networkx graph with another node numbering (0-based reversed, or shuffled)"""
    g = smiles_to_graph(smiles, drop_non_aam=False, use_index_as_atom_map=False)
    nodes = list(g.nodes())
    new = list(range(len(nodes))) if zero_based else list(range(1, len(nodes) + 1))
    if zero_based:
        new = new[::-1]
    else:
        rng.shuffle(new)
    m = dict(zip(nodes, new))
    h = nx.Graph()
    for n in sorted(nodes, key=lambda x: m[x]):
        h.add_node(m[n], **dict(g.nodes[n]))
    for u, v, d in g.edges(data=True):
        h.add_edge(m[u], m[v], **dict(d))
    return h


def strategies_only(template, substrate, fails, tags):
    """cheap part, run on every pair: component-aware within exhaustive, fallback consistent"""
    n = 0
    for invert in (False, True):
        def bad(msg, clause):
            fails.append({"function": "SynReactor", "violations": ["%s: %s" % (clause, msg)], "template": template, "substrate": substrate,
                          "config": {"invert": invert}, "tags": dict(tags, clause=clause)})
        try:
            base = result_set(substrate, template, invert, "all")
            comp = result_set(substrate, template, invert, "comp")
            bt = result_set(substrate, template, invert, "bt")
        except Exception as ex:
            bad("raised %r" % (ex,), "raises")
            continue
        n += len(base)
        if not comp <= base:
            bad("component-aware strategy returns reactions the exhaustive strategy does not: %s" % (sorted(comp - base)[:2],), "comp-subset")
        if comp and bt != comp:
            bad("fallback strategy differs from the non-empty component-aware result", "bt-equals-comp")
        if not comp and not bt <= base:
            bad("fallback strategy returns reactions the exhaustive strategy does not", "bt-subset")
    return n


def check_pair(tw, template, substrate, fails, rng, tags, k=2):
    nres = 0
    if len(set(__import__("re").findall(r":(\d+)\]", template))) <= 6:
        k = max(k, 6)          # small templates: more map permutations
    for invert in (False, True):
        cfg = {"invert": invert}

        def bad(msg, clause, extra=None):
            fails.append({"function": "SynReactor", "violations": ["%s: %s" % (clause, msg)], "template": template, "substrate": substrate,
                          "config": dict(cfg, **(extra or {})), "tags": dict(tags, clause=clause)})
        try:
            base = result_set(substrate, template, invert, "all")
        except Exception as ex:
            bad("raised %r" % (ex,), "raises")
            continue
        nres += len(base)
        try:
            if result_set(substrate, template, invert, "all") != base:
                bad("a repeated call gives a different result set", "repeat")
            for i in range(k):
                s2 = chem.rewrite_smiles(substrate, rng)
                got = result_set(s2, template, invert, "all")
                if got != base:
                    bad("substrate written %s: %d reactions, written %s: %d (difference %s)" % (s2, len(got), substrate, len(base), sorted(got ^ base)[:2]),
                        "substrate-rewriting")
                    break
            for zero in (True, False):
                try:
                    g = graph_relabelled(substrate, rng, zero)
                    got = result_set(g, template, invert, "all")
                except Exception as ex:
                    bad("raised %r on a renumbered substrate graph" % (ex,), "substrate-graph-numbering")
                    continue
                if got != base:
                    bad("substrate graph numbered %s: %d reactions, SMILES input: %d (difference %s)" % (
                        "0..n-1 reversed" if zero else "shuffled", len(got), len(base), sorted(got ^ base)[:2]), "substrate-graph-numbering")
            for i in range(k):
                t2 = chem.renumber_rsmi(template, rng)
                got = result_set(substrate, t2, invert, "all")
                if got != base:
                    bad("template renumbered %s: %d reactions, original numbering: %d (difference %s)" % (t2, len(got), len(base), sorted(got ^ base)[:2]),
                        "template-renumbering")
                    break
            comp = result_set(substrate, template, invert, "comp")
            bt = result_set(substrate, template, invert, "bt")
            if not comp <= base:
                bad("component-aware strategy returns reactions the exhaustive strategy does not: %s" % (sorted(comp - base)[:2],), "comp-subset")
            if comp and bt != comp:
                bad("fallback strategy differs from the non-empty component-aware result", "bt-equals-comp")
            if not comp and not bt <= base:
                bad("fallback strategy returns reactions the exhaustive strategy does not", "bt-subset")
        except Exception as ex:
            bad("raised %r" % (ex,), "raises")
    return nres


# configuration matrix: the invariance must hold for every strategy, for the explicit-hydrogen template path and under an embedding cap
MATRIX_PAIRS = [
    ("[C:1]=[C:2].[H:3][O:4][H:5]>>[H:3][C:1][C:2][O:4][H:5]", "C=CC.O"),                                              # hydration, unsymmetrical alkene
    ("[C:2](=[O:3])[O:4][H:7].[C:5][O:6][H:8]>>[C:2](=[O:3])[O:6][C:5].[H:7][O:4][H:8]", "CO.CC(=O)O"),                  # components of different sizes
    ("[C:2](=[O:3])[O:4][H:7].[C:5][O:6][H:8]>>[C:2](=[O:3])[O:6][C:5].[H:7][O:4][H:8]", "CCO.OC(=O)CC.O"),
    ("[C:1]=[C:2].[H:3][Br:4]>>[H:3][C:1][C:2][Br:4]", "C=CC=CC.Br"),                                                    # 4 embeddings: caps 2, 3 are exceeded
    ("[C:1](=[O:2])[Cl:3].[N:4]([H:5])([H:6])[H:7]>>[C:1](=[O:2])[N:4]([H:6])[H:7].[Cl:3][H:5]", "CC(=O)Cl.N"),
]


def fragment_orders(smiles, rng, k):
    frags = smiles.split(".")
    orders = list(itertools.permutations(frags))[:6]
    out = [".".join(o) for o in orders]
    out += [chem.rewrite_smiles(smiles, rng) for _ in range(k)]
    return list(dict.fromkeys(out))


def check_matrix(template, substrate, fails, rng, tags, k=2):
    n = 0
    writings = fragment_orders(substrate, rng, k)
    templates = [template] + [chem.renumber_rsmi(template, rng) for _ in range(k)]
    for strategy in ("all", "comp", "bt"):
        for implicit_temp in (False, True):
            for cap in (None, 2, 3):
                cfg = {"strategy": strategy, "implicit_temp": implicit_temp, "embed_threshold": cap}
                ref = None
                for w in writings:
                    for t in (templates if w == writings[0] else templates[:1]):
                        try:
                            got = result_set(w, t, False, strategy, implicit_temp=implicit_temp, embed_threshold=cap)
                        except Exception as ex:
                            fails.append({"function": "SynReactor", "violations": ["raises: %r" % (ex,)], "template": t, "substrate": w, "config": cfg,
                                          "tags": dict(tags, clause="raises")})
                            continue
                        n += len(got)
                        if ref is None:
                            ref = (got, w, t)
                        elif got != ref[0]:
                            fails.append({"function": "SynReactor", "template": t, "substrate": w, "config": cfg, "tags": dict(tags, clause="matrix-invariance"),
                                          "violations": ["matrix-invariance: %s: substrate written %s / template %s gives %d reactions, written %s / %s gives %d (difference %s)" % (
                                              cfg, w, t, len(got), ref[1], ref[2], len(ref[0]), sorted(got ^ ref[0])[:2])]})
                            break
                    else:
                        continue
                    break
    return n


def run(tw, tier, seed, only=None):
    rng = random.Random(seed)
    fails, cases, nontriv, samples = [], 0, 0, []
    pairs = list(itertools.product(TEMPLATES, SUBSTRATES))
    live = []
    for t, s in pairs:
        try:
            if strategies_only(t, s, fails, {"family": "vendored"}):
                live.append((t, s))
        except Exception as ex:
            fails.append({"function": "C05 twin", "violations": ["raised %r" % (ex,)], "template": t, "substrate": s, "tags": {}})
        cases += 1
    if tier == "quick":
        # metamorphic part on the pairs that produce something: all pairs of the last (special) templates, a sample of the others
        special = [p for p in live if p[0] in TEMPLATES[-5:]]
        others = [p for p in live if p not in special]
        pairs = special + rng.sample(others, min(45, len(others)))
    else:
        pairs = live
    for t, s in pairs:
        try:
            n = check_pair(tw, t, s, fails, rng, {"family": "vendored"}, k=2 if tier == "quick" else 5)
        except Exception as ex:
            fails.append({"function": "C05 twin", "violations": ["raised %r" % (ex,)], "template": t, "substrate": s, "tags": {}})
            n = 0
        nontriv += 1 if n else 0
        cases += 1
    for t, sub in MATRIX_PAIRS:
        try:
            n = check_matrix(t, sub, fails, rng, {"family": "matrix"}, k=2 if tier == "quick" else 5)
        except Exception as ex:
            fails.append({"function": "C05 twin", "violations": ["raised %r" % (ex,)], "template": t, "substrate": sub, "tags": {}})
            n = 0
        nontriv += 1 if n else 0
        cases += 1
    # the hydrogen molecule can be written [H][H] or [HH]
    for t, sub in (("[CH2:1]=[CH2:2].[H:3][H:4]>>[CH2:1]([H:3])[CH2:2][H:4]", "C=C"), ("[C:1][O:2][C:3].[H:4][H:5]>>[C:1][O:2][H:4].[H:5][C:3]", "COCC")):
        try:
            a = result_set(sub + ".[H][H]", t, False, "all")
            b = result_set(sub + ".[HH]", t, False, "all")
            cases += 1
            if a != b:
                fails.append({"function": "SynReactor", "violations": ["h2-spelling: substrate %s.[H][H] gives %d reactions, %s.[HH] gives %d" % (sub, len(a), sub, len(b))],
                              "template": t, "substrate": sub + ".[HH]", "tags": {"clause": "h2-spelling"}})
        except Exception as ex:
            fails.append({"function": "SynReactor", "violations": ["raises: %r" % (ex,)], "template": t, "substrate": sub, "tags": {"clause": "raises"}})
    samples = [list(p) for p in pairs[:2]]
    return {"cases": cases, "nontrivial": nontriv, "failures": fails, "samples": samples, "exhaustive": False, "evaluations": cases,
            "bound": "%d checks: strategy inclusions on all pairs of 15 vendored templates x 47 substrates, forward and backward; metamorphic part on the productive pairs (sampled in quick): repeat, %d substrate SMILES rewritings, "
                     "2 substrate graph renumberings (0-based reversed, shuffled), %d template map permutations, strategies all / comp / bt; plus a configuration matrix on 5 pairs "
                     "(3 strategies x implicit_temp on/off x embedding cap none/2/3; every fragment order, random rewritings, template renumberings)" % (cases, 2 if tier == "quick" else 5, 2 if tier == "quick" else 5),
            "rule": "a pair is non-trivial when the exhaustive strategy proposes at least one reaction in some direction"}


def replay(tw, desc):
    fails = []
    if (desc.get("tags") or {}).get("clause") == "matrix-invariance" or "embed_threshold" in (desc.get("config") or {}):
        check_matrix(desc["template"], desc["substrate"], fails, random.Random(0), {})
    else:
        check_pair(tw, desc["template"], desc["substrate"], fails, random.Random(0), {})
    return {"violations": [v for f in fails for v in f["violations"]]}
