"""C05 -- rule application depends on the chemistry only, not on how inputs are written (sidecar contracts)."""
from pyvc.rt import *  # noqa: F401,F403

PROPERTY = "C05"
CLASSES = {}
FUNCTIONS = {}
BOUNDED_ONLY = True
