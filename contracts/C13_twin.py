"""C13 bounded stand-in / replay: clustering of small labelled graphs against brute-force isomorphism classes."""
import random, itertools, copy
import networkx as nx
from networkx.algorithms.isomorphism import generic_node_match, generic_edge_match
from operator import eq

from synkit.Graph.Matcher.graph_cluster import GraphCluster
from synkit.Graph.Matcher.batch_cluster import BatchCluster

K_IT = "synkit/Graph/Matcher/graph_cluster.py::GraphCluster.iterative_cluster"
K_LC = "synkit/Graph/Matcher/batch_cluster.py::BatchCluster.lib_check"
NM = generic_node_match(["element", "charge"], ["*", 0], [eq, eq])
EM = generic_edge_match("order", 1, eq)


def rand_graph(rng, n):
    G = nx.Graph()
    for i in range(n):
        G.add_node(i, element=rng.choice("CO"), charge=rng.choice([0, 0, 1]))
    for a, b in itertools.combinations(range(n), 2):
        if rng.random() < 0.5:
            G.add_edge(a, b, order=rng.choice([1, 2]))
    return G


def relabel(rng, G):
    nodes = list(G.nodes)
    perm = nodes[:]
    rng.shuffle(perm)
    return nx.relabel_nodes(G, dict(zip(nodes, [p + 10 for p in perm])))


def near_miss(rng, G):
    H = copy.deepcopy(G)
    r0 = rng.random()
    if H.number_of_nodes() and r0 < 0.15:
        # a placeholder element: "*" is a label like any other for the classification (it must not act as a wildcard)
        n = rng.choice(list(H.nodes))
        H.nodes[n]["element"] = "*"
        return H
    if H.number_of_nodes() and r0 < 0.25:
        n = rng.choice(list(H.nodes))
        H.nodes[n]["element"] = "N" if H.nodes[n]["element"] != "N" else "C"
        return H
    if H.number_of_edges() and rng.random() < 0.5:
        e = rng.choice(list(H.edges))
        H.edges[e]["order"] = 3 - H.edges[e]["order"]
    elif H.number_of_nodes():
        n = rng.choice(list(H.nodes))
        H.nodes[n]["charge"] = 1 - H.nodes[n]["charge"]
    return H


def pool(rng, size):
    base = [rand_graph(rng, rng.randint(1, 4)) for _ in range(max(1, size // 3))]
    out = []
    for _ in range(size):
        g = rng.choice(base)
        r = rng.random()
        out.append(relabel(rng, g) if r < 0.5 else near_miss(rng, g) if r < 0.75 else copy.deepcopy(g))
    return out


def signature(G):
    """an isomorphism-invariant pre-grouping attribute"""
    return "%d-%d-%s" % (G.number_of_nodes(), G.number_of_edges(), "".join(sorted(d["element"] for _, d in G.nodes(data=True))))


def partition(classes):
    groups = {}
    for i, c in enumerate(classes):
        groups.setdefault(c, set()).add(i)
    return sorted(sorted(g) for g in groups.values())


def brute(graphs):
    cls = []
    for i, g in enumerate(graphs):
        for j in range(i):
            if nx.is_isomorphic(graphs[j], g, node_match=NM, edge_match=EM):
                cls.append(cls[j])
                break
        else:
            cls.append(i)
    return partition(cls)


def check_case(tw, graphs, rng, fails, tags):
    gc = GraphCluster()
    for attrs in (None, [signature(g) for g in graphs]):
        out, v = tw.check_call(K_IT, GraphCluster.iterative_cluster,
                               dict(self=gc, rules=list(graphs), attributes=attrs, nodeMatch=gc.nodeMatch, edgeMatch=gc.edgeMatch))
        if out[0] == "return":
            rtc = out[1][1]
            if partition([rtc[i] for i in range(len(graphs))]) != brute(graphs):
                v = list(v) + ["partition differs from the isomorphism classes"]
        if v:
            fails.append({"function": "GraphCluster.iterative_cluster", "violations": v, "n": len(graphs), "tags": tags,
                          "graphs": [list(g.edges(data=True)) for g in graphs][:4]})
    # order independence + batch == one-shot + incremental classification
    data = [{"gml": g, "WLHash": signature(g)} for g in graphs]
    one, _ = BatchCluster().fit(copy.deepcopy(data), None, "gml", "WLHash")
    p_one = partition([d["class"] for d in one])
    for bs in (1, 2, 3):
        res, tmpl = BatchCluster().fit(copy.deepcopy(data), None, "gml", "WLHash", batch_size=bs)
        if partition([d["class"] for d in res]) != p_one:
            fails.append({"function": "BatchCluster.fit", "violations": ["batch_size=%d partition differs from one-shot" % bs],
                          "n": len(graphs), "tags": tags})
    order = list(range(len(graphs)))
    rng.shuffle(order)
    shuf, _ = BatchCluster().fit([copy.deepcopy(data[i]) for i in order], None, "gml", "WLHash", batch_size=2)
    back = {order[k]: shuf[k]["class"] for k in range(len(order))}
    if partition([back[i] for i in range(len(graphs))]) != p_one:
        fails.append({"function": "BatchCluster.fit", "violations": ["partition depends on the order of the list"], "n": len(graphs), "tags": tags})
    if p_one != brute(graphs):
        fails.append({"function": "BatchCluster.fit", "violations": ["one-shot partition differs from the isomorphism classes"], "n": len(graphs), "tags": tags})
    # lib_check under its contract
    bc = BatchCluster()
    templates = []
    for d in copy.deepcopy(data):
        out, v = tw.check_call(K_LC, lambda self, data, templates, rule_key, attribute_key, nodeMatch, edgeMatch:
                               BatchCluster.lib_check(self, data, templates, rule_key, attribute_key, nodeMatch, edgeMatch),
                               dict(self=bc, data=d, templates=templates, rule_key="gml", attribute_key="WLHash", nodeMatch=None, edgeMatch=None))
        if v:
            fails.append({"function": "BatchCluster.lib_check", "violations": v, "n": len(graphs), "tags": tags})
            break
        if out[0] == "return":
            templates = out[1][1]
    return 1 if len(p_one) > 1 else 0


def run(tw, tier, seed, only=None):
    rng = random.Random(seed)
    fails, cases, nontriv, samples = [], 0, 0, []
    for _ in range(60 if tier == "quick" else 800):
        graphs = pool(rng, rng.randint(1, 7 if tier == "quick" else 12))
        cases += 1
        nontriv += check_case(tw, graphs, rng, fails, {"kind": "random"})
        if len(samples) < 2:
            samples.append([sorted(g.edges(data="order")) for g in graphs][:3])
        if len(fails) > 20:
            break
    return {"cases": cases, "nontrivial": nontriv, "failures": fails, "samples": samples, "exhaustive": False,
            "evaluations": tw.evaluations,
            "bound": "%d random multisets of <= %d graphs (<= 4 atoms, 2 elements, 2 charges, 2 orders) with relabelled copies and one-edit near-misses; "
                     "attribute on/off, batch sizes 1..3, shuffled order, incremental lib_check" % (cases, 7 if tier == "quick" else 12),
            "rule": "a case is non-trivial when it has more than one isomorphism class"}


def replay(tw, desc):
    """cases are generated from a seed: the bounded run is repeated on the current tree and the failures of the recorded function are reported"""
    res = run(tw, "quick", int(desc.get("seed", 0) or 0))
    return {"violations": [v for f in res["failures"] if f.get("function") == desc.get("function") for v in f["violations"]]}
