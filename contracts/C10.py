"""C10 -- changing representation loses nothing (sidecar contracts)."""
from pyvc.rt import *  # noqa: F401,F403

PROPERTY = "C10"
USES_NX = True
HM = "synkit/Graph/Hyrogen/_misc.py"
CLASSES = {}
TRUSTED = ["A-nx-graph (Graph.copy is a fresh graph with equal node / edge sets and attribute values)", "A-builtins"]
ASSUMPTIONS = ["only h_to_implicit is under contract; the exact new hydrogen count of a heavy atom (old count + number of removed hydrogen neighbours) needs a counting "
               "invariant and is decided by the bounded twin, as are SMILES / GML conversions (RDKit, strings)"]


def elem(G, n):
    return G.nodes[n].get("element")


def is_h(G, n):
    return elem(G, n) == "H"


def removable(G, n):
    """an explicit hydrogen with at least one non-hydrogen neighbour"""
    return is_h(G, n) and exists(G.nodes, lambda m: G.has_edge(n, m) and not is_h(G, m))


FUNCTIONS = {
    HM + "::h_to_implicit": {
        "params": {"G": "obj:Graph"},
        "vars": {"h_nodes": "list[any]", "neighbors": "list[any]", "added": "dict[any,int]"},
        "returns": "obj:Graph",
        "requires": ["forall(G.nodes, lambda n: isinstance(G.nodes[n].get('hcount', 0), int))"],
        "modifies": [],
        "ensures": [
            "is_fresh(result)",
            # exactly the hydrogens that have a heavy neighbour disappear; hydrogens without one (H2, a bare proton) stay
            "forall('any', lambda n: result.has_node(n) == (G.has_node(n) and not removable(G, n)))",
            # nothing but the hydrogen count of heavy atoms changes on the atoms that stay
            "forall(result.nodes, lambda n: forall('str', lambda k: implies(k != 'hcount', same(result.nodes[n].get(k), G.nodes[n].get(k)))))",
            "forall(result.nodes, lambda n: implies(is_h(G, n), same(result.nodes[n].get('hcount'), G.nodes[n].get('hcount'))))",
            # the bonds between remaining atoms are the original ones
            "forall(('any', 'any'), lambda u, v: result.has_edge(u, v) == (G.has_edge(u, v) and result.has_node(u) and result.has_node(v)))",
            "forall(result.edges, lambda u, v: same(result[u][v], G[u][v]))",
            # an atom without a removable hydrogen neighbour keeps its count; counts never decrease
            "forall(result.nodes, lambda n: implies(not exists(G.nodes, lambda h: G.has_edge(n, h) and removable(G, h)), "
            "       same(result.nodes[n].get('hcount'), G.nodes[n].get('hcount'))))",
        ],
        # exact counts, with the number of removed hydrogen neighbours given by the ghost counter `added` (one increment per
        # removed hydrogen and heavy neighbour, see the ghost step of loop 2)
        "ghost_ensures": ["forall(result.nodes, lambda n: result.nodes[n].get('hcount', 0) == G.nodes[n].get('hcount', 0) + added.get(n, 0))",
                          "forall('any', lambda n: added.get(n, 0) >= 0)"],
        "loops": {
            1: {"modifies": ["H2.nodes", "H2.nattr", "H2.adj", "H2.eattr"],
                "ghost_init": ["added = {}"],
                "step_hints": [
                    "implies(not H2.has_node(h), removable(G, h))",
                    "implies(H2.has_node(h), not removable(G, h))",
                    "forall('any', lambda n: implies(not same(n, h), H2.has_node(n) == at_iter(H2.has_node(n))))",
                    "forall(H2.nodes, lambda n: implies(H2.has_node(h) or not G.has_edge(n, h), same(H2.nodes[n].get('hcount'), at_iter(H2.nodes[n].get('hcount')))))",
                    "forall(H2.nodes, lambda n: at_iter(H2.has_node(n)))",
                    # what the ghost counter counts: +1 for every heavy neighbour of a hydrogen that was removed in this iteration
                    "forall('any', lambda n: added.get(n, 0) == at_iter(added.get(n, 0)) + (1 if (not H2.has_node(h) and G.has_node(n) and G.has_edge(n, h) and not is_h(G, n)) else 0))",
                    "forall(range(len(h_nodes)), lambda i: implies(not same(h_nodes[i], h), H2.has_node(h_nodes[i]) == at_iter(H2.has_node(h_nodes[i]))))",
                    "forall(H2.nodes, lambda n: implies(at_iter(forall(range(done), lambda i: implies(G.has_edge(n, h_nodes[i]), H2.has_node(h_nodes[i])))), "
                    "       at_iter(same(H2.nodes[n].get('hcount'), G.nodes[n].get('hcount')))))",
                ],
                "inv": [
                    "forall(range(len(h_nodes)), lambda i: G.has_node(h_nodes[i]) and is_h(G, h_nodes[i]))",
                    "forall(G.nodes, lambda m: implies(not is_h(G, m), H2.has_node(m)))",
                    "forall((range(len(h_nodes)), range(len(h_nodes))), lambda i, j: implies(i != j, not same(h_nodes[i], h_nodes[j])))",
                    "forall(G.nodes, lambda n: implies(is_h(G, n), exists(range(len(h_nodes)), lambda i: same(h_nodes[i], n))))",
                    "forall(H2.nodes, lambda n: G.has_node(n))",
                    "forall(G.nodes, lambda n: implies(not removable(G, n), H2.has_node(n)))",
                    "forall(range(done), lambda i: implies(removable(G, h_nodes[i]), not H2.has_node(h_nodes[i])))",
                    "forall(range(len(h_nodes)), lambda i: implies(i >= done, H2.has_node(h_nodes[i])))",
                    "forall(H2.nodes, lambda n: forall('str', lambda k: implies(k != 'hcount', same(H2.nodes[n].get(k), G.nodes[n].get(k)))))",
                    "forall(H2.nodes, lambda n: implies(is_h(G, n), same(H2.nodes[n].get('hcount'), G.nodes[n].get('hcount'))))",
                    "forall(H2.nodes, lambda n: isinstance(H2.nodes[n].get('hcount', 0), int))",
                    "forall(('any', 'any'), lambda u, v: H2.has_edge(u, v) == (G.has_edge(u, v) and H2.has_node(u) and H2.has_node(v)))",
                    "forall(H2.edges, lambda u, v: same(H2[u][v], G[u][v]))",
                    "forall(H2.nodes, lambda n: H2.nodes[n].get('hcount', 0) == G.nodes[n].get('hcount', 0) + added.get(n, 0))",
                    "forall('any', lambda n: added.get(n, 0) >= 0)",
                    # an atom all of whose already processed hydrogen neighbours are still present has its original count
                    "forall(H2.nodes, lambda n: implies(forall(range(done), lambda i: implies(G.has_edge(n, h_nodes[i]), H2.has_node(h_nodes[i]))), "
                    "       same(H2.nodes[n].get('hcount'), G.nodes[n].get('hcount'))))",
                ]},
            2: {"modifies": ["H2.nattr"],
                "ghost_step": ["if H2.nodes[heavy].get('element') != 'H':\n    added[heavy] = added.get(heavy, 0) + 1"],
                "inv": [
                    # the hydrogen count moves in step with the ghost counter
                    "forall(H2.nodes, lambda n: H2.nodes[n].get('hcount', 0) - at_iter(H2.nodes[n].get('hcount', 0)) == added.get(n, 0) - at_iter(added.get(n, 0)))",
                    "forall('any', lambda n: added.get(n, 0) >= at_iter(added.get(n, 0)) and added.get(n, 0) <= at_iter(added.get(n, 0)) + 1)",
                    "forall('any', lambda n: implies(added.get(n, 0) != at_iter(added.get(n, 0)), H2.has_edge(h, n) and not is_h(G, n)))",
                    "forall('any', lambda n: implies(added.get(n, 0) != at_iter(added.get(n, 0)), n in done))",
                    "forall(done, lambda n: implies(not is_h(G, n), added.get(n, 0) == at_iter(added.get(n, 0)) + 1))",
                    "forall('any', lambda n: H2.has_node(n) == at_iter(H2.has_node(n)))",
                    "forall(('any', 'any'), lambda u, v: H2.has_edge(u, v) == at_iter(H2.has_edge(u, v)))",
                    "forall(H2.nodes, lambda n: forall('str', lambda k: implies(k != 'hcount', same(H2.nodes[n].get(k), at_iter(H2.nodes[n].get(k))))))",
                    "forall(H2.nodes, lambda n: implies(is_h(G, n) or not H2.has_edge(h, n), same(H2.nodes[n].get('hcount'), at_iter(H2.nodes[n].get('hcount')))))",
                    "forall(H2.nodes, lambda n: isinstance(H2.nodes[n].get('hcount', 0), int))",
                    "forall(H2.edges, lambda u, v: same(H2[u][v], at_iter(H2[u][v])))",
                ]},
        },
    },
}
