"""C10 -- changing representation loses nothing (sidecar contracts)."""
from pyvc.rt import *  # noqa: F401,F403

PROPERTY = "C10"
USES_NX = True
CLASSES = {}
FUNCTIONS = {}
BOUNDED_ONLY = True
