"""C10 -- changing representation loses nothing (sidecar contracts)."""
from pyvc.rt import *  # noqa: F401,F403

PROPERTY = "C10"
USES_NX = True
HM = "synkit/Graph/Hyrogen/_misc.py"
CLASSES = {}
TRUSTED = ["A-nx-graph (Graph.copy is a fresh graph with equal node / edge sets and attribute values)", "A-builtins"]
ASSUMPTIONS = ["h_to_implicit and h_to_explicit (default call: all atoms, its=False, integer node ids, no 'typesGH' attributes) are under contract; calls with a node list, "
               "ITS graphs (typesGH bookkeeping, normalize_edge_orders) and SMILES / GML conversions (RDKit, strings) are decided by the bounded twin"]


def elem(G, n):
    return G.nodes[n].get("element")


def is_h(G, n):
    return elem(G, n) == "H"


def removable(G, n):
    """an explicit hydrogen with at least one non-hydrogen neighbour"""
    return is_h(G, n) and exists(G.nodes, lambda m: G.has_edge(n, m) and not is_h(G, m))


def is_index(n):
    return isinstance(n, int) and not isinstance(n, bool)


def hc(G, n):
    return G.nodes[n].get('hcount', 0)


def is_new_h(R, n):
    """the attributes h_to_explicit gives a hydrogen node it creates"""
    return R.nodes[n].get('element') == 'H' and R.nodes[n].get('hcount') == 0 and R.nodes[n].get('charge') == 0 \
        and R.nodes[n].get('aromatic') == False and R.nodes[n].get('atom_map') == 0 \
        and R.nodes[n].get('typesGH') == (("H", False, 0, 0, []), ("H", False, 0, 0, []))  # noqa: E712


def single_bond(R, u, v):
    """the bond attributes h_to_explicit writes: order 1.0 and nothing else"""
    return R[u][v].get('order') == 1.0 and forall('str', lambda k: implies(k in R[u][v], k == 'order'))


FUNCTIONS = {
    HM + "::h_to_implicit": {
        "params": {"G": "obj:Graph"},
        "vars": {"h_nodes": "list[any]", "neighbors": "list[any]", "added": "dict[any,int]"},
        "returns": "obj:Graph",
        "requires": ["forall(G.nodes, lambda n: isinstance(G.nodes[n].get('hcount', 0), int))"],
        "modifies": [],
        "ensures": [
            "is_fresh(result)",
            # exactly the hydrogens that have a heavy neighbour disappear; hydrogens without one (H2, a bare proton) stay
            "forall('any', lambda n: result.has_node(n) == (G.has_node(n) and not removable(G, n)))",
            # nothing but the hydrogen count of heavy atoms changes on the atoms that stay
            "forall(result.nodes, lambda n: forall('str', lambda k: implies(k != 'hcount', same(result.nodes[n].get(k), G.nodes[n].get(k)))))",
            "forall(result.nodes, lambda n: implies(is_h(G, n), same(result.nodes[n].get('hcount'), G.nodes[n].get('hcount'))))",
            # the bonds between remaining atoms are the original ones
            "forall(('any', 'any'), lambda u, v: result.has_edge(u, v) == (G.has_edge(u, v) and result.has_node(u) and result.has_node(v)))",
            "forall(result.edges, lambda u, v: same(result[u][v], G[u][v]))",
            # an atom without a removable hydrogen neighbour keeps its count; counts never decrease
            "forall(result.nodes, lambda n: implies(not exists(G.nodes, lambda h: G.has_edge(n, h) and removable(G, h)), "
            "       same(result.nodes[n].get('hcount'), G.nodes[n].get('hcount'))))",
        ],
        # exact counts, with the number of removed hydrogen neighbours given by the ghost counter `added` (one increment per
        # removed hydrogen and heavy neighbour, see the ghost step of loop 2)
        "ghost_ensures": ["forall(result.nodes, lambda n: result.nodes[n].get('hcount', 0) == G.nodes[n].get('hcount', 0) + added.get(n, 0))",
                          "forall('any', lambda n: added.get(n, 0) >= 0)"],
        "loops": {
            1: {"modifies": ["H2.nodes", "H2.nattr", "H2.adj", "H2.eattr"],
                "ghost_init": ["added = {}"],
                "step_hints": [
                    "implies(not H2.has_node(h), removable(G, h))",
                    "implies(H2.has_node(h), not removable(G, h))",
                    "forall('any', lambda n: implies(not same(n, h), H2.has_node(n) == at_iter(H2.has_node(n))))",
                    "forall(H2.nodes, lambda n: implies(H2.has_node(h) or not G.has_edge(n, h), same(H2.nodes[n].get('hcount'), at_iter(H2.nodes[n].get('hcount')))))",
                    "forall(H2.nodes, lambda n: at_iter(H2.has_node(n)))",
                    # what the ghost counter counts: +1 for every heavy neighbour of a hydrogen that was removed in this iteration
                    "forall('any', lambda n: added.get(n, 0) == at_iter(added.get(n, 0)) + (1 if (not H2.has_node(h) and G.has_node(n) and G.has_edge(n, h) and not is_h(G, n)) else 0))",
                    "forall(range(len(h_nodes)), lambda i: implies(not same(h_nodes[i], h), H2.has_node(h_nodes[i]) == at_iter(H2.has_node(h_nodes[i]))))",
                    "forall(H2.nodes, lambda n: implies(at_iter(forall(range(done), lambda i: implies(G.has_edge(n, h_nodes[i]), H2.has_node(h_nodes[i])))), "
                    "       at_iter(same(H2.nodes[n].get('hcount'), G.nodes[n].get('hcount')))))",
                ],
                "inv": [
                    "forall(range(len(h_nodes)), lambda i: G.has_node(h_nodes[i]) and is_h(G, h_nodes[i]))",
                    "forall(G.nodes, lambda m: implies(not is_h(G, m), H2.has_node(m)))",
                    "forall((range(len(h_nodes)), range(len(h_nodes))), lambda i, j: implies(i != j, not same(h_nodes[i], h_nodes[j])))",
                    "forall(G.nodes, lambda n: implies(is_h(G, n), exists(range(len(h_nodes)), lambda i: same(h_nodes[i], n))))",
                    "forall(H2.nodes, lambda n: G.has_node(n))",
                    "forall(G.nodes, lambda n: implies(not removable(G, n), H2.has_node(n)))",
                    "forall(range(done), lambda i: implies(removable(G, h_nodes[i]), not H2.has_node(h_nodes[i])))",
                    "forall(range(len(h_nodes)), lambda i: implies(i >= done, H2.has_node(h_nodes[i])))",
                    "forall(H2.nodes, lambda n: forall('str', lambda k: implies(k != 'hcount', same(H2.nodes[n].get(k), G.nodes[n].get(k)))))",
                    "forall(H2.nodes, lambda n: implies(is_h(G, n), same(H2.nodes[n].get('hcount'), G.nodes[n].get('hcount'))))",
                    "forall(H2.nodes, lambda n: isinstance(H2.nodes[n].get('hcount', 0), int))",
                    "forall(('any', 'any'), lambda u, v: H2.has_edge(u, v) == (G.has_edge(u, v) and H2.has_node(u) and H2.has_node(v)))",
                    "forall(H2.edges, lambda u, v: same(H2[u][v], G[u][v]))",
                    "forall(H2.nodes, lambda n: H2.nodes[n].get('hcount', 0) == G.nodes[n].get('hcount', 0) + added.get(n, 0))",
                    "forall('any', lambda n: added.get(n, 0) >= 0)",
                    # an atom all of whose already processed hydrogen neighbours are still present has its original count
                    "forall(H2.nodes, lambda n: implies(forall(range(done), lambda i: implies(G.has_edge(n, h_nodes[i]), H2.has_node(h_nodes[i]))), "
                    "       same(H2.nodes[n].get('hcount'), G.nodes[n].get('hcount'))))",
                ]},
            2: {"modifies": ["H2.nattr"],
                "ghost_step": ["if H2.nodes[heavy].get('element') != 'H':\n    added[heavy] = added.get(heavy, 0) + 1"],
                "inv": [
                    # the hydrogen count moves in step with the ghost counter
                    "forall(H2.nodes, lambda n: H2.nodes[n].get('hcount', 0) - at_iter(H2.nodes[n].get('hcount', 0)) == added.get(n, 0) - at_iter(added.get(n, 0)))",
                    "forall('any', lambda n: added.get(n, 0) >= at_iter(added.get(n, 0)) and added.get(n, 0) <= at_iter(added.get(n, 0)) + 1)",
                    "forall('any', lambda n: implies(added.get(n, 0) != at_iter(added.get(n, 0)), H2.has_edge(h, n) and not is_h(G, n)))",
                    "forall('any', lambda n: implies(added.get(n, 0) != at_iter(added.get(n, 0)), n in done))",
                    "forall(done, lambda n: implies(not is_h(G, n), added.get(n, 0) == at_iter(added.get(n, 0)) + 1))",
                    "forall('any', lambda n: H2.has_node(n) == at_iter(H2.has_node(n)))",
                    "forall(('any', 'any'), lambda u, v: H2.has_edge(u, v) == at_iter(H2.has_edge(u, v)))",
                    "forall(H2.nodes, lambda n: forall('str', lambda k: implies(k != 'hcount', same(H2.nodes[n].get(k), at_iter(H2.nodes[n].get(k))))))",
                    "forall(H2.nodes, lambda n: implies(is_h(G, n) or not H2.has_edge(h, n), same(H2.nodes[n].get('hcount'), at_iter(H2.nodes[n].get('hcount')))))",
                    "forall(H2.nodes, lambda n: isinstance(H2.nodes[n].get('hcount', 0), int))",
                    "forall(H2.edges, lambda u, v: same(H2[u][v], at_iter(H2[u][v])))",
                ]},
        },
    },
    # the opposite direction, default call (all atoms, its=False), graphs with integer ids and without 'typesGH' attributes: the hydrogen
    # count of every atom is turned into that many new hydrogen atoms; ghost maps `parent` (new atom -> the atom it hangs on) and `first`
    # (atom -> highest id before its hydrogens were added) pin the number of new atoms per atom without a cardinality
    HM + "::h_to_explicit": {
        "params": {"G": "obj:Graph", "nodes": "const:None", "its": "const:False"},
        "vars": {"parent": "dict[any,any]", "first": "dict[any,int]"},
        "returns": "obj:Graph",
        "requires": ["forall(G.nodes, lambda n: is_index(n))",
                     "forall(G.nodes, lambda n: isinstance(G.nodes[n].get('hcount', 0), int) and not isinstance(G.nodes[n].get('hcount', 0), bool))",
                     "forall(G.nodes, lambda n: 'typesGH' not in G.nodes[n])"],
        "modifies": [],
        "ensures": [
            "is_fresh(result)",
            # the original atoms stay, with every attribute but the hydrogen count
            "forall(G.nodes, lambda n: result.has_node(n))",
            "forall(G.nodes, lambda n: forall('str', lambda k: implies(k != 'hcount', same(result.nodes[n].get(k), G.nodes[n].get(k)))))",
            # a positive hydrogen count is used up entirely, any other count is left alone
            "forall(G.nodes, lambda n: implies(hc(G, n) > 0, result.nodes[n].get('hcount') == 0))",
            "forall(G.nodes, lambda n: implies(not hc(G, n) > 0, same(result.nodes[n].get('hcount'), G.nodes[n].get('hcount'))))",
            # the original bonds stay with their attributes
            "forall(G.edges, lambda u, v: result.has_edge(u, v) and same(result[u][v], G[u][v]))",
            # every other atom is a new hydrogen with a fresh integer id
            "forall(result.nodes, lambda n: G.has_node(n) or (is_index(n) and is_new_h(result, n) and forall(G.nodes, lambda m: m < n)))",
        ],
        "ghost_ensures": [
            # each new hydrogen hangs on exactly one original atom (its parent) by a single bond, and on nothing else
            "forall(result.nodes, lambda n: G.has_node(n) or (n in parent and G.has_node(parent[n]) and result.has_edge(parent[n], n) "
            "       and single_bond(result, parent[n], n)))",
            "forall(result.edges, lambda u, v: G.has_edge(u, v) or (not G.has_node(v) and v in parent and same(parent[v], u)) "
            "       or (not G.has_node(u) and u in parent and same(parent[u], v)))",
            # the new hydrogens of an atom are `count` consecutive ids: exactly as many as its hydrogen count said
            "forall(G.nodes, lambda n: implies(hc(G, n) > 0, n in first and forall('int', lambda m: implies(first[n] < m and m <= first[n] + hc(G, n), "
            "       result.has_node(m) and not G.has_node(m) and m in parent and same(parent[m], n)))))",
            "forall(result.nodes, lambda m: G.has_node(m) or (parent[m] in first and first[parent[m]] < m and m <= first[parent[m]] + hc(G, parent[m])))",
        ],
        "loops": {
            1: {"modifies": ["H2.nodes", "H2.nattr", "H2.adj", "H2.eattr"],
                "ghost_init": ["parent = {}", "first = {}"],
                "inv": [
                    "is_index(max_node) and forall(H2.nodes, lambda n: is_index(n) and n <= max_node)",
                    "forall(G.nodes, lambda n: H2.has_node(n))",
                    "forall(G.nodes, lambda n: 'typesGH' not in H2.nodes[n])",
                    "forall(G.nodes, lambda n: forall('str', lambda k: implies(k != 'hcount', same(H2.nodes[n].get(k), G.nodes[n].get(k)))))",
                    "forall(G.nodes, lambda n: implies(n not in done, same(H2.nodes[n].get('hcount'), G.nodes[n].get('hcount')) and ('hcount' in H2.nodes[n]) == ('hcount' in G.nodes[n])))",
                    "forall(done, lambda n: implies(hc(G, n) > 0, H2.nodes[n].get('hcount') == 0))",
                    "forall(done, lambda n: implies(not hc(G, n) > 0, same(H2.nodes[n].get('hcount'), G.nodes[n].get('hcount'))))",
                    "forall(G.edges, lambda u, v: H2.has_edge(u, v) and same(H2[u][v], G[u][v]))",
                    "forall(H2.nodes, lambda n: G.has_node(n) or (is_new_h(H2, n) and forall(G.nodes, lambda m: m < n)))",
                    "forall(H2.nodes, lambda n: G.has_node(n) or (n in parent and G.has_node(parent[n]) and parent[n] in done and H2.has_edge(parent[n], n) "
                    "       and single_bond(H2, parent[n], n)))",
                    "forall(parent, lambda n: H2.has_node(n) and not G.has_node(n))",
                    "forall(H2.edges, lambda u, v: G.has_edge(u, v) or (not G.has_node(v) and v in parent and same(parent[v], u)) "
                    "       or (not G.has_node(u) and u in parent and same(parent[u], v)))",
                    "forall(done, lambda n: implies(hc(G, n) > 0, n in first and forall('int', lambda m: implies(first[n] < m and m <= first[n] + hc(G, n), "
                    "       H2.has_node(m) and not G.has_node(m) and m in parent and same(parent[m], n)))))",
                    "forall(H2.nodes, lambda m: G.has_node(m) or (parent[m] in first and first[parent[m]] < m and m <= first[parent[m]] + hc(G, parent[m])))",
                ]},
            2: {"modifies": ["H2.nodes", "H2.nattr", "H2.adj", "H2.eattr"],
                "ghost_init": ["first[heavy] = max_node"],
                "ghost_step": ["parent[max_node] = heavy"],
                "inv": [
                    "is_index(max_node) and max_node == first[heavy] + done and first[heavy] == at_iter(max_node)",
                    "forall(H2.nodes, lambda n: is_index(n) and n <= max_node)",
                    "forall('any', lambda n: H2.has_node(n) == (at_iter(H2.has_node(n)) or (is_index(n) and first[heavy] < n and n <= max_node)))",
                    "forall(at_iter(set(H2.nodes)), lambda n: same(H2.nodes[n], at_iter(H2.nodes[n])))",
                    "forall('int', lambda m: implies(first[heavy] < m and m <= max_node, is_new_h(H2, m) and m in parent and same(parent[m], heavy) "
                    "       and H2.has_edge(heavy, m) and single_bond(H2, heavy, m)))",
                    "forall(at_iter(keys(parent)), lambda n: n in parent and same(parent[n], at_iter(parent[n])))",
                    "forall(parent, lambda n: at_iter(n in parent) or (is_index(n) and first[heavy] < n and n <= max_node))",
                    "forall(at_iter(keys(first)), lambda n: implies(not same(n, heavy), n in first and first[n] == at_iter(first[n])))",
                    "forall(first, lambda n: at_iter(n in first) or same(n, heavy))",
                    "forall(('any', 'any'), lambda u, v: implies(at_iter(H2.has_edge(u, v)), H2.has_edge(u, v) and same(H2[u][v], at_iter(H2[u][v]))))",
                    "forall(H2.edges, lambda u, v: at_iter(H2.has_edge(u, v)) or (same(u, heavy) and is_index(v) and first[heavy] < v and v <= max_node) "
                    "       or (same(v, heavy) and is_index(u) and first[heavy] < u and u <= max_node))",
                ]},
        },
    },
    # the same function called with a non-empty list of atoms (as the reactor does): only the listed atoms are expanded; duplicates and ids that
    # are not in the graph are harmless
    HM + "::h_to_explicit~list": {
        "params": {"G": "obj:Graph", "nodes": "list[any]", "its": "const:False"},
        "vars": {"parent": "dict[any,any]", "first": "dict[any,int]", "proc": "set[any]"},
        "returns": "obj:Graph",
        "requires": ["len(nodes) > 0", "forall(G.nodes, lambda n: is_index(n))",
                     "forall(G.nodes, lambda n: isinstance(G.nodes[n].get('hcount', 0), int) and not isinstance(G.nodes[n].get('hcount', 0), bool))",
                     "forall(G.nodes, lambda n: 'typesGH' not in G.nodes[n])"],
        "modifies": [],
        "ensures": [
            "is_fresh(result)",
            # the original atoms stay, with every attribute but the hydrogen count
            "forall(G.nodes, lambda n: result.has_node(n))",
            "forall(G.nodes, lambda n: forall('str', lambda k: implies(k != 'hcount', same(result.nodes[n].get(k), G.nodes[n].get(k)))))",
            # a positive hydrogen count is used up entirely, any other count is left alone
            "forall(G.nodes, lambda n: implies(n in nodes and hc(G, n) > 0, result.nodes[n].get('hcount') == 0))",
            "forall(G.nodes, lambda n: implies(not (n in nodes and hc(G, n) > 0), same(result.nodes[n].get('hcount'), G.nodes[n].get('hcount'))))",
            # the original bonds stay with their attributes
            "forall(G.edges, lambda u, v: result.has_edge(u, v) and same(result[u][v], G[u][v]))",
            # every other atom is a new hydrogen with a fresh integer id
            "forall(result.nodes, lambda n: G.has_node(n) or (is_index(n) and is_new_h(result, n) and forall(G.nodes, lambda m: m < n)))",
        ],
        "ghost_ensures": [
            # each new hydrogen hangs on exactly one original atom (its parent) by a single bond, and on nothing else
            "forall(result.nodes, lambda n: G.has_node(n) or (n in parent and G.has_node(parent[n]) and result.has_edge(parent[n], n) "
            "       and single_bond(result, parent[n], n)))",
            "forall(result.edges, lambda u, v: G.has_edge(u, v) or (not G.has_node(v) and v in parent and same(parent[v], u)) "
            "       or (not G.has_node(u) and u in parent and same(parent[u], v)))",
            # the new hydrogens of an atom are `count` consecutive ids: exactly as many as its hydrogen count said
            "forall(G.nodes, lambda n: implies(n in nodes and hc(G, n) > 0, n in first and forall('int', lambda m: implies(first[n] < m and m <= first[n] + hc(G, n), "
            "       result.has_node(m) and not G.has_node(m) and m in parent and same(parent[m], n)))))",
            "forall(result.nodes, lambda m: G.has_node(m) or (parent[m] in first and first[parent[m]] < m and m <= first[parent[m]] + hc(G, parent[m])))",
        ],
        "loops": {
            1: {"modifies": ["H2.nodes", "H2.nattr", "H2.adj", "H2.eattr"],
                "ghost_init": ["parent = {}", "first = {}", "proc = set()"], "ghost_step": ["proc.add(heavy)"],
                "inv": [
                    "is_index(max_node) and forall(H2.nodes, lambda n: is_index(n) and n <= max_node)",
                    "forall(G.nodes, lambda n: H2.has_node(n))",
                    "forall(G.nodes, lambda n: 'typesGH' not in H2.nodes[n])",
                    "forall(G.nodes, lambda n: forall('str', lambda k: implies(k != 'hcount', same(H2.nodes[n].get(k), G.nodes[n].get(k)))))",
                    "forall(G.nodes, lambda n: implies(n not in proc, same(H2.nodes[n].get('hcount'), G.nodes[n].get('hcount')) and ('hcount' in H2.nodes[n]) == ('hcount' in G.nodes[n])))",
                    "forall(range(done), lambda j: nodes[j] in proc)", "forall(proc, lambda n: n in nodes)",
                    "forall(G.nodes, lambda n: implies(n in proc and hc(G, n) > 0, H2.nodes[n].get('hcount') == 0))",
                    "forall(G.nodes, lambda n: implies(n in proc and not hc(G, n) > 0, same(H2.nodes[n].get('hcount'), G.nodes[n].get('hcount'))))",
                    "forall(G.edges, lambda u, v: H2.has_edge(u, v) and same(H2[u][v], G[u][v]))",
                    "forall(H2.nodes, lambda n: G.has_node(n) or (is_new_h(H2, n) and forall(G.nodes, lambda m: m < n)))",
                    "forall(H2.nodes, lambda n: G.has_node(n) or (n in parent and G.has_node(parent[n]) and parent[n] in proc and H2.has_edge(parent[n], n) "
                    "       and single_bond(H2, parent[n], n)))",
                    "forall(parent, lambda n: H2.has_node(n) and not G.has_node(n))",
                    "forall(H2.edges, lambda u, v: G.has_edge(u, v) or (not G.has_node(v) and v in parent and same(parent[v], u)) "
                    "       or (not G.has_node(u) and u in parent and same(parent[u], v)))",
                    "forall(G.nodes, lambda n: implies(n in proc and hc(G, n) > 0, n in first and forall('int', lambda m: implies(first[n] < m and m <= first[n] + hc(G, n), "
                    "       H2.has_node(m) and not G.has_node(m) and m in parent and same(parent[m], n)))))",
                    "forall(H2.nodes, lambda m: G.has_node(m) or (parent[m] in first and first[parent[m]] < m and m <= first[parent[m]] + hc(G, parent[m])))",
                ]},
            2: {"modifies": ["H2.nodes", "H2.nattr", "H2.adj", "H2.eattr"],
                "ghost_init": ["first[heavy] = max_node"],
                "ghost_step": ["parent[max_node] = heavy"],
                "inv": [
                    "is_index(max_node) and max_node == first[heavy] + done and first[heavy] == at_iter(max_node)",
                    "forall(H2.nodes, lambda n: is_index(n) and n <= max_node)",
                    "forall('any', lambda n: H2.has_node(n) == (at_iter(H2.has_node(n)) or (is_index(n) and first[heavy] < n and n <= max_node)))",
                    "forall(at_iter(set(H2.nodes)), lambda n: same(H2.nodes[n], at_iter(H2.nodes[n])))",
                    "forall('int', lambda m: implies(first[heavy] < m and m <= max_node, is_new_h(H2, m) and m in parent and same(parent[m], heavy) "
                    "       and H2.has_edge(heavy, m) and single_bond(H2, heavy, m)))",
                    "forall(at_iter(keys(parent)), lambda n: n in parent and same(parent[n], at_iter(parent[n])))",
                    "forall(parent, lambda n: at_iter(n in parent) or (is_index(n) and first[heavy] < n and n <= max_node))",
                    "forall(at_iter(keys(first)), lambda n: implies(not same(n, heavy), n in first and first[n] == at_iter(first[n])))",
                    "forall(first, lambda n: at_iter(n in first) or same(n, heavy))",
                    "forall(('any', 'any'), lambda u, v: implies(at_iter(H2.has_edge(u, v)), H2.has_edge(u, v) and same(H2[u][v], at_iter(H2[u][v]))))",
                    "forall(H2.edges, lambda u, v: at_iter(H2.has_edge(u, v)) or (same(u, heavy) and is_index(v) and first[heavy] < v and v <= max_node) "
                    "       or (same(v, heavy) and is_index(u) and first[heavy] < u and u <= max_node))",
                ]},
        },
    },
}
