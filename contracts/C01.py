"""C01 -- the ITS encoding of a mapped reaction is lossless and invertible (sidecar contracts)."""
from pyvc.rt import *  # noqa: F401,F403

PROPERTY = "C01"
USES_NX = True
CON = "synkit/Graph/ITS/its_construction.py"
DEC = "synkit/Graph/ITS/its_decompose.py"
CLASSES = {"ITSConstruction": {"file": CON, "fields": {}}}
TRUSTED = ["A-nx-graph (pyvc/lib_nx.py)", "A-copy (deepcopy of a graph is a fresh graph with equal tables)",
           "A-builtins", "A-attrlist (list-valued attribute defaults modelled as tuples)"]
ASSUMPTIONS = ["A-real: bond orders are numbers on which Python arithmetic is exact",
               "construct is verified for node_attrs/edge_attrs/attributes_defaults = None (the configuration ITSGraph and "
               "rsmi_to_its use), all values of store, balance_its and ignore_aromaticity",
               "graphs have no self-loops (a frozenset of a self-loop has one element; the code would raise)"]
NOT_APPLICABLE_CLAUSES = ["writing the ITS back to reaction SMILES yields an atom-map-equivalent reaction with the same unmapped "
                          "sides: needs RDKit SMILES parsing/canonicalisation (A-rdkit: no contract)"]

NA = ["element", "aromatic", "hcount", "charge", "neighbors"]
DEFAULTS = {"element": "*", "aromatic": False, "hcount": 0, "charge": 0, "neighbors": ["", ""]}


def tup_of(X, n):
    """the label tuple of atom n on side X, with the documented defaults for absent atoms / attributes"""
    return tuple((X.nodes[n].get(a, DEFAULTS[a]) if X.has_node(n) else DEFAULTS[a]) for a in NA)


def ord_of(X, u, v):
    return X[u][v].get("order", 0.0) if X.has_edge(u, v) else 0.0


def std_of(o0, o1, ignore):
    return 0 if (ignore and abs(o0 - o1) < 1) else o0 - o1


def is_number(x):
    return isinstance(x, (int, float))


def orders_numeric(X):
    return forall(X.edges, lambda u, v: is_number(X[u][v].get("order", 0.0)))


def no_self_loops(X):
    return forall(X.edges, lambda u, v: not same(u, v))


def is_its(I, G, H, store, ignore):
    """I is the ITS of (G, H): union of atoms and bonds, (before, after) labels, order pairs and their difference"""
    return (
        forall('any', lambda n: I.has_node(n) == (G.has_node(n) or H.has_node(n)))
        and forall(I.nodes, lambda n: "typesGH" in I.nodes[n] and I.nodes[n]["typesGH"] == (tup_of(G, n), tup_of(H, n)))
        and forall(I.nodes, lambda n: forall(range(5), lambda i: NA[i] in I.nodes[n] and I.nodes[n][NA[i]] == (
            (tup_of(G, n)[i], tup_of(H, n)[i]) if store else tup_of(G, n)[i])))
        and forall(('any', 'any'), lambda u, v: I.has_edge(u, v) == (G.has_edge(u, v) or H.has_edge(u, v)))
        and forall(I.edges, lambda u, v: "order" in I[u][v] and I[u][v]["order"] == (ord_of(G, u, v), ord_of(H, u, v)))
        and forall(I.edges, lambda u, v: "standard_order" in I[u][v] and I[u][v]["standard_order"] == std_of(
            ord_of(G, u, v), ord_of(H, u, v), ignore)))


FUNCTIONS = {
    CON + "::ITSConstruction._compute_standard_order": {
        "params": {"its": "obj:Graph", "ignore_aromaticity": "bool"},
        "requires": ["forall(its.edges, lambda u, v: 'order' in its[u][v] and pair_of_numbers(its[u][v]['order']))"],
        "modifies": ["its.eattr"],
        "ensures": [
            "forall(its.edges, lambda u, v: its[u][v]['standard_order'] == std_of(its[u][v]['order'][0], its[u][v]['order'][1], ignore_aromaticity))",
            "forall(its.edges, lambda u, v: forall('str', lambda k: implies(k != 'standard_order', "
            "       (k in its[u][v]) == (k in old(its[u][v])) and its[u][v].get(k) == old(its[u][v].get(k)))))",
            "forall(its.edges, lambda u, v: 'standard_order' in its[u][v])",
        ],
        "loops": {1: {"modifies": ["its.eattr"], "inv": [
            "forall(its.edges, lambda a, b: implies((a, b) in done, 'standard_order' in its[a][b] and its[a][b]['standard_order'] == "
            "       std_of(its[a][b]['order'][0], its[a][b]['order'][1], ignore_aromaticity)))",
            "forall(its.edges, lambda a, b: forall('str', lambda k: implies(k != 'standard_order' or (a, b) not in done, "
            "       (k in its[a][b]) == (k in old(its[a][b])) and its[a][b].get(k) == old(its[a][b].get(k)))))",
        ]}},
    },
}

FUNCTIONS.update({
    CON + "::ITSConstruction.construct": {
        "params": {"G": "obj:Graph", "H": "obj:Graph", "ignore_aromaticity": "bool", "balance_its": "bool", "store": "bool",
                   "node_attrs": "const:None", "edge_attrs": "const:None", "attributes_defaults": "const:None"},
        "returns": "obj:Graph",
        "requires": ["no_self_loops(G)", "no_self_loops(H)", "orders_numeric(G)", "orders_numeric(H)"],
        "modifies": [],
        "ensures": ["is_fresh(result)", "is_its(result, G, H, store, ignore_aromaticity)"],
        "loops": {
            1: {"modifies": ["ITS.nodes", "ITS.nattr"],
                "inv": ["forall('any', lambda n: ITS.has_node(n) == (base.has_node(n) or (n in done)))",
                        "forall(('any', 'any'), lambda u, v: not ITS.has_edge(u, v))"]},
            2: {"modifies": ["ITS.nattr"],
                "inv": ["forall(done, lambda n: 'typesGH' in ITS.nodes[n] and ITS.nodes[n]['typesGH'] == (tup_of(G, n), tup_of(H, n)))",
                        "forall(done, lambda n: forall(range(5), lambda i: NA[i] in ITS.nodes[n] and ITS.nodes[n][NA[i]] == ("
                        "       (tup_of(G, n)[i], tup_of(H, n)[i]) if store else tup_of(G, n)[i])))"]},
            4: {"modifies": ["ITS.nodes", "ITS.nattr", "ITS.adj", "ITS.eattr"],
                "inv": ["forall(edge_keys, lambda p, q: not same(p, q) and (G.has_edge(p, q) or H.has_edge(p, q)))",
                        "forall(('any', 'any'), lambda u, v: ITS.has_edge(u, v) == ((u, v) in done))",
                        "forall(ITS.edges, lambda u, v: 'order' in ITS[u][v] and ITS[u][v]['order'] == (ord_of(G, u, v), ord_of(H, u, v)))",
                        "forall('any', lambda n: ITS.has_node(n) == at_entry(ITS.has_node(n)))",
                        "forall(ITS.nodes, lambda n: same(ITS.nodes[n], at_entry(ITS.nodes[n])))"]},
        },
    },
    CON + "::ITSConstruction.ITSGraph": {
        "params": {"G": "obj:Graph", "H": "obj:Graph", "ignore_aromaticity": "bool", "attributes_defaults": "const:None",
                   "balance_its": "bool", "store": "bool"},
        "returns": "obj:Graph",
        "requires": ["no_self_loops(G)", "no_self_loops(H)", "orders_numeric(G)", "orders_numeric(H)"],
        "modifies": [],
        "ensures": ["is_fresh(result)", "is_its(result, G, H, store, ignore_aromaticity)"],
    },
})

LABELS = ["element", "aromatic", "hcount", "charge"]


def its_shape(I):
    """what its_decompose needs of its argument (all of it is established by construct)"""
    return forall(I.nodes, lambda n: "typesGH" in I.nodes[n] and tuple_pair(I.nodes[n]["typesGH"])
                  and len(I.nodes[n]["typesGH"][0]) == 5 and len(I.nodes[n]["typesGH"][1]) == 5) \
        and forall(I.edges, lambda u, v: "order" in I[u][v] and pair_of_numbers(I[u][v]["order"]))


def tuple_pair(t):
    return isinstance(t, tuple) and len(t) == 2 and isinstance(t[0], tuple) and isinstance(t[1], tuple)


def side_of(S, I, side):
    """S is side `side` (0 = reactants, 1 = products) read back from the ITS I"""
    return (
        forall('any', lambda n: S.has_node(n) == I.has_node(n))
        and forall(S.nodes, lambda n: forall(range(4), lambda i: LABELS[i] in S.nodes[n]
                                             and S.nodes[n][LABELS[i]] == I.nodes[n]["typesGH"][side][i]))
        and forall(S.nodes, lambda n: S.nodes[n].get("atom_map") == n)
        and forall(('any', 'any'), lambda u, v: S.has_edge(u, v) == (I.has_edge(u, v) and I[u][v]["order"][side] > 0))
        and forall(S.edges, lambda u, v: S[u][v].get("order") == I[u][v]["order"][side]))


def mol_graph(X):
    """a molecular graph as MolToGraph produces it: the four labels on every atom, a positive numeric order on every bond"""
    return forall(X.nodes, lambda n: forall(range(4), lambda i: LABELS[i] in X.nodes[n])) \
        and forall(X.edges, lambda u, v: "order" in X[u][v] and is_number(X[u][v]["order"]) and X[u][v]["order"] > 0) \
        and no_self_loops(X)


FUNCTIONS.update({
    DEC + "::its_decompose": {
        "params": {"its_graph": "obj:Graph", "nodes_share": "const:'typesGH'", "edges_share": "const:'order'"},
        "returns": "tuple[obj:Graph,obj:Graph]",
        "requires": ["its_shape(its_graph)"],
        "modifies": [],
        "ensures": ["is_fresh(result[0])", "is_fresh(result[1])", "result[0] is not result[1]",
                    "side_of(result[0], its_graph, 0)", "side_of(result[1], its_graph, 1)"],
        "loops": {
            1: {"modifies": ["G.nodes", "G.nattr", "H.nodes", "H.nattr"],
                "inv": ["forall('any', lambda n: G.has_node(n) == (n in done) and H.has_node(n) == (n in done))",
                        "forall(done, lambda n: forall(range(4), lambda i: LABELS[i] in G.nodes[n] and "
                        "       G.nodes[n][LABELS[i]] == its_graph.nodes[n]['typesGH'][0][i] and LABELS[i] in H.nodes[n] and "
                        "       H.nodes[n][LABELS[i]] == its_graph.nodes[n]['typesGH'][1][i]))",
                        "forall(done, lambda n: G.nodes[n].get('atom_map') == n and H.nodes[n].get('atom_map') == n)",
                        "forall(('any', 'any'), lambda u, v: not G.has_edge(u, v) and not H.has_edge(u, v))"]},
            2: {"modifies": ["G.nodes", "G.nattr", "G.adj", "G.eattr", "H.nodes", "H.nattr", "H.adj", "H.eattr"],
                "inv": ["forall(('any', 'any'), lambda u, v: G.has_edge(u, v) == ((u, v) in done and its_graph[u][v]['order'][0] > 0))",
                        "forall(('any', 'any'), lambda u, v: H.has_edge(u, v) == ((u, v) in done and its_graph[u][v]['order'][1] > 0))",
                        "forall(G.edges, lambda u, v: G[u][v].get('order') == its_graph[u][v]['order'][0])",
                        "forall(H.edges, lambda u, v: H[u][v].get('order') == its_graph[u][v]['order'][1])",
                        "forall('any', lambda n: G.has_node(n) == its_graph.has_node(n) and H.has_node(n) == its_graph.has_node(n))",
                        "forall(its_graph.nodes, lambda n: same(G.nodes[n], at_entry(G.nodes[n])) and same(H.nodes[n], at_entry(H.nodes[n])))"]},
        },
    },
    # ---------------------------------------------------------------- lemma: decomposing the ITS returns the two sides
    "lemma::round_trip": {
        "params": {"G": "obj:Graph", "H": "obj:Graph", "I": "obj:Graph", "G2": "obj:Graph", "H2": "obj:Graph",
                   "store": "bool"},
        "requires": ["mol_graph(G)", "mol_graph(H)", "forall('any', lambda n: G.has_node(n) == H.has_node(n))",
                     "is_its(I, G, H, store, False)", "side_of(G2, I, 0)", "side_of(H2, I, 1)"],
        "ensures": [
            "forall('any', lambda n: G2.has_node(n) == G.has_node(n) and H2.has_node(n) == H.has_node(n))",
            "forall(G.nodes, lambda n: forall(range(4), lambda i: G2.nodes[n][LABELS[i]] == G.nodes[n][LABELS[i]]))",
            "forall(H.nodes, lambda n: forall(range(4), lambda i: H2.nodes[n][LABELS[i]] == H.nodes[n][LABELS[i]]))",
            "forall(('any', 'any'), lambda u, v: G2.has_edge(u, v) == G.has_edge(u, v) and H2.has_edge(u, v) == H.has_edge(u, v))",
            "forall(G.edges, lambda u, v: G2[u][v].get('order') == G[u][v]['order'])",
            "forall(H.edges, lambda u, v: H2[u][v].get('order') == H[u][v]['order'])",
        ],
    },
})


def pair_of_numbers(t):
    return isinstance(t, tuple) and len(t) == 2 and is_number(t[0]) and is_number(t[1])
