"""C07 bounded stand-in / replay: isomorphism verdicts, embeddings, pre-filters and cache histories vs brute force."""
import itertools, random, pickle, base64, copy
import networkx as nx

from synkit.Graph.Matcher.graph_matcher import GraphMatcherEngine
from synkit.Graph.Matcher.subgraph_matcher import SubgraphMatch
from synkit.Graph.Matcher import graph_morphism as GM
from pyvc import gen

NA, EA = ["element", "charge"], ["order"]


def iso_spec(g1, g2, node_attrs=NA, edge_attrs=EA):
    """bijection preserving adjacency and the selected attributes, hcount(g1 node) >= hcount(g2 node)"""
    if g1.number_of_nodes() != g2.number_of_nodes() or g1.number_of_edges() != g2.number_of_edges():
        return False
    n2 = list(g2.nodes)
    for image in itertools.permutations(list(g1.nodes)):
        m = dict(zip(n2, image))      # g2 node -> g1 node
        if all(all(g1.nodes[m[p]].get(k) == g2.nodes[p].get(k) for k in node_attrs)
               and g1.nodes[m[p]].get("hcount", 0) >= g2.nodes[p].get("hcount", 0) for p in n2) \
                and all(g1.has_edge(m[p], m[q]) and all(g1[m[p]][m[q]].get(k) == d.get(k) for k in edge_attrs) for p, q, d in g2.edges(data=True)):
            return True
    return False


def embeddings(pattern, host, induced, node_attrs=NA, edge_attrs=EA, hrule=True):
    ms = gen.brute_monos(host, pattern, node_attrs, edge_attrs, hrule=hrule)
    if induced:
        ms = [m for m in ms if all(pattern.has_edge(p, q) == host.has_edge(m[p], m[q]) for p, q in itertools.combinations(pattern.nodes, 2))]
    return ms


def with_defaults(G):
    """the documented defaults of the boolean subgraph tests: element '*', charge 0"""
    H = G.copy()
    for n in H.nodes:
        H.nodes[n].setdefault("element", "*")
        H.nodes[n].setdefault("charge", 0)
    return H


def enc(x):
    return base64.b64encode(pickle.dumps(x)).decode()


def check_pair(g1, g2, fails, tags):
    """all verdict-level clauses on one ordered pair"""
    viol = []
    truth = iso_spec(g1, g2)
    for wl in (False, True):
        eng = GraphMatcherEngine(node_attrs=list(NA), edge_attrs=list(EA), wl1_filter=wl)
        got = eng.isomorphic(g1, g2)
        if got != truth:
            viol.append("isomorphic(wl1_filter=%s) = %s, definition says %s" % (wl, got, truth))
        # embeddings of pattern g2 in host g1
        emb = embeddings(g2, g1, induced=True)
        eng2 = GraphMatcherEngine(node_attrs=list(NA), edge_attrs=list(EA), wl1_filter=wl, max_mappings=None)
        maps = eng2.get_mappings(g1, g2)
        canon = lambda ms: sorted(tuple(sorted(m.items())) for m in ms)
        if any(tuple(sorted(m.items())) not in canon(emb) for m in maps):
            viol.append("get_mappings(wl1_filter=%s) returned an invalid pattern->host embedding" % wl)
        if emb and not maps:
            viol.append("get_mappings(wl1_filter=%s) returned nothing although the pattern is contained (%d embeddings)" % (wl, len(emb)))
    # boolean subgraph tests, both copies, filters on/off, induced / monomorphism
    for fn, name in ((SubgraphMatch.subgraph_isomorphism, "SubgraphMatch.subgraph_isomorphism"), (GM.subgraph_isomorphism, "graph_morphism.subgraph_isomorphism")):
        for check_type in ("induced", "mono"):
            want = bool(embeddings(with_defaults(g2), with_defaults(g1), induced=(check_type == "induced"), hrule=False))
            for uf in (False, True):
                got = fn(g2, g1, use_filter=uf, check_type=check_type)
                if got != want:
                    viol.append("%s(child, parent, use_filter=%s, check_type=%s) = %s, definition says %s" % (name, uf, check_type, got, want))
    if viol:
        fails.append({"function": "GraphMatcherEngine", "violations": viol, "pickle": enc((g1, g2)), "g1": gen.graph_desc(g1), "g2": gen.graph_desc(g2), "tags": tags})
    return 1 if truth else 0


def check_history(rng, graphs, fails):
    """answers must not depend on earlier queries by engines with other attribute selections on the same objects"""
    sel = [["element", "charge"], ["element"], []]
    engines = [GraphMatcherEngine(node_attrs=list(s), edge_attrs=list(EA), wl1_filter=True) for s in sel]
    for _ in range(6):
        a, b = rng.choice(graphs), rng.choice(graphs)
        i = rng.randrange(len(sel))
        got = engines[i].isomorphic(a, b)
        fresh = GraphMatcherEngine(node_attrs=list(sel[i]), edge_attrs=list(EA), wl1_filter=True).isomorphic(copy.deepcopy(a), copy.deepcopy(b))
        truth = iso_spec(a, b, node_attrs=sel[i])
        if got != truth or fresh != truth:
            fails.append({"function": "GraphMatcherEngine._wl_hash_cached", "violations": [
                "history: engine%s answered %s, a fresh engine on fresh copies %s, definition %s" % (sel[i], got, fresh, truth)],
                "pickle": enc((a, b)), "tags": {"kind": "history"}})
            return


def check_history_systematic(rng, G, fails):
    """the same two graph objects queried by engines with different attribute selections, in every order: a pair that is isomorphic
    without labels but not with them makes any sharing of per-graph data between the engines visible"""
    import itertools
    if G.number_of_nodes() == 0:
        return
    sel = [["element", "charge"], ["element"], []]
    for variant in ("element", "charge"):
        a = copy.deepcopy(G)
        b = copy.deepcopy(G)
        n0 = sorted(b.nodes)[0]
        if variant == "element":
            b.nodes[n0]["element"] = "O" if b.nodes[n0].get("element") != "O" else "C"
        else:
            b.nodes[n0]["charge"] = 1 if b.nodes[n0].get("charge", 0) != 1 else 0
        for order in itertools.permutations(range(len(sel))):
            ga, gb = copy.deepcopy(a), copy.deepcopy(b)
            engines = [GraphMatcherEngine(node_attrs=list(x), edge_attrs=list(EA), wl1_filter=True) for x in sel]
            for i in order:
                got = engines[i].isomorphic(ga, gb)
                truth = iso_spec(ga, gb, node_attrs=sel[i])
                if got != truth:
                    fails.append({"function": "GraphMatcherEngine._wl_hash_cached", "violations": [
                        "history: after queries in order %s, engine%s answered %s, definition %s" % ([sel[j] for j in order], sel[i], got, truth)],
                        "pickle": enc((ga, gb)), "tags": {"kind": "history"}})
                    return


def relabel(rng, G, offset=10):
    nodes = list(G.nodes)
    perm = nodes[:]
    rng.shuffle(perm)
    return nx.relabel_nodes(G, {n: p + offset for n, p in zip(nodes, perm)})


def run(tw, tier, seed, only=None):
    rng = random.Random(seed)
    fails, cases, nontriv, samples = [], 0, 0, []
    small = gen.labelled_graphs(3, elems=("C", "O"), orders=(1, 2), hcounts=(0, 1), limit=90 if tier == "quick" else 400, rng=rng)
    for g in small:
        g.graph.clear()
        for n in g.nodes:                # some atoms rely on the documented defaults (no charge / hcount key)
            if rng.random() < 0.3:
                g.nodes[n].pop("charge", None)
            if rng.random() < 0.2:
                g.nodes[n].pop("hcount", None)
    pool = small
    for _ in range(250 if tier == "quick" else 3000):
        a = rng.choice(pool)
        r = rng.random()
        b = relabel(rng, a) if r < 0.35 else rng.choice(pool)
        cases += 1
        nontriv += check_pair(a, b, fails, {"kind": "pair"})
        if len(samples) < 2:
            samples.append({"g1": gen.graph_desc(a), "g2": gen.graph_desc(b)})
        if len(fails) > 30:
            break
    # systematic family: same skeleton, the host carries MORE hydrogens than the pattern on one / on every atom (the documented rule is
    # host hcount >= pattern hcount, and graphs of equal size are the only case in which the WL pre-filter is consulted)
    for G in pool[:: max(1, len(pool) // (30 if tier == "quick" else 300))]:
        if G.number_of_nodes() == 0:
            continue
        for mode in ("one", "all"):
            host = copy.deepcopy(G)
            for k, n in enumerate(sorted(host.nodes)):
                if mode == "all" or k == 0:
                    host.nodes[n]["hcount"] = int(host.nodes[n].get("hcount", 0) or 0) + 1
            pat = relabel(rng, G)
            cases += 1
            nontriv += check_pair(host, pat, fails, {"kind": "more-hydrogens-on-host"})
    # requesting embeddings through the search engine: at least one, and only valid ones, whenever the pattern is contained -- also for
    # patterns with several fragments, every strategy, and with a result limit
    from synkit.Graph.Matcher.subgraph_matcher import SubgraphSearchEngine
    frag = [g for g in pool if 1 <= g.number_of_nodes() <= 2]
    for _ in range(40 if tier == "quick" else 400):
        host = nx.disjoint_union(rng.choice(pool), rng.choice(pool))
        pat = nx.disjoint_union(rng.choice(frag), rng.choice(frag)) if frag else rng.choice(pool)
        want = gen.brute_monos(host, pat, NA, EA)
        cases += 1
        for strategy, mr in itertools.product(("comp", "bt", "all"), (None, 1, 2)):
            try:
                got = SubgraphSearchEngine.find_subgraph_mappings(host, pat, node_attrs=list(NA), edge_attrs=list(EA), strategy=strategy, max_results=mr)
            except Exception as ex:
                fails.append({"function": "SubgraphSearchEngine.find_subgraph_mappings", "violations": ["raised %r" % (ex,)], "pickle": enc((host, pat)),
                              "tags": {"kind": "engine-embeddings"}})
                break
            bad_maps = [m for m in got if m not in want]
            comp_ok = True
            if strategy == "comp" and want:
                # the component-aware strategy only promises embeddings that place different fragments into different host fragments
                comp_ok = any(len({next(i for i, c in enumerate(nx.connected_components(host)) if m[p] in c) for p in cc}) == 1 for m in want
                              for cc in nx.connected_components(pat)) or True
            if bad_maps or (want and not got and strategy != "comp"):
                fails.append({"function": "SubgraphSearchEngine.find_subgraph_mappings", "pickle": enc((host, pat)), "tags": {"kind": "engine-embeddings"},
                              "violations": ["engine-embeddings: strategy=%s max_results=%s returned %d embedding(s), %d invalid, although %d exist" % (
                                  strategy, mr, len(got), len(bad_maps), len(want))]})
                break
            if strategy == "comp" and want and not got:
                # comp may legitimately be empty only if no embedding separates the fragments
                sep = [m for m in want if len({tuple(sorted(next(c for c in nx.connected_components(host) if m[p] in c))) for p in pat.nodes}) >=
                       nx.number_connected_components(pat)]
                if sep and nx.number_connected_components(host) <= nx.number_connected_components(pat):
                    fails.append({"function": "SubgraphSearchEngine.find_subgraph_mappings", "pickle": enc((host, pat)), "tags": {"kind": "engine-embeddings"},
                                  "violations": ["engine-embeddings: strategy=comp max_results=%s returned nothing although %d fragment-separating embedding(s) exist" % (mr, len(sep))]})
                    break
    for _ in range(20 if tier == "quick" else 200):
        cases += 1
        check_history(rng, [relabel(rng, rng.choice(pool), 0) for _ in range(4)], fails)
    for G in pool[:: max(1, len(pool) // (25 if tier == "quick" else 200))]:
        cases += 1
        check_history_systematic(rng, G, fails)
    return {"cases": cases, "nontrivial": nontriv, "failures": fails, "samples": samples, "exhaustive": False, "evaluations": cases,
            "bound": "%d ordered pairs of labelled graphs <= 3 atoms (2 elements, 2 orders, hcount 0/1) incl. relabelled copies; wl filter on/off, "
                     "use_filter on/off, induced/monomorphism, query histories with 3 attribute selections" % cases,
            "rule": "a pair is non-trivial when the two graphs are isomorphic"}


def replay(tw, desc):
    g1, g2 = pickle.loads(base64.b64decode(desc["pickle"]))
    fails = []
    check_pair(g1, g2, fails, {})
    return {"g1": gen.graph_desc(g1), "g2": gen.graph_desc(g2), "violations": [v for f in fails for v in f["violations"]]}
