"""C08 -- graph canonicalisation is faithful and sound; the exact back-end is invariant (sidecar contracts)."""
from pyvc.rt import *  # noqa: F401,F403

PROPERTY = "C08"
USES_NX = True
CG = "synkit/Graph/canon_graph.py"
SG = "synkit/Graph/syn_graph.py"
CLASSES = {"CanonicalGraph": {"file": CG, "fields": {"_canonical_hash": "str"}},
           "SynGraph": {"file": SG, "fields": {"_raw": "obj:Graph"}, "funcs": {}}}
TRUSTED = ["A-builtins (hash() of a string is a function of the string; sorted of a pair)", "SHA-256 truncated to 128 bits is treated as injective on serialisations (A-digest)"]
ASSUMPTIONS = ["the canonical-graph builders (_canon_generic/_canon_wl/canon_morgan/NautyCanonicalizer) and _serialise use sorted(..., key=callable attribute), "
               "type(g)(), **kwargs splats, f-strings over tuples and recursion over nested lists: outside the engine; faithfulness, determinism, soundness "
               "and exact-back-end invariance are decided by the bounded twin only"]

FUNCTIONS = {
    # the attributes a signature covers (and nothing else, in particular not the node id)
    CG + "::_default_node_key": {
        "params": {"node_id": "any", "data": "dict[str,any]"},
        "returns": "tuple[any,any,any,any]", "modifies": [],
        "ensures": ["same(result[0], data.get('element', ''))", "same(result[1], data.get('charge', 0))",
                    "same(result[2], data.get('aromatic', False))", "same(result[3], data.get('hcount', 0))"],
    },
    # undirected edges are keyed orientation-free
    CG + "::_default_edge_key": {
        "params": {"u": "int", "v": "int", "data": "dict[str,any]"},
        "returns": "tuple[list[int],any,any]", "modifies": [],
        "ensures": ["len(result[0]) == 2 and result[0][0] == min(u, v) and result[0][1] == max(u, v)",
                    "same(result[1], data.get('order', 0))", "same(result[2], data.get('standard_order', 0))"],
    },
    # value objects compare and hash by signature only
    CG + "::CanonicalGraph.__eq__": {
        "params": {"other": "obj:CanonicalGraph"}, "returns": "bool", "modifies": [],
        "ensures": ["result == (self._canonical_hash == other._canonical_hash)"],
    },
    CG + "::CanonicalGraph.__hash__": {
        "params": {}, "returns": "int", "modifies": [],
        "ensures": ["result == hash(self._canonical_hash)"],
    },
    "lemma::eq_implies_equal_hash": {
        "params": {"a": "obj:CanonicalGraph", "b": "obj:CanonicalGraph"},
        "requires": ["a._canonical_hash == b._canonical_hash"],
        "ensures": ["hash(a._canonical_hash) == hash(b._canonical_hash)"],
    },
}
