"""C18 bounded stand-in / replay: canonical form and automorphism data against brute force on small networks."""
import itertools, random
import networkx as nx
from networkx.algorithms.isomorphism import DiGraphMatcher

from synkit.CRN.Topo.canon import CRNCanonicalizer
from synkit.CRN.Topo import automorphism as AUM
from synkit.CRN.Topo.automorphism import CRNAutomorphism
from pyvc import gen

K_MATCH = "synkit/CRN/Topo/automorphism.py::_node_match.match"
K_MAPS = "synkit/CRN/Topo/canon.py::CRNCanonicalizer._maps_from_perms"
NK = ("kind",)
EK = ("role", "stoich")


def dump(G, nk=NK, ek=EK):
    return (tuple(sorted((n, tuple(repr(d.get(k)) for k in nk)) for n, d in G.nodes(data=True))),
            tuple(sorted((u, v, tuple(repr(d.get(k)) for k in ek)) for u, v, d in G.edges(data=True))))


def preserves(G, m, nk=NK, ek=EK):
    for n, d in G.nodes(data=True):
        if any(d.get(k) != G.nodes[m[n]].get(k) for k in nk):
            return False
    for u, v, d in G.edges(data=True):
        if not G.has_edge(m[u], m[v]):
            return False
        if any(d.get(k) != G[m[u]][m[v]].get(k) for k in ek):
            return False
    return True


def brute_auts(G, nk=NK, ek=EK):
    nodes = list(G.nodes())
    if len(nodes) <= 7:
        out = []
        for p in itertools.permutations(nodes):
            m = dict(zip(nodes, p))
            if preserves(G, m, nk, ek):        # a bijection preserving arcs of a finite graph is an automorphism
                out.append(m)
        return out
    gm = DiGraphMatcher(G, G, node_match=lambda a, b: all(a.get(k) == b.get(k) for k in nk),
                        edge_match=lambda a, b: all(a.get(k) == b.get(k) for k in ek))
    return [dict(m) for m in gm.isomorphisms_iter()]


def orbits_of(nodes, auts):
    cls = []
    for n in nodes:
        o = frozenset(m[n] for m in auts)
        if o not in cls:
            cls.append(o)
    return sorted(sorted(map(str, o)) for o in cls)


def renamings(rxns, rng, limit):
    sp = sorted({s for r, p in rxns for s in list(r) + list(p)})
    perms = list(itertools.permutations(sp)) if len(sp) <= 3 else [tuple(rng.sample(sp, len(sp))) for _ in range(limit)]
    out = []
    for p in perms[:limit] if len(sp) > 3 else perms:
        m = dict(zip(sp, p))
        r2 = [({m[s]: c for s, c in r.items()}, {m[s]: c for s, c in pr.items()}) for r, pr in rxns]
        out.append(r2)
        out.append(r2[::-1])
    return out


def check_network(tw, rxns, fails, rng, tags, deep=True, n_ren=4):
    nontriv = 0
    for ir, st in ((True, True), (True, False), (False, True)):
        H = gen.build_crn(rxns)
        can = CRNCanonicalizer(H, include_rule=ir, include_stoich=st)
        view = can.G
        ek = EK
        s = can.summary()
        Gc = s["canon_graph"]
        cfg = {"include_rule": ir, "include_stoich": st}

        def bad(fn, msg, clause):
            fails.append({"function": fn, "violations": [msg], "rxns": rxns, "config": cfg, "tags": dict(tags, clause=clause)})
        # (1) the canonical graph is the view relabelled by an injective map, attributes kept
        perm = s["canonical_perm"]
        mp = {v: i + 1 for i, v in enumerate(perm)}
        ok = set(mp) == set(view.nodes()) and len(set(mp.values())) == len(mp)
        if ok:
            ok = (sorted((mp[n], sorted(d.items(), key=repr).__repr__()) for n, d in view.nodes(data=True))
                  == sorted((n, sorted(d.items(), key=repr).__repr__()) for n, d in Gc.nodes(data=True))
                  and sorted((mp[u], mp[v], sorted(d.items(), key=repr).__repr__()) for u, v, d in view.edges(data=True))
                  == sorted((u, v, sorted(d.items(), key=repr).__repr__()) for u, v, d in Gc.edges(data=True)))
        if not ok:
            bad("CRNCanonicalizer._canon", "canonical graph is not the view relabelled by a bijection with attributes kept", "canon-iso")
        # (2) automorphism data
        auts = brute_auts(view, NK, ek)
        want_orb = orbits_of(list(view.nodes()), auts)
        if s["automorphism_count"] != len(auts):
            bad("CRNCanonicalizer.summary", "automorphism_count %d, exact %d" % (s["automorphism_count"], len(auts)), "aut-count")
        if sorted(sorted(map(str, o)) for o in s["orbits"]) != want_orb:
            bad("CRNCanonicalizer.summary", "orbits %s, exact %s" % (s["orbits"], want_orb), "orbits")
        for m in s["mappings"]:
            if set(m) != set(view.nodes()) or not preserves(view, m, NK, ek) or len(set(m.values())) != len(m):
                bad("CRNCanonicalizer.summary", "reported mapping %s is not an automorphism" % (m,), "aut-maps")
                break
        au = CRNAutomorphism(gen.build_crn(rxns), include_rule=ir, include_stoich=st)
        sa = au.summary(max_count=100000, timeout_sec=None)
        if sa["automorphism_count"] != len(auts) or sa["stopped_early"]:
            bad("CRNAutomorphism.summary", "automorphism_count %d, exact %d" % (sa["automorphism_count"], len(auts)), "aut-count")
        if sorted(sorted(map(str, o)) for o in sa["orbits"]) != want_orb:
            bad("CRNAutomorphism.summary", "orbits %s, exact %s" % (sa["orbits"], want_orb), "orbits")
        try:
            ob = au.orbits()
            if sorted(sorted(map(str, o)) for o in ob) != want_orb:
                bad("CRNAutomorphism.orbits", "orbits %s, exact %s" % (ob, want_orb), "orbits")
        except Exception as ex:
            bad("CRNAutomorphism.orbits", "raised %r" % (ex,), "orbits")
        if au.has_nontrivial_automorphism(timeout_sec=None) != (len(auts) > 1) or can.has_nontrivial_automorphism() != (len(auts) > 1):
            bad("has_nontrivial_automorphism", "answer differs from exact (%d automorphisms)" % len(auts), "aut-count")
        if len(auts) > 1:
            nontriv = 1
        # contracts of the pieces under proof, on real data
        out, v = tw.check_call(K_MAPS, CRNCanonicalizer._maps_from_perms, dict(ref=list(dict.fromkeys(perm)), perms=[list(dict.fromkeys(p)) for p in s["sample_permutations"]]))
        if v:
            fails.append({"function": "_maps_from_perms", "violations": v, "rxns": rxns, "tags": tags})
        # (3) invariance under renaming / reaction order / id regeneration
        if deep:
            base = dump(Gc, NK, ek)
            for r2 in renamings(rxns, rng, n_ren):
                c2 = CRNCanonicalizer(gen.build_crn(r2), include_rule=ir, include_stoich=st)
                if dump(c2.graph(), NK, ek) != base:
                    bad("CRNCanonicalizer.graph", "renamed / reordered network %s gets a different canonical graph" % (r2,), "invariance")
                    break
    # one hypergraph object queried through several helpers with different settings, in both orders: each answer must equal
    # the answer of a helper on a fresh copy (views are per configuration)
    for order in (((True, False), (True, True), (False, True)), ((True, True), (True, False))):
        Hs = gen.build_crn(rxns)
        for ir, st in order:
            for cls in (CRNCanonicalizer, CRNAutomorphism):
                try:
                    a = cls(Hs, include_rule=ir, include_stoich=st).summary()
                    b = cls(gen.build_crn(rxns), include_rule=ir, include_stoich=st).summary()
                except Exception as ex:
                    fails.append({"function": cls.__name__, "violations": ["shared-object: raised %r" % (ex,)], "rxns": rxns, "tags": dict(tags, clause="shared-object")})
                    continue
                ka = (a["automorphism_count"], sorted(sorted(map(str, o)) for o in a["orbits"]), dump(a["canon_graph"]) if "canon_graph" in a else None)
                kb = (b["automorphism_count"], sorted(sorted(map(str, o)) for o in b["orbits"]), dump(b["canon_graph"]) if "canon_graph" in b else None)
                if ka != kb:
                    fails.append({"function": cls.__name__ + ".summary", "rxns": rxns, "tags": dict(tags, clause="shared-object"),
                                  "violations": ["shared-object: include_rule=%s include_stoich=%s on a hypergraph already viewed with other settings gives %s, fresh copy %s"
                                                 % (ir, st, ka[:2], kb[:2])]})
    return nontriv


def canon_key(rxns, ir, st):
    return dump(CRNCanonicalizer(gen.build_crn(rxns), include_rule=ir, include_stoich=st).graph())


def run(tw, tier, seed, only=None):
    rng = random.Random(seed)
    fails, cases, nontriv, samples = [], 0, 0, []
    single = list(gen.small_networks(3, 1, (1, 2)))
    nets = list(gen.small_networks(3, 1, (1,))) + single[::5]
    nets += [single[rng.randrange(len(single))] + single[rng.randrange(len(single))] for _ in range(40 if tier == "quick" else 600)]
    fam = [[({"A": 1}, {"B": 1}), ({"B": 1}, {"C": 1}), ({"C": 1}, {"A": 1})],                      # ring of identical reactions
           [({"A": 1}, {"B": 1}), ({"B": 1}, {"A": 1})],
           [({"A": 1, "B": 2}, {"C": 1})], [({"A": 2, "B": 1}, {"C": 1})], [({"A": 1, "B": 1}, {"C": 1})],
           [({"A": 1}, {"B": 1}), ({"A": 1}, {"B": 1})],                                            # repeated reaction
           [({"A": 1, "E": 1}, {"B": 1, "E": 1}), ({"C": 1, "E": 1}, {"D": 1, "E": 1})],              # catalyst, two symmetric branches
           [({"S%d" % i: 1}, {"S%d" % ((i + 1) % 4): 1}) for i in range(4)],
           # nodes with several outgoing arcs of different (role, stoich), listed in different orders for exchangeable nodes
           [({"S": 1}, {"P": 1}), ({"S": 2}, {"Q": 1}), ({"T": 2}, {"U": 1}), ({"T": 1}, {"V": 1})],
           [({"A": 1, "D": 2}, {"E": 2}), ({"A": 2, "D": 1}, {"E": 1})],
           [({"A": 2}, {"B": 1}), ({"C": 1}, {"B": 1})], [({"A": 2, "B": 1}, {"C": 1})],
           [({"X": 1}, {"Y": 2}), ({"X": 3}, {"Z": 1}), ({"W": 3}, {"Z": 1}), ({"W": 1}, {"Y": 2})]]
    # several identical, disconnected sub-networks: refinement leaves several non-singleton cells of equal size, and which one the
    # search individualises first must not depend on the node names
    def copies(motif, k):
        return [({"%s%d" % (x, j): c for x, c in r.items()}, {"%s%d" % (x, j): c for x, c in p.items()}) for j in range(k) for r, p in motif]
    for motif in ([({"A": 1}, {"B": 1})], [({"A": 1}, {"B": 1}), ({"B": 1}, {"C": 1})], [({"A": 1, "B": 1}, {"C": 1})], [({"A": 2}, {"B": 1})],
                  [({"A": 1}, {"B": 1}), ({"B": 1}, {"A": 1})]):
        for k in (2, 3):
            if len(motif) * k + len({x for r, p in motif for x in list(r) + list(p)}) * k <= 12:
                fam.append(copies(motif, k))
    nets = fam + nets
    for _ in range(25 if tier == "quick" else 250):
        nets.append(gen.random_network(rng, 5 if tier == "quick" else 6, 4 if tier == "quick" else 5, 3))
    for i, rxns in enumerate(nets):
        tags = {"family": "symmetric" if i < len(fam) else "enumerated/random"}
        try:
            nontriv += check_network(tw, rxns, fails, rng, tags, n_ren=4 if i >= len(fam) else 12)
        except Exception as ex:
            fails.append({"function": "C18 twin", "violations": ["raised %r" % (ex,)], "rxns": rxns, "tags": tags})
        cases += 1
        if len(samples) < 2:
            samples.append(rxns)
        if len(fails) > 20:
            break
    # (4) completeness: equal canonical graphs only for isomorphic views
    pool = fam + nets[len(fam):len(fam) + (60 if tier == "quick" else 300)]
    for ir, st in ((True, True), (False, True)):
        seen = {}
        for rxns in pool:
            try:
                k = canon_key(rxns, ir, st)
            except Exception:
                continue
            V = CRNCanonicalizer(gen.build_crn(rxns), include_rule=ir, include_stoich=st).G
            if k in seen:
                gm = DiGraphMatcher(seen[k][1], V, node_match=lambda a, b: all(a.get(x) == b.get(x) for x in NK),
                                    edge_match=lambda a, b: all(a.get(x) == b.get(x) for x in EK))
                cases += 1
                if not gm.is_isomorphic():
                    fails.append({"function": "CRNCanonicalizer.graph", "violations": ["non-isomorphic views %s / %s share a canonical graph" % (seen[k][0], rxns)],
                                  "tags": {"clause": "completeness"}})
            else:
                seen[k] = (rxns, V)
    # the attribute comparison under proof, on random attribute dictionaries
    for _ in range(60):
        keys = tuple(rng.sample(["role", "stoich", "kind", "x"], rng.randint(0, 3)))
        a1 = {k: rng.choice([1, 2, "reactant", None]) for k in rng.sample(["role", "stoich", "kind", "x"], rng.randint(0, 4))}
        a2 = dict(a1) if rng.random() < 0.4 else {k: rng.choice([1, 2, "reactant", None]) for k in rng.sample(["role", "stoich", "kind", "x"], rng.randint(0, 4))}
        fn = AUM._node_match(keys)
        got = fn(a1, a2)
        want = all(a1.get(k) == a2.get(k) for k in keys)
        cases += 1
        if got != want:
            fails.append({"function": "_node_match.match", "violations": ["ensures[0]"], "keys": keys, "a1": a1, "a2": a2, "tags": {}})
    return {"cases": cases, "nontrivial": nontriv, "failures": fails, "samples": samples, "exhaustive": False, "evaluations": tw.evaluations,
            "bound": "%d checks: all single-reaction networks over 3 species (coefficients 1; every 5th with coefficients 1..2), random pairs of them, symmetric "
                     "families, random networks up to 6 species / 5 reactions; bipartite view with and without stoichiometry and species view; all 6 species "
                     "renamings x 2 reaction orders (4 random renamings beyond 3 species); automorphisms by brute force over all node permutations (<= 7 nodes)" % cases,
            "rule": "a network is non-trivial when its view has a non-identity automorphism"}


def replay(tw, desc):
    fails = []
    check_network(tw, desc["rxns"], fails, random.Random(0), {})
    return {"violations": [v for f in fails for v in f["violations"]]}
