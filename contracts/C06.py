"""C06 -- subgraph search returns exactly the label-preserving monomorphisms (sidecar contracts)."""
from pyvc.rt import *  # noqa: F401,F403

PROPERTY = "C06"
USES_NX = True
SM = "synkit/Graph/Matcher/subgraph_matcher.py"
STR = "synkit/Synthesis/Reactor/strategy.py"
CLASSES = {"SubgraphSearchEngine": {"file": SM, "fields": {}}, "Strategy": {"file": STR, "fields": {}}}
TRUSTED = ["A-vf2 (GraphMatcher.subgraph_monomorphisms_iter yields monomorphisms w.r.t. the match functions handed to it, each once)",
           "A-nx-graph", "A-builtins"]
ASSUMPTIONS = ["hcount attributes are numbers where present",
               "completeness of the exhaustive strategy is relative to VF2's completeness (checked by the bounded twin against brute force)",
               "the component-aware strategy (connected components, recursive back-tracking) and the degree pre-filter are bounded only"]
NOT_APPLICABLE_CLAUSES = []


def node_ok(nh, np, node_attrs):
    """selected node attributes equal, host hydrogen count at least the pattern's"""
    return all(nh.get(k) == np.get(k) for k in node_attrs) and nh.get("hcount", 0) >= np.get("hcount", 0)


def edge_ok(eh, ep, edge_attrs):
    return all(eh.get(k) == ep.get(k) for k in edge_attrs)


def is_mono(host, pattern, m, node_attrs, edge_attrs):
    """m is an injective pattern-to-host map preserving the selected labels and sending every pattern bond onto a host bond"""
    return keys(m) == set(pattern.nodes) \
        and forall(m, lambda p: host.has_node(m[p]) and node_ok(host.nodes[m[p]], pattern.nodes[p], node_attrs)) \
        and forall((m, m), lambda p, q: implies(not same(p, q), not same(m[p], m[q]))) \
        and forall(pattern.edges, lambda p, q: host.has_edge(m[p], m[q]) and edge_ok(host[m[p]][m[q]], pattern[p][q], edge_attrs))


def is_inverse(m, iso):
    """m (pattern -> host) is the inverse of iso (host -> pattern)"""
    return forall(m, lambda p: m[p] in iso and same(iso[m[p]], p)) and forall(iso, lambda h: iso[h] in m)


def hcounts_numeric(G):
    return forall(G.nodes, lambda n: isinstance(G.nodes[n].get("hcount", 0), (int, float)))


FUNCTIONS = {
    SM + "::SubgraphSearchEngine._find_all_subgraph_mappings": {
        "params": {"host": "obj:Graph", "pattern": "obj:Graph", "node_attrs": "list[str]", "edge_attrs": "list[str]",
                   "max_results": ["const:None", "int"], "threshold": "int"},
        "vars": {"results": "list[dict[any,any]]"},
        "returns": "list[dict[any,any]]",
        "requires": ["hcounts_numeric(host)", "hcounts_numeric(pattern)", "threshold >= 0",
                     "max_results is None or max_results >= 0"],
        "modifies": [],
        "ensures": [
            # every returned map is a label-preserving monomorphism, none is returned twice
            "forall(range(len(result)), lambda i: is_mono(host, pattern, result[i], node_attrs, edge_attrs))",
            "forall((range(len(result)), range(len(result))), lambda i, j: implies(i != j, result[i] != result[j]))",
            # limits only truncate the list or, past the threshold, empty it
            "implies(truthy(max_results), len(result) <= max_results)",
            "len(result) <= threshold or (truthy(max_results) and len(result) == max_results)",
        ],
        "ghost_ensures": [
            # the list is the inverted VF2 enumeration, in order, cut only by the limits
            "forall(range(len(result)), lambda i: is_inverse(result[i], monos[i]))",
            "implies(not truthy(max_results) and len(monos) <= threshold, len(result) == len(monos))",
            "implies(not truthy(max_results) and len(monos) > threshold, len(result) == 0)",
        ],
        "loops": {1: {"seq_as": "monos", "inv": [
            "forall(range(len(results)), lambda i: is_mono(host, pattern, results[i], node_attrs, edge_attrs))",
            "len(results) == done",
            "forall(range(len(results)), lambda i: is_inverse(results[i], monos[i]))",
            "len(results) <= threshold",
            "implies(truthy(max_results), len(results) < max_results)",
        ]}},
    },
    SM + "::SubgraphSearchEngine._find_all_subgraph_mappings.node_match": {
        "params": {"nh": "dict[str,any]", "np": "dict[str,any]"},
        "closure": {"node_attrs": "list[str]"}, "inline_calls": True,
        "returns": "bool",
        "requires": ["isinstance(nh.get('hcount', 0), (int, float))", "isinstance(np.get('hcount', 0), (int, float))"],
        "ensures": ["result == node_ok(nh, np, node_attrs)"],
    },
    SM + "::SubgraphSearchEngine._find_all_subgraph_mappings.edge_match": {
        "params": {"eh": "dict[str,any]", "ep": "dict[str,any]"},
        "closure": {"edge_attrs": "list[str]"}, "inline_calls": True,
        "returns": "bool",
        "ensures": ["result == edge_ok(eh, ep, edge_attrs)"],
    },
    SM + "::SubgraphSearchEngine._find_component_aware_subgraph_mappings.node_match": {
        "params": {"nh": "dict[str,any]", "np": "dict[str,any]"},
        "closure": {"node_attrs": "list[str]"}, "inline_calls": True,
        "returns": "bool",
        "requires": ["isinstance(nh.get('hcount', 0), (int, float))", "isinstance(np.get('hcount', 0), (int, float))"],
        "ensures": ["result == node_ok(nh, np, node_attrs)"],
    },
    SM + "::SubgraphSearchEngine._find_component_aware_subgraph_mappings.edge_match": {
        "params": {"eh": "dict[str,any]", "ep": "dict[str,any]"},
        "closure": {"edge_attrs": "list[str]"}, "inline_calls": True,
        "returns": "bool",
        "ensures": ["result == edge_ok(eh, ep, edge_attrs)"],
    },
    SM + "::SubgraphSearchEngine._find_component_aware_subgraph_mappings": {
        # assumed here (connected components + recursive back-tracking are outside the engine); its soundness and
        # completeness are checked by the bounded twin against brute force
        "assumed": True,
        "params": {"host": "obj:Graph", "pattern": "obj:Graph", "node_attrs": "list[str]", "edge_attrs": "list[str]",
                   "max_results": ["const:None", "int"], "strict_cc_count": "bool", "threshold": "int"},
        "returns": "list[dict[any,any]]",
        "modifies": [],
        "ensures": ["forall(range(len(result)), lambda i: is_mono(host, pattern, result[i], node_attrs, edge_attrs))",
                    "implies(truthy(max_results) and max_results >= 0, len(result) <= max_results or len(result) <= threshold + 1)"],
    },
    STR + "::Strategy.from_string": {
        "assumed": True,          # Enum lookup: 'all' / 'comp' / 'bt' / 'partial' map to the members with those values
        "params": {"value": "str"},
        "returns": "str",
        "modifies": [],
        "ensures": ["result == value"],
    },
    SM + "::SubgraphSearchEngine._find_bt_subgraph_mappings": {
        "params": {"host": "obj:Graph", "pattern": "obj:Graph", "node_attrs": "list[str]", "edge_attrs": "list[str]",
                   "max_results": ["const:None", "int"], "strict_cc_count": "bool", "threshold": "int"},
        "returns": "list[dict[any,any]]",
        "requires": ["hcounts_numeric(host)", "hcounts_numeric(pattern)", "threshold >= 0", "max_results is None or max_results >= 0"],
        "modifies": [],
        "ensures": ["forall(range(len(result)), lambda i: is_mono(host, pattern, result[i], node_attrs, edge_attrs))"],
        # the fallback returns the component-aware result whenever that is non-empty
        "ghost_ensures": ["implies(len(primary) > 0, same(result, primary))"],
    },
    SM + "::SubgraphSearchEngine.find_subgraph_mappings": {
        "params": {"host": "obj:Graph", "pattern": "obj:Graph", "node_attrs": "list[str]", "edge_attrs": "list[str]",
                   "strategy": ["const:'all'", "const:'comp'", "const:'bt'"], "max_results": ["const:None", "int"],
                   "strict_cc_count": "bool", "threshold": ["const:None", "int"], "pre_filter": "const:False"},
        "returns": "list[dict[any,any]]",
        "requires": ["hcounts_numeric(host)", "hcounts_numeric(pattern)", "threshold is None or threshold >= 0",
                     "max_results is None or max_results >= 0"],
        "modifies": [],        # the inputs are not modified (the search runs on copies)
        "ensures": [
            "forall(range(len(result)), lambda i: old(is_mono(host, pattern, result[i], node_attrs, edge_attrs)))",
            "len(result) <= (threshold if threshold is not None else 5000)",
        ],
        # the final guard returns the strategy's answer unchanged unless it exceeds the threshold (then the empty list);
        # with the pre-filter off nothing else can empty the result.  (Which strategy was run is NOT visible to this contract:
        # the strategies' own answers are compared with brute force by the bounded twin.)
        "ghost_ensures": ["implies(len(results) <= thresh, same(result, results))",
                          "implies(len(results) > thresh, len(result) == 0)",
                          "thresh == (threshold if threshold is not None else 5000)"],
        # call protocol: the caller's limits reach the strategy that is run unchanged (max_results only truncates, the threshold is the effective cap)
        "calls": {
            "SubgraphSearchEngine._find_all_subgraph_mappings": [
                "(arg_max_results is None) == (old(max_results) is None) and (arg_max_results is None or arg_max_results == old(max_results))", "arg_threshold == (old(threshold) if old(threshold) is not None else 5000)",
                "same(arg_node_attrs, old(node_attrs)) and same(arg_edge_attrs, old(edge_attrs))"],
            "SubgraphSearchEngine._find_component_aware_subgraph_mappings": [
                "(arg_max_results is None) == (old(max_results) is None) and (arg_max_results is None or arg_max_results == old(max_results))", "arg_threshold == (old(threshold) if old(threshold) is not None else 5000)",
                "arg_strict_cc_count == old(strict_cc_count)", "same(arg_node_attrs, old(node_attrs)) and same(arg_edge_attrs, old(edge_attrs))"],
            "SubgraphSearchEngine._find_bt_subgraph_mappings": [
                "(arg_max_results is None) == (old(max_results) is None) and (arg_max_results is None or arg_max_results == old(max_results))", "arg_threshold == (old(threshold) if old(threshold) is not None else 5000)",
                "arg_strict_cc_count == old(strict_cc_count)", "same(arg_node_attrs, old(node_attrs)) and same(arg_edge_attrs, old(edge_attrs))"],
        },
    },
}
