"""C03 bounded stand-in / replay: every reaction proposed by rule application is a genuine instance of the rule."""
import random, logging, itertools
import networkx as nx

from synkit.Synthesis.Reactor.syn_reactor import SynReactor
from synkit.IO.chem_converter import rsmi_to_its, smiles_to_graph
from synkit.Graph.ITS.its_decompose import get_rc
from pyvc import chem

logging.disable(logging.CRITICAL)
K_GLUE = "synkit/Synthesis/Reactor/syn_reactor.py::SynReactor._node_glue"

TEMPLATES = [
    "[CH3:1][CH:2]=[O:3].[H:6][N:4]([H:7])[CH3:5]>>[CH3:1][CH:2]=[N:4][CH3:5].[H:6][O:3][H:7]",
    "[C:2](=[O:3])[O:4][H:8].[C:5][O:6][H:7]>>[C:2](=[O:3])[O:6][C:5].[H:8][O:4][H:7]",
    "[CH2:1]=[CH2:2].[H:3][H:4]>>[CH2:1]([H:3])[CH2:2][H:4]",
    "[CH3:1][CH2:2][Br:3].[OH-:4]>>[CH3:1][CH2:2][OH:4].[Br-:3]",
    "[CH3:5][NH2:7].[CH3:9][Cl:12]>>[CH3:5][NH2+:7][CH3:9].[Cl-:12]",
    "[CH2:1]=[CH:2][CH:3]=[CH2:4].[CH2:5]=[CH2:6]>>[CH2:1]1[CH:2]=[CH:3][CH2:4][CH2:5][CH2:6]1",
    "[C:2]=[O:3].[H:7][C:4][C:5]=[O:6]>>[C:2]([O:3][H:7])[C:4][C:5]=[O:6]",
    "[NH3:1].[H+:2]>>[NH3+:1][H:2]",
    "[C:1](=[O:2])[N:3].[H:5][O:4][H:6]>>[C:1](=[O:2])[O:4][H:5].[N:3][H:6]",
    "[C:1]=[O:2].[N:3][H:4]>>[C:1]([O:2][H:4])[N:3]",
    "[C:1]=[C:2].[H:3][H:4]>>[C:1]([H:3])[C:2][H:4]",
    # charged centres: the same element occurs in two charge states in the substrates below
    "[C:1](=[O:2])[O-:3].[H+:4]>>[C:1](=[O:2])[O:3][H:4]",
    "[N+:1][H:2].[H-:3]>>[N:1].[H:2][H:3]",
    "[O-:1].[H+:2]>>[O:1][H:2]",
]
SUBSTRATES = ["CC=O.NC", "CCC=O.NCC", "CC(=O)O.CO", "CCC(=O)O.OCC", "C=C.[H][H]", "CC=CC.[H][H]", "CCBr.[OH-]", "CN.CCl", "CCN.CCCl",
              "C=CC=C.C=C", "CC=O.CC=O", "N.[H+]", "CN.[H+]", "CC(N)=O.O", "NC(N)=O.O", "CC(=O)NC", "O=CC=O.NC", "OC(=O)CC(=O)O.CO", "CC(C)=O.NC",
              "NC(=O)NC", "CC(=O)N", "C=CC(C)=C.C=CC",
              # product-like molecules (for backward application)
              "CC=O.CC=O.NC", "CC(=O)[O-].[H+]", "NCC(=O)[O-].[H+]", "[NH3+]CC(=O)[O-].[H+]", "C[NH3+].[H-]", "[O-]C(=O)CC(=O)O.[H+]",
              "CC=NC.O", "COC(C)=O.O", "CC", "CCC", "CCO.[Br-]", "C[NH2+]C.[Cl-]", "C1=CCCCC1", "CC(O)CC=O", "[NH4+]", "C[NH3+]", "CC(=O)O.N", "CC(O)NC", "NC(O)N"]


def side_graph(smiles):
    """heavy-atom graph by atom-map number: element, charge, total hydrogens (explicit H atoms folded into their heavy neighbour);
    H-only species (H2, H+) are dropped here and accounted for by the formula comparison"""
    from rdkit import Chem
    ps = Chem.SmilesParserParams()
    ps.removeHs = False
    m = Chem.MolFromSmiles(smiles, ps)
    if m is None:
        return None
    try:
        Chem.Kekulize(m, clearAromaticFlags=True)
    except Exception:
        return None
    g = nx.Graph()
    for a in m.GetAtoms():
        if a.GetSymbol() == "H":
            continue
        if a.GetAtomMapNum() == 0:
            return None
        g.add_node(a.GetAtomMapNum(), element=a.GetSymbol(), charge=a.GetFormalCharge(), h=a.GetTotalNumHs(includeNeighbors=True))
    for b in m.GetBonds():
        u, v = b.GetBeginAtom(), b.GetEndAtom()
        if u.GetSymbol() == "H" or v.GetSymbol() == "H":
            continue
        g.add_edge(u.GetAtomMapNum(), v.GetAtomMapNum(), order=int(b.GetBondTypeAsDouble()))
    return g


def change_graph(rsmi):
    """graph of the changes of a fully mapped reaction: atoms whose bonds, hydrogen count or charge change; bonds labelled with the change of order"""
    r, p = rsmi.split(">>")
    R, P = side_graph(r), side_graph(p)
    if R is None or P is None or set(R.nodes()) != set(P.nodes()):
        return None
    if any(R.nodes[n]["element"] != P.nodes[n]["element"] for n in R.nodes()):
        return None
    C = nx.Graph()
    for u, v in set(R.edges()) | set(P.edges()):
        o1 = R[u][v]["order"] if R.has_edge(u, v) else 0
        o2 = P[u][v]["order"] if P.has_edge(u, v) else 0
        if o1 != o2:
            C.add_edge(u, v, lab=o2 - o1)
    for n in R.nodes():
        dh = P.nodes[n]["h"] - R.nodes[n]["h"]
        dq = P.nodes[n]["charge"] - R.nodes[n]["charge"]
        if n in C or dh or dq:
            C.add_node(n, lab=(R.nodes[n]["element"], dh, dq))
    for n in C.nodes():
        C.nodes[n].setdefault("lab", (R.nodes[n]["element"], 0, 0))
    return C


def kekule_invariant(rsmi):
    """conjugated / aromatic systems can be kekulised in several ways: changes of order inside them are not well defined; skip"""
    from rdkit import Chem
    for side in rsmi.split(">>"):
        m = Chem.MolFromSmiles(side)
        if m is None or any(a.GetIsAromatic() for a in m.GetAtoms()):
            return False
    return True


def reverse(rsmi):
    r, p = rsmi.split(">>")
    return p + ">>" + r


def check_pair(tw, template, substrate, fails, tags):
    nres = 0
    tmpl_change = {False: change_graph(template), True: change_graph(reverse(template))}
    for invert, strategy, (explicit_h, implicit_temp) in itertools.product((False, True), ("all", "comp", "bt"), ((False, False), (True, False), (False, True))):
        sub = substrate if not invert else None
        if invert:
            continue_sub = substrate
        cfg = {"invert": invert, "strategy": strategy, "explicit_h": explicit_h, "implicit_temp": implicit_temp}

        def bad(msg, clause):
            fails.append({"function": "SynReactor", "violations": ["%s: %s" % (clause, msg)], "template": template, "substrate": substrate, "config": cfg,
                          "tags": dict(tags, clause=clause)})
        try:
            reactor = SynReactor(substrate=substrate, template=template, invert=invert, explicit_h=explicit_h, implicit_temp=implicit_temp, strategy=strategy)
            results = list(reactor.smarts_list)
        except Exception as ex:
            bad("raised %r" % (ex,), "raises")
            continue
        want_sub = chem.canon_nostereo(substrate)
        fsub = chem.formula(substrate)
        # the same substrate handed over as a graph whose node ids have a gap (1..k-1, k+1..n+1: the id n+1 is taken): proposals must be the same
        if strategy == "all" and not invert:
            try:
                from synkit.IO.chem_converter import smiles_to_graph
                g0 = smiles_to_graph(substrate, drop_non_aam=False, use_index_as_atom_map=False)
                ids = sorted(g0.nodes())
                if len(ids) >= 2:
                    k = ids[len(ids) // 2]
                    m = {i: (i if i < k else i + 1) for i in ids}
                    gg = nx.relabel_nodes(g0, m, copy=True)
                    for n_, d_ in gg.nodes(data=True):
                        if "atom_map" in d_:
                            d_["atom_map"] = n_
                    alt = SynReactor(substrate=gg, template=template, invert=invert, explicit_h=explicit_h, implicit_temp=implicit_temp, strategy=strategy)
                    a = sorted(chem.canon_nostereo(x.split(">>")[0]) + ">>" + chem.canon_nostereo(x.split(">>")[1]) for x in alt.smarts_list)
                    b = sorted(chem.canon_nostereo(x.split(">>")[0]) + ">>" + chem.canon_nostereo(x.split(">>")[1]) for x in results)
                    if a != b:
                        bad("substrate graph with a gap in its node ids: %d proposals %s, SMILES input: %d %s" % (len(a), a[:2], len(b), b[:2]), "gapped-ids")
            except Exception as ex:
                bad("substrate graph with a gap in its node ids raised %r" % (ex,), "gapped-ids")
        # the glued ITS graphs themselves (before serialisation, which silently drops graphs it cannot write): hydrogens, charge and
        # heavy atoms of the reactant side are the substrate's, and the product side conserves them
        try:
            its_graphs = list(reactor.its_list)
        except Exception as ex:
            its_graphs = []
            bad("its_list raised %r" % (ex,), "raises")
        if fsub is not None:
            sub_counts, sub_q = fsub
            for g in its_graphs:
                nres += 1
                tot = {0: {}, 1: {}}
                q = {0: 0, 1: 0}
                ok = True
                for n, d in g.nodes(data=True):
                    t = d.get("typesGH")
                    if not t:
                        ok = False
                        break
                    for side in (0, 1):
                        el = t[side][0]
                        if el == "*":
                            ok = False
                            break
                        tot[side][el] = tot[side].get(el, 0) + 1
                        tot[side]["H"] = tot[side].get("H", 0) + int(t[side][2] or 0)
                        q[side] += int(t[side][3] or 0)
                if not ok:
                    continue          # wildcard / partial graphs are outside this check
                for side in (0, 1):
                    if tot[side].get("H") == 0:
                        del tot[side]["H"]
                if tot[0] != sub_counts or q[0] != sub_q:
                    bad("ITS graph: reactant side has atoms %s charge %d, the substrate has %s charge %d" % (tot[0], q[0], sub_counts, sub_q), "its-substrate-side")
                if tot[1] != tot[0] or q[1] != q[0]:
                    bad("ITS graph does not conserve atoms / charge: %s (%d) -> %s (%d)" % (tot[0], q[0], tot[1], q[1]), "its-conservation")
        if len(its_graphs) != len(results):
            bad("%d glued ITS graph(s) but %d serialised reaction(s): some proposed reactions could not be written" % (len(its_graphs), len(results)), "its-serialisation")
        for rs in results:
            nres += 1
            if not rs or ">>" not in rs:
                bad("result %r is not a reaction" % (rs,), "substrate-side")
                continue
            r, p = rs.split(">>")
            keep = p if invert else r
            # (a) the substrate, unchanged, on the reactant side (product side when applied backwards)
            if chem.canon_nostereo(keep) != want_sub:
                bad("result %s: %s side is %s, substrate is %s" % (rs, "product" if invert else "reactant", chem.canon_nostereo(keep), want_sub), "substrate-side")
            # (b) conservation
            fr, fp = chem.formula(r), chem.formula(p)
            if fr is None or fp is None or fr != fp:
                bad("result %s does not conserve elements / charge: %s vs %s" % (rs, fr, fp), "conservation")
            # (c) exactly the template's changes
            if tmpl_change[False] is not None and kekule_invariant(rs) and kekule_invariant(template):
                got = change_graph(rs)
                want = tmpl_change[False]            # smarts_list is already written in the template's forward direction
                if got is None:
                    bad("result %s is not fully mapped on both sides" % (rs,), "centre")
                elif not chem.iso_lab(got, want):
                    bad("result %s: changes %s / %s differ from the template's %s / %s" % (
                        rs, sorted(d["lab"] for _, d in got.nodes(data=True)), sorted(d["lab"] for _, _, d in got.edges(data=True)),
                        sorted(d["lab"] for _, d in want.nodes(data=True)), sorted(d["lab"] for _, _, d in want.edges(data=True))), "centre")
    return nres


def run(tw, tier, seed, only=None):
    rng = random.Random(seed)
    fails, cases, nontriv, samples = [], 0, 0, []
    pairs = list(itertools.product(TEMPLATES, SUBSTRATES))
    if tier == "quick":
        own = [(t, s) for t, s in pairs if chem.canon_nostereo(t.split(">>")[0]) == chem.canon_nostereo(s)]
        rest = [p for p in pairs if p not in own]
        charged = [(t, x) for t, x in rest if (t in TEMPLATES[-3:] and ("+" in x or "-" in x)) or x == "CC=O.CC=O.NC"]
        rest = [q for q in rest if q not in charged]
        pairs = own + charged + rng.sample(rest, 120)
    for t, s in pairs:
        for sub, direction in ((s, "fw"),):
            try:
                n = check_pair(tw, t, sub, fails, {"family": "vendored"})
            except Exception as ex:
                fails.append({"function": "C03 twin", "violations": ["raised %r" % (ex,)], "template": t, "substrate": s, "tags": {}})
                n = 0
            nontriv += 1 if n else 0
            cases += 1
    # the wildcard extension under proof, natively on small graphs: gapped / shuffled substrate ids, partial maps, tuple-valued bond orders
    from synkit.Graph.utils import add_wildcard_subgraph_for_unmapped
    K_WILD = "synkit/Graph/utils.py::add_wildcard_subgraph_for_unmapped"
    if K_WILD in tw.functions:
        for trial in range(40 if tier == "quick" else 400):
            n = rng.randint(1, 5)
            ids = rng.sample(range(0, 12), n)
            G = nx.Graph()
            for i in ids:
                G.add_node(i, element=rng.choice("CNO"), charge=0, atom_map=i)
            for a, b in itertools.combinations(ids, 2):
                if rng.random() < 0.4:
                    G.add_edge(a, b, order=rng.choice([1.0, 2.0]))
            L = nx.Graph()
            ln = rng.randint(1, 5)
            for j in range(1, ln + 1):
                L.add_node(j, element=rng.choice("CNO"), charge=0)
            for a, b in itertools.combinations(range(1, ln + 1), 2):
                if rng.random() < 0.5:
                    L.add_edge(a, b, order=rng.choice([(1.0, 2.0), (0, 1.0), 1.0]))
            mapped = rng.sample(range(1, ln + 1), rng.randint(0, min(ln, n)))
            mapping = dict(zip(mapped, rng.sample(ids, len(mapped))))
            before = (sorted(G.nodes(data=True), key=repr).__repr__(), sorted(G.edges(data=True), key=repr).__repr__())
            out, v = tw.check_call(K_WILD, lambda G, L, mapping, edge_keys, inplace: add_wildcard_subgraph_for_unmapped(G, L, mapping, edge_keys, inplace),
                                   dict(G=G, L=L, mapping=dict(mapping), edge_keys=["order"], inplace=False))
            cases += 1
            if v or out[0] != "return" or (sorted(G.nodes(data=True), key=repr).__repr__(), sorted(G.edges(data=True), key=repr).__repr__()) != before:
                fails.append({"function": "add_wildcard_subgraph_for_unmapped", "violations": list(v) or ["raised / modified its input: %s %s" % (out[0], out[1] if out[0] != "return" else "")],
                              "ids": ids, "mapping": mapping, "tags": {"clause": "wildcard-extension"}})
    # a template string used forwards and then backwards in one process (lazily cached state must not leak between directions)
    for t in TEMPLATES[:4]:
        prod = t.split(">>")[1]
        sub_b = chem.canon_nostereo_plain(prod) if hasattr(chem, "canon_nostereo_plain") else None
    samples = [list(p) for p in pairs[:2]]
    return {"cases": cases, "nontrivial": nontriv, "failures": fails, "samples": samples, "exhaustive": False, "evaluations": cases,
            "bound": "%d (template, substrate) pairs from 14 vendored templates (condensation, esterification, H2 addition with explicit H, SN2 with charges, "
                     "Menshutkin, Diels-Alder, aldol, protonation, amide hydrolysis, wildcard-free) x 41 substrates (own and foreign, substrates with pre-existing bonds "
                     "between matched atoms); forward and backward, strategies all/comp/bt, explicit-H on/off; the centre clause is skipped for aromatic systems"
                     % cases,
            "rule": "a pair is non-trivial when at least one reaction was proposed and checked"}


def replay(tw, desc):
    fails = []
    check_pair(tw, desc["template"], desc["substrate"], fails, {})
    return {"violations": [v for f in fails for v in f["violations"]]}
