"""C10 bounded stand-in / replay: representation changes lose nothing (SMILES <-> graph, explicit/implicit H, ITS <-> GML)."""
import random, logging
import networkx as nx

from synkit.IO.chem_converter import smiles_to_graph, graph_to_smi, rsmi_to_its, its_to_gml, gml_to_its, smart_to_gml
from synkit.Graph.Hyrogen._misc import h_to_explicit, h_to_implicit
from synkit.Graph.ITS.its_decompose import get_rc
from pyvc import chem, gen

logging.disable(logging.CRITICAL)
K_IMPL = "synkit/Graph/Hyrogen/_misc.py::h_to_implicit"
K_EXPL = "synkit/Graph/Hyrogen/_misc.py::h_to_explicit"
CMP = ("element", "charge", "hcount", "aromatic")


def gdump(G, keys=CMP):
    return (sorted((n, tuple(d.get(k) for k in keys)) for n, d in G.nodes(data=True)),
            sorted((min(u, v), max(u, v), d.get("order")) for u, v, d in G.edges(data=True)))


def total_h(G):
    return sum(int(d.get("hcount", 0) or 0) for _, d in G.nodes(data=True)) + sum(1 for _, d in G.nodes(data=True) if d.get("element") == "H")


def check_molecule(tw, smi, fails, tags):
    tags = dict(tags, hydrogen_only=str(set(c for c in smi if c.isalpha()) <= {"H"}))

    def bad(fn, msg, clause):
        fails.append({"function": fn, "violations": ["%s: %s" % (clause, msg)], "smiles": smi, "tags": dict(tags, clause=clause)})
    want = chem.canon_nostereo(smi)
    if want is None:
        return 0
    try:
        G = smiles_to_graph(smi, drop_non_aam=False, use_index_as_atom_map=False)
    except Exception as ex:
        bad("smiles_to_graph", "raised %r" % (ex,), "smiles-roundtrip")
        return 0
    if G is None:
        bad("smiles_to_graph", "returned None for a sanitisable molecule", "smiles-roundtrip")
        return 0
    try:
        back = graph_to_smi(G)
    except Exception as ex:
        back = "raised %r" % (ex,)
    if back is None or chem.canon_nostereo(back) != want:
        bad("graph_to_smi", "SMILES -> graph -> SMILES gives %r, expected %r" % (back, want), "smiles-roundtrip")
    # formula seen by the graph layer
    f = chem.formula(smi)
    if f is not None and chem.graph_formula(G) != f:
        bad("smiles_to_graph", "graph formula %s differs from molecule formula %s" % (chem.graph_formula(G), f), "graph-formula")
    # explicit / implicit hydrogens
    before = gdump(G)
    keep = [n for n in G.nodes()]
    try:
        atom_ids = [n for n, d in G.nodes(data=True) if int(d.get("hcount", 0) or 0) > 0]
        E = h_to_explicit(G, atom_ids)
    except Exception as ex:
        bad("h_to_explicit", "raised %r" % (ex,), "explicit-h")
        return 1
    if gdump(G) != before:
        bad("h_to_explicit", "input graph modified", "frame")
    if total_h(E) != total_h(G) or chem.graph_formula(E) != chem.graph_formula(G):
        bad("h_to_explicit", "hydrogen count %d -> %d" % (total_h(G), total_h(E)), "h-count")
    try:
        es = graph_to_smi(E)
        if es is None or chem.canon_nostereo(es) != want:
            bad("h_to_explicit", "molecule changed: %r, expected %r" % (es, want), "explicit-h")
    except Exception as ex:
        bad("graph_to_smi", "raised %r on the explicit-H graph" % (ex,), "explicit-h")
    # the contract under proof for h_to_explicit (default call: all atoms) evaluated on the real function; graphs from SMILES carry no typesGH
    if K_EXPL in tw.functions and not any("typesGH" in d for _, d in G.nodes(data=True)):
        try:
            out_e, v_e = tw.check_call(K_EXPL, lambda G, nodes, its: h_to_explicit(G, nodes, its), dict(G=G, nodes=None, its=False))
            if v_e or out_e[0] != "return":
                fails.append({"function": "h_to_explicit", "violations": list(v_e) or ["raised %s" % (out_e[1],)], "smiles": smi, "tags": dict(tags, clause="explicit-contract")})
        except Exception as ex:
            bad("h_to_explicit", "contract evaluation raised %r" % (ex,), "explicit-contract")
    # ... and the contract for a call with a list of atoms (every second atom, one of them twice, one id that is not in the graph)
    K_LIST = K_EXPL + "~list"
    if K_LIST in tw.functions and not any("typesGH" in d for _, d in G.nodes(data=True)) and G.number_of_nodes() > 0:
        ids = sorted(G.nodes())
        sel = ids[::2] + ids[:1] + [max(ids) + 1000]
        try:
            out_l, v_l = tw.check_call(K_LIST, lambda G, nodes, its: h_to_explicit(G, nodes, its), dict(G=G, nodes=list(sel), its=False))
            if v_l or out_l[0] != "return":
                fails.append({"function": "h_to_explicit", "violations": list(v_l) or ["raised %s" % (out_l[1],)], "smiles": smi, "tags": dict(tags, clause="explicit-list-contract")})
        except Exception as ex:
            bad("h_to_explicit", "list-contract evaluation raised %r" % (ex,), "explicit-list-contract")
    ebefore = gdump(E)
    try:
        out, v = tw.check_call(K_IMPL, h_to_implicit, dict(G=E)) if K_IMPL in tw.functions else (("return", h_to_implicit(E)), [])
    except Exception as ex:
        bad("h_to_implicit", "raised %r" % (ex,), "implicit-h")
        return 1
    if v:
        fails.append({"function": "h_to_implicit", "violations": v, "smiles": smi, "tags": tags})
    if out[0] != "return":
        bad("h_to_implicit", "raised %s" % (out[1],), "implicit-h")
        return 1
    I = out[1]
    if gdump(E) != ebefore:
        bad("h_to_implicit", "input graph modified", "frame")
    if total_h(I) != total_h(G):
        bad("h_to_implicit", "hydrogen count %d -> %d" % (total_h(G), total_h(I)), "h-count")
    if gdump(I) != before:
        bad("h_to_implicit", "explicit -> implicit does not restore the graph", "h-roundtrip")
    # graphs mixing implicit counts and explicit hydrogens: only part of the hydrogens made explicit
    if len(atom_ids) >= 1:
        try:
            Pg = h_to_explicit(G, atom_ids[:1])
            # expand only one hydrogen of that atom by hand when it carries several: emulate with a partial graph
            Ig = h_to_implicit(Pg)
            if total_h(Ig) != total_h(G) or gdump(Ig) != before:
                bad("h_to_implicit", "partly explicit graph is not restored (H %d -> %d)" % (total_h(G), total_h(Ig)), "h-roundtrip-partial")
        except Exception as ex:
            bad("h_to_explicit/h_to_implicit", "raised %r on a partial expansion" % (ex,), "h-roundtrip-partial")
        # one explicit H next to remaining implicit ones
        a = atom_ids[0]
        if int(G.nodes[a].get("hcount", 0)) >= 2:
            M = G.copy()
            M.nodes[a]["hcount"] = int(M.nodes[a]["hcount"]) - 1
            hid = max(M.nodes()) + 1
            M.add_node(hid, element="H", charge=0, hcount=0, aromatic=False, atom_map=0, neighbors=[])
            M.add_edge(a, hid, order=1.0)
            try:
                Im = h_to_implicit(M)
                if total_h(Im) != total_h(G) or gdump(Im) != before:
                    bad("h_to_implicit", "atom with implicit and explicit hydrogens: H %d -> %d" % (total_h(G), total_h(Im)), "h-mixed")
            except Exception as ex:
                bad("h_to_implicit", "raised %r on a mixed graph" % (ex,), "h-mixed")
    return 1


def check_reaction(tw, rsmi, fails, rng, tags):
    def bad(fn, msg, clause):
        fails.append({"function": fn, "violations": ["%s: %s" % (clause, msg)], "rsmi": rsmi, "tags": dict(tags, clause=clause)})
    try:
        its = rsmi_to_its(rsmi)
        rc = get_rc(its)
    except Exception as ex:
        return 0
    if its is None or rc.number_of_nodes() == 0:
        return 0
    sig_rc = chem.its_signature(rc)
    sig_full = chem.its_signature(its)
    if any(d["lab"][0] != d["lab"][2] or "*" in (d["lab"][0], d["lab"][2]) for _, d in sig_full.nodes(data=True)):
        return 0      # a mapped atom exists on one side only (e.g. a proton absorbed into an implicit count): not a rule GML can express
    for core, src, want, name in ((True, rc, sig_rc, "centre"), (True, its, sig_rc, "full ITS, core=True"), (False, its, sig_full, "full ITS, core=False")):
        for reindex in (True, False):
            try:
                gml = its_to_gml(src, core=core, reindex=reindex)
                back = gml_to_its(gml)
            except Exception as ex:
                bad("its_to_gml/gml_to_its", "raised %r (%s, reindex=%s)" % (ex, name, reindex), "gml-roundtrip")
                continue
            if not chem.iso_lab(chem.its_signature(back), want):
                bad("its_to_gml/gml_to_its", "%s, reindex=%s: atoms / charges / (before, after) orders not preserved" % (name, reindex), "gml-roundtrip")
    # the documented ways of producing a rule agree
    try:
        a = chem.its_signature(gml_to_its(smart_to_gml(rsmi, core=True)))
        if not chem.iso_lab(a, sig_rc):
            bad("smart_to_gml", "rule from the reaction string differs from the rule from the ITS centre", "gml-equivalence")
        b = chem.its_signature(gml_to_its(smart_to_gml(rsmi, core=False)))
        if not chem.iso_lab(b, sig_full):
            bad("smart_to_gml", "full rule from the reaction string differs from the rule from the full ITS", "gml-equivalence")
    except Exception as ex:
        bad("smart_to_gml", "raised %r" % (ex,), "gml-equivalence")
    # the same equivalence with the non-default flags of the string route (sanitize off, explicit hydrogens on)
    for kw in ({"sanitize": False}, {"explicit_hydrogen": True}, {"reindex": True}):
        try:
            kw_its = {k: v for k, v in kw.items() if k == "sanitize"}
            its2 = rsmi_to_its(rsmi, **kw_its)
            want2 = chem.its_signature(get_rc(its2))
            if any(d["lab"][0] != d["lab"][2] or "*" in (d["lab"][0], d["lab"][2]) for _, d in chem.its_signature(its2).nodes(data=True)):
                continue
            got2 = chem.its_signature(gml_to_its(smart_to_gml(rsmi, core=True, **kw)))
            ref2 = chem.its_signature(gml_to_its(its_to_gml(its2, core=True, **{k: v for k, v in kw.items() if k in ("explicit_hydrogen", "reindex")})))
            if not chem.iso_lab(got2, ref2):
                bad("smart_to_gml", "with %s the rule from the reaction string differs from the rule from the ITS built with the same flags" % (kw,), "gml-equivalence-flags")
        except Exception as ex:
            bad("smart_to_gml", "raised %r with %s" % (ex, kw), "gml-equivalence-flags")
    # renumbering the maps gives an equivalent rule
    try:
        r2 = chem.renumber_rsmi(rsmi, rng)
        c = chem.its_signature(gml_to_its(its_to_gml(rsmi_to_its(r2), core=True)))
        if not chem.iso_lab(c, sig_rc):
            bad("its_to_gml", "renumbered reaction gives a different rule", "gml-renumbering")
    except Exception as ex:
        bad("its_to_gml", "raised %r on a renumbered reaction" % (ex,), "gml-renumbering")
    return 1


def run(tw, tier, seed, only=None):
    rng = random.Random(seed)
    fails, cases, nontriv, samples = [], 0, 0, []
    mols = chem.molecules(limit=110 if tier == "quick" else None, rng=rng)
    for s in mols:
        try:
            nontriv += check_molecule(tw, s, fails, {"family": "molecule"})
        except Exception as ex:
            fails.append({"function": "C10 twin", "violations": ["raised %r" % (ex,)], "smiles": s, "tags": {}})
        cases += 1
    rxns = chem.corpus_reactions(limit=45 if tier == "quick" else None, rng=rng)
    rxns = ["[CH:1]1=[CH:2][CH:3]=[CH:4][CH:5]=[C:6]1[Br:7].[OH2:8]>>[CH:1]1=[CH:2][CH:3]=[CH:4][CH:5]=[C:6]1[OH:8].[BrH:7]"] + rxns     # Kekule-written ring
    for r in rxns:
        try:
            nontriv += check_reaction(tw, r, fails, rng, {"family": "reaction"})
        except Exception as ex:
            fails.append({"function": "C10 twin", "violations": ["raised %r" % (ex,)], "rsmi": r, "tags": {}})
        cases += 1
    samples = mols[:2] + rxns[:1]
    return {"cases": cases, "nontrivial": nontriv, "failures": fails, "samples": samples, "exhaustive": False, "evaluations": tw.evaluations,
            "bound": "%d molecules (vendored diverse list incl. charged / aromatic / hetero-aromatic / H2 / proton, plus the molecules of /repo's ecoli and paracetamol "
                     "corpora%s) and %d mapped reactions (10 vendored incl. charge-changing and -2 charges, plus corpus%s); ITS->GML->ITS for centre / full ITS x core x "
                     "reindex, rule from string vs from ITS, one random renumbering each" % (len(mols), " (sampled)" if tier == "quick" else "", len(rxns), " sample" if tier == "quick" else ""),
            "rule": "a case is non-trivial when the molecule / reaction was parsed and all round trips were executed"}


def replay(tw, desc):
    fails = []
    if desc.get("smiles"):
        check_molecule(tw, desc["smiles"], fails, {})
    if desc.get("rsmi"):
        check_reaction(tw, desc["rsmi"], fails, random.Random(0), {})
    return {"violations": [v for f in fails for v in f["violations"]]}
