"""C08 bounded stand-in / replay: canonical graphs and signatures vs brute-force isomorphism on small labelled graphs."""
import itertools, random, logging
import networkx as nx
from networkx.algorithms.isomorphism import GraphMatcher

from synkit.Graph.canon_graph import GraphCanonicaliser, CanonicalGraph, _default_node_key, _default_edge_key
from synkit.Graph.Canon.nauty import NautyCanonicalizer
from synkit.Graph.syn_graph import SynGraph
from pyvc import gen

logging.disable(logging.CRITICAL)
BACKENDS = ("generic", "wl", "morgan", "nauty")
NCOV = ("element", "charge", "aromatic", "hcount")       # node attributes the default signature covers
ECOV = ("order", "standard_order")
K_NK = "synkit/Graph/canon_graph.py::_default_node_key"
K_EK = "synkit/Graph/canon_graph.py::_default_edge_key"


def full_attrs(G):
    """complete the attribute set the canonicalisers read"""
    H = nx.Graph()
    for n, d in G.nodes(data=True):
        H.add_node(n, element=d.get("element", "C"), charge=d.get("charge", 0), aromatic=d.get("aromatic", False),
                   hcount=d.get("hcount", 0), atom_map=0, neighbors=[])
    for u, v, d in G.edges(data=True):
        H.add_edge(u, v, order=d.get("order", 1), standard_order=d.get("standard_order", 0))
    return H


def relabel(G, perm_map, node_order, edge_order):
    H = nx.Graph()
    for n in node_order:
        H.add_node(perm_map[n], **dict(G.nodes[n]))
    for u, v in edge_order:
        H.add_edge(perm_map[u], perm_map[v], **dict(G[u][v]))
    return H


def iso_cov(G1, G2):
    return GraphMatcher(G1, G2, node_match=lambda a, b: all(a.get(k) == b.get(k) for k in NCOV),
                        edge_match=lambda a, b: all(a.get(k) == b.get(k) for k in ECOV)).is_isomorphic()


def dump(G):
    return (tuple(sorted((n, tuple(sorted((k, repr(v)) for k, v in d.items()))) for n, d in G.nodes(data=True))),
            tuple(sorted((min(u, v), max(u, v), tuple(sorted((k, repr(x)) for k, x in d.items()))) for u, v, d in G.edges(data=True))))


def variants(G, rng, k, all_perms):
    nodes = list(G.nodes())
    perms = list(itertools.permutations(nodes)) if all_perms else [tuple(rng.sample(nodes, len(nodes))) for _ in range(k)]
    out = []
    for p in perms:
        m = dict(zip(nodes, [x + 10 for x in p])) if rng.random() < 0.3 else dict(zip(nodes, p))
        no = rng.sample(nodes, len(nodes))
        eo = [(u, v) if rng.random() < 0.5 else (v, u) for u, v in rng.sample(list(G.edges()), G.number_of_edges())]
        out.append(relabel(G, m, no, eo))
    return out


def check_graph(tw, G, canons, fails, rng, tags, all_perms, k=4):
    nontriv = 0
    n = G.number_of_nodes()
    vs = variants(G, rng, k, all_perms)
    for be in BACKENDS:
        c = canons[be]

        def bad(fn, msg, clause):
            fails.append({"function": fn, "violations": ["%s: %s" % (clause, msg)], "graph": gen.graph_desc(G), "backend": be, "tags": dict(tags, clause=clause, backend=be)})
        try:
            cg = c.make_canonical_graph(G)
            sig = c.canonical_signature(G)
        except Exception as ex:
            bad("GraphCanonicaliser", "raised %r" % (ex,), "raises")
            continue
        # faithful: the input relabelled by a bijection onto 1..N, every attribute kept
        if sorted(cg.nodes()) != list(range(1, n + 1)) or not GraphMatcher(
                G, cg, node_match=lambda a, b: a == b, edge_match=lambda a, b: a == b).is_isomorphic():
            bad("GraphCanonicaliser.make_canonical_graph", "canonical graph is not the input relabelled onto 1..N with all attributes", "faithful")
        # deterministic
        if c.canonical_signature(G) != sig or GraphCanonicaliser(backend=be).canonical_signature(G) != sig:
            bad("GraphCanonicaliser.canonical_signature", "signature changes between calls / instances", "deterministic")
        if be == "nauty":
            # invariant: every numbering / insertion order gives the same canonical graph and signature
            for V in vs:
                try:
                    s2 = c.canonical_signature(V)
                    d2 = dump(c.make_canonical_graph(V))
                except Exception as ex:
                    bad("GraphCanonicaliser(nauty)", "raised %r on a renumbered copy" % (ex,), "raises")
                    break
                if s2 != sig or d2 != dump(cg):
                    bad("GraphCanonicaliser(nauty)", "a renumbered / reordered copy gets a different %s" % ("signature" if s2 != sig else "canonical graph"), "invariant")
                    break
                if SynGraph(V, c) != SynGraph(G, c) or hash(SynGraph(V, c)) != hash(SynGraph(G, c)) or \
                        CanonicalGraph(V, c) != CanonicalGraph(G, c):
                    bad("SynGraph/CanonicalGraph", "wrappers of isomorphic graphs compare unequal", "wrapper-equality")
                    break
            nontriv = 1
    return nontriv


def run(tw, tier, seed, only=None):
    rng = random.Random(seed)
    fails, cases, nontriv, samples = [], 0, 0, []
    canons = {be: GraphCanonicaliser(backend=be) for be in BACKENDS}
    small = [full_attrs(g) for g in gen.labelled_graphs(3, elems=("C", "O"), orders=(1, 2), hcounts=(0, 1))]
    g4 = [full_attrs(g) for g in gen.labelled_graphs(4, elems=("C", "O"), orders=(1, 2), hcounts=(0,))]
    g4 = [g for g in g4 if g.number_of_nodes() == 4]
    pool = (small if tier != "quick" else rng.sample(small, 120)) + rng.sample(g4, 60 if tier == "quick" else 1500)
    fam = []
    for n in (4, 5, 6):
        fam.append(full_attrs(nx.cycle_graph(n)))
    fam.append(full_attrs(nx.complete_bipartite_graph(2, 3)))
    fam.append(full_attrs(nx.complete_bipartite_graph(3, 3)))
    fam.append(full_attrs(nx.star_graph(4)))
    if tier != "quick":
        fam.append(full_attrs(nx.hypercube_graph(3)) if False else full_attrs(nx.convert_node_labels_to_integers(nx.hypercube_graph(3))))
    # alternating bond-change tuples (ITS-like), standard_order variants, fractional orders
    ring = full_attrs(nx.cycle_graph(4))
    for i, (u, v) in enumerate(ring.edges()):
        ring[u][v]["order"] = (2.0, 0.0) if i % 2 == 0 else (0.0, 2.0)
    fam.append(ring)
    ring6 = full_attrs(nx.cycle_graph(6))
    for i, (u, v) in enumerate(list(ring6.edges())):
        ring6[u][v]["order"] = (1.0, 2.0) if i % 2 == 0 else (2.0, 1.0)
    fam.append(ring6)
    het = full_attrs(nx.path_graph(4))
    het.nodes[0]["element"] = "O"; het.nodes[3]["element"] = "N"; het.nodes[1]["hcount"] = 2
    fam.append(het)
    for G in fam:
        try:
            nontriv += check_graph(tw, G, canons, fails, rng, {"family": "symmetric"}, all_perms=G.number_of_nodes() <= 4, k=6 if tier == "quick" else 40)
        except Exception as ex:
            fails.append({"function": "C08 twin", "violations": ["raised %r" % (ex,)], "graph": gen.graph_desc(G), "tags": {}})
        cases += 1
    for G in pool:
        try:
            nontriv += check_graph(tw, G, canons, fails, rng, {"family": "enumerated"}, all_perms=(tier != "quick" and G.number_of_nodes() <= 4), k=3)
        except Exception as ex:
            fails.append({"function": "C08 twin", "violations": ["raised %r" % (ex,)], "graph": gen.graph_desc(G), "tags": {}})
        cases += 1
        if len(samples) < 2:
            samples.append(gen.graph_desc(G))
    for _ in range(15 if tier == "quick" else 300):
        n = rng.randint(5, 9)
        G = nx.gnp_random_graph(n, 0.35, seed=rng.randrange(10 ** 6))
        for v in G.nodes():
            G.nodes[v]["element"] = rng.choice("CCCO")
            G.nodes[v]["hcount"] = rng.choice((0, 0, 1))
        for u, v in G.edges():
            G[u][v]["order"] = rng.choice((1, 1, 2, 1.5))
        try:
            nontriv += check_graph(tw, full_attrs(G), canons, fails, rng, {"family": "random"}, all_perms=False, k=4)
        except Exception as ex:
            fails.append({"function": "C08 twin", "violations": ["raised %r" % (ex,)], "tags": {}})
        cases += 1
    # directed inputs: the canonical graph must still be the input relabelled by a bijection (arc directions kept, antiparallel arcs kept apart)
    from networkx.algorithms.isomorphism import DiGraphMatcher
    dgs = []
    for edges in ([(0, 1)], [(1, 0)], [(0, 1), (1, 0)], [(0, 1), (1, 2)], [(2, 1), (1, 0)], [(0, 1), (2, 1)], [(0, 1), (1, 2), (2, 0)], [(0, 1), (1, 0), (1, 2)]):
        for elems in ("CO", "OC", "COC", "OCC", "CCO"):
            n = 1 + max(max(e) for e in edges)
            if len(elems) != n:
                continue
            D = nx.DiGraph()
            for i in range(n):
                D.add_node(i, element=elems[i], charge=0, aromatic=False, hcount=0, atom_map=0, neighbors=[])
            for u, v in edges:
                D.add_edge(u, v, order=1, standard_order=0)
            dgs.append(D)
    for D in dgs:
        for be in ("generic", "wl"):
            cases += 1
            try:
                cg = canons[be].make_canonical_graph(D)
            except Exception as ex:
                fails.append({"function": "GraphCanonicaliser.make_canonical_graph", "backend": be, "graph": gen.graph_desc(D),
                              "violations": ["raises: %r on a directed graph" % (ex,)], "tags": {"clause": "raises", "backend": be, "directed": "yes"}})
                continue
            ok = cg.is_directed() and sorted(cg.nodes()) == list(range(1, D.number_of_nodes() + 1)) and \
                DiGraphMatcher(D, cg, node_match=lambda a, b: a == b, edge_match=lambda a, b: a == b).is_isomorphic()
            if not ok:
                fails.append({"function": "GraphCanonicaliser.make_canonical_graph", "backend": be, "graph": gen.graph_desc(D),
                              "violations": ["faithful: canonical graph of a directed graph is not the input relabelled onto 1..N with all arcs and attributes"],
                              "tags": {"clause": "faithful", "backend": be, "directed": "yes"}})
    # sound: equal signatures only for graphs isomorphic on the covered attributes (all back-ends); exact back-end: converse
    variants_pool = pool + fam
    frac = []
    for base in (nx.cycle_graph(4), nx.path_graph(3)):
        for o in (1, 1.0, 1.5, 2):
            g = full_attrs(base)
            for u, v in g.edges():
                g[u][v]["order"] = o
            frac.append(g)
        g = full_attrs(base)
        for u, v in g.edges():
            g[u][v]["standard_order"] = 1
        frac.append(g)
    variants_pool += frac
    for be in BACKENDS:
        c = canons[be]
        seen = {}
        for G in variants_pool:
            try:
                s = c.canonical_signature(G)
            except Exception:
                continue
            cases += 1
            for H in seen.get(s, [])[:3]:
                if not iso_cov(G, H):
                    fails.append({"function": "GraphCanonicaliser.canonical_signature", "backend": be, "graph": gen.graph_desc(G), "other": gen.graph_desc(H),
                                  "violations": ["sound: equal signatures for graphs that are not isomorphic on the covered attributes"],
                                  "tags": {"clause": "sound", "backend": be}})
                    break
            seen.setdefault(s, []).append(G)
        if be == "nauty":
            reps = [g[0] for g in seen.values()]
            for a, b in itertools.combinations(reps[:400], 2):
                if a.number_of_nodes() == b.number_of_nodes() and a.number_of_edges() == b.number_of_edges() and iso_cov(a, b) \
                        and GraphMatcher(a, b, node_match=lambda x, y: repr(sorted(x.items())) == repr(sorted(y.items())),
                                         edge_match=lambda x, y: repr(sorted(x.items())) == repr(sorted(y.items()))).is_isomorphic():
                    fails.append({"function": "GraphCanonicaliser(nauty)", "backend": be, "graph": gen.graph_desc(a), "other": gen.graph_desc(b),
                                  "violations": ["invariant: isomorphic graphs get different signatures"], "tags": {"clause": "invariant", "backend": be}})
                    break
    # sort keys under proof
    for _ in range(40):
        d = {k: rng.choice([0, 1, "C", True, 2.0]) for k in rng.sample(["element", "charge", "aromatic", "hcount", "order", "standard_order", "x"], rng.randint(0, 6))}
        u, v = rng.randint(1, 5), rng.randint(1, 5)
        for key, fn, args in ((K_NK, _default_node_key, dict(node_id=u, data=d)), (K_EK, _default_edge_key, dict(u=u, v=v, data=d))):
            if key in tw.functions:
                out, viol = tw.check_call(key, fn, args)
                if viol:
                    fails.append({"function": key.split("::")[1], "violations": viol, "args": args, "tags": {}})
        cases += 1
    return {"cases": cases, "nontrivial": nontriv, "failures": fails, "samples": samples, "exhaustive": False, "evaluations": tw.evaluations,
            "bound": "%d checks: labelled graphs <= 3 nodes over {C,O} x hcount {0,1} x orders {1,2} (%s), sampled 4-node graphs, cycles C4-C6, K2,3, K3,3, star, "
                     "%sITS-like rings with alternating order tuples, random graphs of 5-9 nodes; %s node permutations with random insertion orders and id offsets; "
                     "back-ends generic / wl / morgan / nauty; soundness by grouping a pool by signature and testing isomorphism on covered attributes"
                     % (cases, "all" if tier != "quick" else "sample of 120", "cube, " if tier != "quick" else "", "all (<= 4 nodes)" if tier != "quick" else "sampled"),
            "rule": "a graph is non-trivial when the exact back-end was compared across renumbered copies"}


def graph_from_desc(d):
    G = nx.Graph()
    for n, a in d["nodes"]:
        a = dict(a)
        G.add_node(n, **a)
    for u, v, a in d["edges"]:
        a = dict(a)
        if isinstance(a.get("order"), list):
            a["order"] = tuple(a["order"])
        G.add_edge(u, v, **a)
    return G


def replay(tw, desc):
    """re-executes the failing case on the current tree: the graph (and, for the soundness clause, the second graph) is rebuilt
    from the record and goes through the same checks"""
    fails = []
    canons = {be: GraphCanonicaliser(backend=be) for be in BACKENDS}
    G = graph_from_desc(desc["graph"]) if desc.get("graph") else None
    if G is not None:
        for seed in range(3):
            check_graph(tw, G, canons, fails, random.Random(seed), {}, all_perms=G.number_of_nodes() <= 4, k=8)
        if desc.get("other"):
            H = graph_from_desc(desc["other"])
            be = desc.get("backend", "generic")
            same_sig = canons[be].canonical_signature(G) == canons[be].canonical_signature(H)
            if same_sig and not iso_cov(G, H):
                fails.append({"violations": ["sound: equal signatures for graphs that are not isomorphic on the covered attributes"]})
            if be == "nauty" and not same_sig and iso_cov(G, H):
                fails.append({"violations": ["invariant: isomorphic graphs get different signatures"]})
    return {"violations": [v for f in fails for v in f["violations"]]}
