"""C17 -- stoichiometric analysis agrees with exact linear algebra (sidecar contracts)."""
from pyvc.rt import *  # noqa: F401,F403

PROPERTY = "C17"
USES_NX = True
INCLUDE = ["C19", "C15", "C16"]
UT = "synkit/CRN/Props/utils.py"
CV = "synkit/CRN/Hypergraph/conversion.py"
HG = "synkit/CRN/Hypergraph/hypergraph.py"
ST = "synkit/CRN/Props/stoich.py"
CLASSES = {}
TRUSTED = ["A-nx-graph", "A-builtins (sorted: permutation ordered by key, stable; str() of a label uninterpreted)",
           "_as_bipartite on a DiGraph input returns that graph (the CRNHyperGraph branch is the exporter of C16)"]
ASSUMPTIONS = ["A-numpy (minimal): np.zeros((n, m), dtype=float) is a matrix indexable exactly at 0 <= i < n, 0 <= j < m with every entry 0.0, and M[i, j] += x changes "
               "that entry only (matrices are modelled as mappings from index pairs to reals); floating-point rounding of the additions is not modelled",
               "the rest of the numpy / scipy code (S = S+ - S-, rank, SVD kernels, linear programmes) has no contract-level model in this engine: rank, kernel dimensions and "
               "annihilation, and the conservative / consistent decisions are compared by the bounded twin with exact rational linear algebra (sympy) and exact certificates"]


def is_species(G, n):
    return G.nodes[n].get("kind") == "species" or G.nodes[n].get("bipartite", None) == 0


def is_reaction(G, n):
    return (not is_species(G, n)) and (G.nodes[n].get("kind") == "reaction" or G.nodes[n].get("bipartite", None) == 1)


def label_of(G, n):
    return str(G.nodes[n].get("label", n))


def R(H, k, s):
    return H.edges[k].reactants.data.get(s, 0)


def P(H, k, s):
    return H.edges[k].products.data.get(s, 0)


def rx_like(G, n):
    return G.nodes[n].get("kind") == "reaction" or G.nodes[n].get("bipartite", None) == 1


def cf(G, a, b, role):
    """contribution of the arc a -> b (if present, with that role) to a matrix entry"""
    return float(G[a][b].get("stoich", 1.0)) if (G.has_edge(a, b) and G[a][b].get("role") == role) else 0.0


def shape_ok(M, n, m):
    return forall(('int', 'int'), lambda i, j: ((i, j) in M) == (0 <= i and i < n and 0 <= j and j < m))


FUNCTIONS = {
    # the network's own incidence matrix (sparse form): entry (species, reaction) = produced minus consumed, no other keys
    HG + "::CRNHyperGraph.incidence_matrix": {
        "params": {"sparse": "const:True"},
        "vars": {"mapping": "dict[tuple[str,str],int]", "edge_order": "list[str]", "species_order": "list[str]", "seen": "set[str]"},
        "returns": "tuple[list[str],list[str],dict[tuple[str,str],int]]",
        "requires": ["wf(self)"],
        "modifies": [],
        "ensures": [
            "forall('str', lambda s: (s in result[0]) == (s in self.species))",
            "forall('str', lambda e: (e in result[1]) == (e in self.edges))",
            "forall((range(len(result[1])), range(len(result[1]))), lambda i, j: implies(i < j, result[1][i] < result[1][j]))",
            "forall(('str', 'str'), lambda s, e: implies(e in self.edges, result[2].get((s, e), 0) == P(self, e, s) - R(self, e, s)))",
            "forall(result[2], lambda s, e: e in self.edges and (s in self.edges[e].reactants.data or s in self.edges[e].products.data))",
        ],
        "loops": {
            1: {"ghost_init": ["seen = set()"], "ghost_step": ["seen.add(eid)"],
                "step_hints": [
                    "forall('str', lambda s: mapping.get((s, eid), 0) == P(self, eid, s) - R(self, eid, s))",
                    "forall(('str', 'str'), lambda s, e2: implies(e2 != eid, ((s, e2) in mapping) == at_iter((s, e2) in mapping) and mapping.get((s, e2), 0) == at_iter(mapping.get((s, e2), 0))))",
                    "forall('str', lambda s: implies((s, eid) in mapping, s in self.edges[eid].reactants.data or s in self.edges[eid].products.data))",
                    "at_iter(eid not in seen)"],
                "inv": [
                    "forall(seen, lambda e: exists(range(done), lambda j: edge_order[j] == e))",
                    "forall(range(done), lambda j: edge_order[j] in seen)",
                    "forall(seen, lambda e: e in self.edges)",
                    "forall(seen, lambda e: forall('str', lambda s: mapping.get((s, e), 0) == P(self, e, s) - R(self, e, s)))",
                    "forall(mapping, lambda s, e: e in seen and (s in self.edges[e].reactants.data or s in self.edges[e].products.data))"]},
            2: {"inv": [
                "forall('str', lambda s: mapping.get((s, eid), 0) == (0 - R(self, eid, s) if s in done else 0))",
                "forall('str', lambda s: implies((s, eid) in mapping, s in done))",
                "forall(('str', 'str'), lambda s, e2: implies(e2 != eid, ((s, e2) in mapping) == at_iter((s, e2) in mapping) and mapping.get((s, e2), 0) == at_iter(mapping.get((s, e2), 0))))"]},
            3: {"inv": [
                "forall('str', lambda s: mapping.get((s, eid), 0) == (P(self, eid, s) if s in done else 0) - R(self, eid, s))",
                "forall('str', lambda s: implies((s, eid) in mapping, s in done or s in self.edges[eid].reactants.data))",
                "forall(('str', 'str'), lambda s, e2: implies(e2 != eid, ((s, e2) in mapping) == at_iter((s, e2) in mapping) and mapping.get((s, e2), 0) == at_iter(mapping.get((s, e2), 0))))"]},
        },
    },
    CV + "::_as_bipartite": {
        "assumed": True,
        "params": {"crn": "obj:DiGraph"}, "returns": "obj:DiGraph", "modifies": [],
        "ensures": ["result is crn"],
    },
    # one row per species node and one column per reaction node: the two index maps are bijections onto 0..n-1 in label order
    UT + "::_species_and_reaction_order": {
        "params": {"crn": "obj:DiGraph"},
        "vars": {"species_labels": "list[str]", "species_index": "dict[any,int]", "reaction_labels": "list[str]", "reaction_index": "dict[any,int]",
                 "species_nodes_sorted": "list[any]", "reaction_nodes_sorted": "list[any]"},
        "returns": "tuple[list[str],list[str],dict[any,int],dict[any,int]]",
        "modifies": [],
        "raises": {"ValueError": "not exists(crn.nodes, lambda n: is_species(crn, n)) or not exists(crn.nodes, lambda n: is_reaction(crn, n))"},
        "ensures": [
            "forall('any', lambda n: (n in result[2]) == (crn.has_node(n) and is_species(crn, n)))",
            "forall('any', lambda n: (n in result[3]) == (crn.has_node(n) and is_reaction(crn, n)))",
            "forall('any', lambda n: (n not in result[2]) or (0 <= result[2][n] and result[2][n] < len(result[0]) and result[0][result[2][n]] == label_of(crn, n)))",
            "forall('any', lambda n: (n not in result[3]) or (0 <= result[3][n] and result[3][n] < len(result[1]) and result[1][result[3][n]] == label_of(crn, n)))",
            "forall(('any', 'any'), lambda n, m: not (n in result[2] and m in result[2] and not same(n, m)) or result[2][n] != result[2][m])",
            "forall(('any', 'any'), lambda n, m: not (n in result[3] and m in result[3] and not same(n, m)) or result[3][n] != result[3][m])",
            "forall((range(len(result[0])), range(len(result[0]))), lambda i, j: implies(i < j, result[0][i] <= result[0][j]))",
        ],
        "hints": ["forall('any', lambda n: (n in species_nodes_sorted) == (G.has_node(n) and is_species(G, n)))",
                  "forall('any', lambda n: (n in reaction_nodes_sorted) == (G.has_node(n) and is_reaction(G, n)))",
                  "forall(range(len(species_nodes_sorted)), lambda i: species_nodes_sorted[i] in species_index)",
                  "forall(range(len(reaction_nodes_sorted)), lambda i: reaction_nodes_sorted[i] in reaction_index)",
                  "forall('any', lambda n: implies(n in species_nodes_sorted, n in species_index))",
                  "forall('any', lambda n: implies(n in reaction_nodes_sorted, n in reaction_index))"],
        "ghost_ensures": [
            "len(result[0]) == len(species_nodes_sorted) and len(result[1]) == len(reaction_nodes_sorted)",
            # onto: row i is the row of the i-th species node, column j of the j-th reaction node
            "forall(range(len(result[0])), lambda i: species_nodes_sorted[i] in result[2] and result[2][species_nodes_sorted[i]] == i)",
            "forall(range(len(result[1])), lambda j: reaction_nodes_sorted[j] in result[3] and result[3][reaction_nodes_sorted[j]] == j)",
        ],
        "loops": {
            1: {"inv": [
                "len(species_labels) == done",
                "forall(range(done), lambda i: species_labels[i] == label_of(G, species_nodes_sorted[i]) and species_index[species_nodes_sorted[i]] == i)",
                "forall('any', lambda n: (n in species_index) == exists(range(done), lambda i: same(species_nodes_sorted[i], n)))",
                "forall('any', lambda n: implies(n in species_index, n in species_nodes_sorted))",
                "forall(range(done), lambda i: species_nodes_sorted[i] in species_index)"]},
            2: {"inv": [
                "len(reaction_labels) == done",
                "forall(range(done), lambda i: reaction_labels[i] == label_of(G, reaction_nodes_sorted[i]) and reaction_index[reaction_nodes_sorted[i]] == i)",
                "forall('any', lambda n: (n in reaction_index) == exists(range(done), lambda i: same(reaction_nodes_sorted[i], n)))",
                "forall('any', lambda n: implies(n in reaction_index, n in reaction_nodes_sorted))",
                "forall(range(done), lambda i: reaction_nodes_sorted[i] in reaction_index)"]},
        },
    },
    # the reactant matrix S- and the product matrix S+ (numpy arrays, modelled as mappings from index pairs to reals: A-numpy): the entry in
    # the row of a species node and the column of a reaction node is the consumed / produced coefficient of that species in that reaction
    ST + "::build_S_minus_plus": {
        "params": {"crn": "obj:DiGraph"},
        "vars": {"S_minus": "dict[tuple[int,int],real]", "S_plus": "dict[tuple[int,int],real]", "species_index": "dict[any,int]", "reaction_index": "dict[any,int]",
                 "species_order": "list[str]", "reaction_order": "list[str]"},
        "returns": "tuple[list[str],list[str],dict[tuple[int,int],real],dict[tuple[int,int],real]]",
        "requires": ["forall(crn.nodes, lambda n: not (is_species(crn, n) and rx_like(crn, n)))",
                     "forall(crn.edges, lambda u, v: isinstance(crn[u][v].get('stoich', 1.0), (int, float)) and not isinstance(crn[u][v].get('stoich', 1.0), bool))"],
        "modifies": [],
        "raises": {"ValueError": "not exists(crn.nodes, lambda n: is_species(crn, n)) or not exists(crn.nodes, lambda n: is_reaction(crn, n))"},
        "ensures": ["shape_ok(result[2], len(result[0]), len(result[1])) and shape_ok(result[3], len(result[0]), len(result[1]))"],
        "ghost_exports": ["species_index", "reaction_index"],     # callers may refer to them as build_S_minus_plus__species_index / __reaction_index
        "ghost_ensures": [
            # row of a species node, column of a reaction node: consumed / produced coefficient of that species in that reaction (arcs in either direction)
            "forall((species_index, reaction_index), lambda s, r: result[2][(species_index[s], reaction_index[r])] == cf(crn, s, r, 'reactant') + cf(crn, r, s, 'reactant'))",
            "forall((species_index, reaction_index), lambda s, r: result[3][(species_index[s], reaction_index[r])] == cf(crn, s, r, 'product') + cf(crn, r, s, 'product'))",
            "forall('any', lambda n: (n in species_index) == (crn.has_node(n) and is_species(crn, n)))",
            "forall('any', lambda n: (n in reaction_index) == (crn.has_node(n) and is_reaction(crn, n)))",
        ],
        "loops": {
            1: {"modifies": [],
                "facts": [
                    "forall('any', lambda n: (n in species_index) == (G.has_node(n) and is_species(G, n)))",
                    "forall('any', lambda n: (n in reaction_index) == (G.has_node(n) and is_reaction(G, n)))",
                    "forall(species_index, lambda n: 0 <= species_index[n] and species_index[n] < n_species)",
                    "forall(reaction_index, lambda n: 0 <= reaction_index[n] and reaction_index[n] < n_reactions)",
                    "forall((species_index, species_index), lambda n, m: implies(not same(n, m), species_index[n] != species_index[m]))",
                    "forall((reaction_index, reaction_index), lambda n, m: implies(not same(n, m), reaction_index[n] != reaction_index[m]))",
                    "n_species == len(species_order) and n_reactions == len(reaction_order)",
                ],
                "inv": [
                    "shape_ok(S_minus, n_species, n_reactions) and shape_ok(S_plus, n_species, n_reactions)",
                    "forall((species_index, reaction_index), lambda s, r: S_minus[(species_index[s], reaction_index[r])] == "
                    "       (cf(G, s, r, 'reactant') if (s, r) in done else 0.0) + (cf(G, r, s, 'reactant') if (r, s) in done else 0.0))",
                    "forall((species_index, reaction_index), lambda s, r: S_plus[(species_index[s], reaction_index[r])] == "
                    "       (cf(G, s, r, 'product') if (s, r) in done else 0.0) + (cf(G, r, s, 'product') if (r, s) in done else 0.0))",
                ]},
        },
    },
    # the stoichiometric matrix S = S+ - S- (one numpy subtraction on top of build_S_minus_plus, which is used through its contract; its two index maps are
    # ghost exports): entry (row of a species node, column of a reaction node) = produced minus consumed
    ST + "::build_S": {
        "params": {"crn": "obj:DiGraph"},
        "vars": {"S_minus": "dict[tuple[int,int],real]", "S_plus": "dict[tuple[int,int],real]", "S": "dict[tuple[int,int],real]"},
        "returns": "tuple[list[str],list[str],dict[tuple[int,int],real]]",
        "requires": ["forall(crn.nodes, lambda n: not (is_species(crn, n) and rx_like(crn, n)))",
                     "forall(crn.edges, lambda u, v: isinstance(crn[u][v].get('stoich', 1.0), (int, float)) and not isinstance(crn[u][v].get('stoich', 1.0), bool))"],
        "modifies": [],
        "raises": {"ValueError": "not exists(crn.nodes, lambda n: is_species(crn, n)) or not exists(crn.nodes, lambda n: is_reaction(crn, n))"},
        "ensures": ["shape_ok(result[2], len(result[0]), len(result[1]))"],
        "ghost_ensures": [
            "forall('any', lambda n: (n in build_S_minus_plus__species_index) == (crn.has_node(n) and is_species(crn, n)))",
            "forall('any', lambda n: (n in build_S_minus_plus__reaction_index) == (crn.has_node(n) and is_reaction(crn, n)))",
            "forall((build_S_minus_plus__species_index, build_S_minus_plus__reaction_index), lambda s, r: "
            "       result[2][(build_S_minus_plus__species_index[s], build_S_minus_plus__reaction_index[r])] == "
            "       (cf(crn, s, r, 'product') + cf(crn, r, s, 'product')) - (cf(crn, s, r, 'reactant') + cf(crn, r, s, 'reactant')))",
        ],
    },
    # the two matrices agree: for the bipartite view G that the exporter builds from a network H (C16's postcondition `is_view`), the S-entry of a
    # species / reaction pair as characterised above equals the network's own incidence entry, produced minus consumed
    "lemma::S_agrees_with_incidence": {
        "params": {"G": "obj:DiGraph", "H": "obj:CRNHyperGraph", "with_eid": "bool"},
        "requires": ["wf(H)", "is_view(G, H, with_eid)",
                     "forall(G.edges, lambda u, v: isinstance(G[u][v].get('stoich', 1.0), (int, float)) and not isinstance(G[u][v].get('stoich', 1.0), bool))",
                     "forall(('str', 'str'), lambda a, b: implies(f'S:{a}' == f'S:{b}', a == b))", "forall(('str', 'str'), lambda a, b: implies(f'R:{a}' == f'R:{b}', a == b))",
                     "forall(('str', 'str'), lambda a, b: f'S:{a}' != f'R:{b}')"],
        "ensures": [
            "forall((H.species, H.edges), lambda s, e: (cf(G, sp(s), rx(e), 'product') + cf(G, rx(e), sp(s), 'product')) "
            "       - (cf(G, sp(s), rx(e), 'reactant') + cf(G, rx(e), sp(s), 'reactant')) == P(H, e, s) - R(H, e, s))",
        ],
    },
}
