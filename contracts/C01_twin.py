"""C01 bounded stand-in / replay: ITS construction and decomposition contracts run natively."""
import base64, pickle, random
import importlib

from synkit.Graph.ITS.its_construction import ITSConstruction
from pyvc import gen

DEC = importlib.import_module("synkit.Graph.ITS.its_decompose")
KEY_C = "synkit/Graph/ITS/its_construction.py::ITSConstruction.construct"
KEY_D = "synkit/Graph/ITS/its_decompose.py::its_decompose"
LABELS = ["element", "aromatic", "hcount", "charge"]


def enc(x):
    return base64.b64encode(pickle.dumps(x)).decode()


def same_side(A, B):
    if set(A.nodes) != set(B.nodes):
        return False
    for n in A.nodes:
        if any(A.nodes[n].get(k) != B.nodes[n].get(k) for k in LABELS):
            return False
    ea = {frozenset(e): A.edges[e]["order"] for e in A.edges}
    eb = {frozenset(e): B.edges[e]["order"] for e in B.edges}
    return ea == eb


def check_pair(tw, G, H, fails, tags):
    nontrivial = 0
    for store in (False, True):
        for bal in (False, True):
            for ign in (False, True):
                out, viol = tw.check_call(KEY_C, lambda G, H, ignore_aromaticity, balance_its, store, node_attrs, edge_attrs, attributes_defaults:
                                          ITSConstruction.construct(G, H, ignore_aromaticity=ignore_aromaticity, balance_its=balance_its,
                                                                    store=store, node_attrs=node_attrs, edge_attrs=edge_attrs,
                                                                    attributes_defaults=attributes_defaults),
                                          dict(G=G, H=H, ignore_aromaticity=ign, balance_its=bal, store=store, node_attrs=None,
                                               edge_attrs=None, attributes_defaults=None))
                if viol:
                    fails.append({"function": "ITSConstruction.construct", "violations": viol, "pickle": enc((G, H)),
                                  "args": {"store": store, "balance_its": bal, "ignore_aromaticity": ign}, "tags": tags})
                    continue
                if out[0] != "return":
                    continue
                I = out[1]
                if I.number_of_edges():
                    nontrivial = 1
                out2, viol2 = tw.check_call(KEY_D, lambda its_graph, nodes_share, edges_share: DEC.its_decompose(its_graph, nodes_share, edges_share),
                                            dict(its_graph=I, nodes_share="typesGH", edges_share="order"))
                if out2[0] == "return" and set(G.nodes) == set(H.nodes):
                    G2, H2 = out2[1]
                    if not (same_side(G2, G) and same_side(H2, H)):
                        viol2 = list(viol2) + ["lemma round_trip: its_decompose(ITS(G,H)) != (G,H)"]
                if viol2:
                    fails.append({"function": "its_decompose", "violations": viol2, "pickle": enc((G, H)),
                                  "args": {"store": store, "balance_its": bal, "ignore_aromaticity": ign}, "tags": tags})
    return nontrivial


def run(tw, tier, seed, only=None):
    rng = random.Random(seed)
    fails, cases, nontriv = [], 0, 0
    for n in (1, 2):
        for same in (False, True):
            for G, H in gen.all_small_mol_pairs(n, same_labels=same):
                cases += 1
                nontriv += check_pair(tw, G, H, fails, {"kind": "exhaustive"})
    for G, H in gen.all_small_mol_pairs(3, elems=("C",), same_labels=True):
        cases += 1
        nontriv += check_pair(tw, G, H, fails, {"kind": "exhaustive-3"})
    exhaustive_n = cases
    samples = []
    for i in range(60 if tier == "quick" else 1500):
        G, H = gen.random_mol_pair(rng, 6 if tier == "quick" else 8, same_nodes=(i % 3 != 0))
        cases += 1
        nontriv += check_pair(tw, G, H, fails, {"kind": "random"})
        if len(samples) < 2:
            samples.append({"G": gen.graph_desc(G), "H": gen.graph_desc(H)})
        if len(fails) > 20:
            break
    return {"cases": cases, "nontrivial": nontriv, "failures": fails, "samples": samples, "exhaustive": False,
            "evaluations": tw.evaluations,
            "bound": "all reactant/product pairs on <= 2 shared atoms (2 elements, orders 1/2; %d pairs) + %d random pairs on <= %d atoms, "
                     "each under store x balance_its x ignore_aromaticity" % (exhaustive_n, cases - exhaustive_n, 6 if tier == "quick" else 8),
            "rule": "a case is non-trivial when the ITS has at least one bond"}


def replay(tw, desc):
    G, H = pickle.loads(base64.b64decode(desc["pickle"]))
    fails = []
    check_pair(tw, G, H, fails, {})
    return {"G": gen.graph_desc(G), "H": gen.graph_desc(H), "violations": [v for f in fails for v in f["violations"]]}
