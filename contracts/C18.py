"""C18 -- network canonical form is a complete invariant; automorphism data are exact (sidecar contracts)."""
from pyvc.rt import *  # noqa: F401,F403

PROPERTY = "C18"
USES_NX = True
CA = "synkit/CRN/Topo/canon.py"
AU = "synkit/CRN/Topo/automorphism.py"
CLASSES = {}
TRUSTED = ["A-builtins", "A-nx-graph", "A-vf2 (networkx DiGraphMatcher enumerates exactly the attribute-preserving isomorphisms)"]
ASSUMPTIONS = ["the individualisation-refinement search (_search/_refine/_sig/_label), the union-find orbit construction and the VF2 enumeration loop "
               "are outside the engine (recursion over nested lists, id()-keyed cache, generators): decided by the bounded twin only",
               "_refine keys its signature cache by id() of a temporary tuple: under A-id no contract can show the cache is never hit with a stale "
               "entry; on CPython 3.12 the slot of the freed tuple is taken by a live signature tuple before the next epoch, so no collision was "
               "observed (bounded evidence only)",
               "in the species view the stoichiometric attributes are called stoich_r/stoich_p, which the default edge_attr_keys (role, stoich) do not "
               "name: 'structure' there means adjacency and node kind, for the canonicaliser and the automorphism tool alike"]

FUNCTIONS = {
    # the attribute comparison handed to VF2 (nodes: node_attr_keys, arcs: role/stoich): equality of every selected attribute,
    # an attribute missing on both sides counts as equal, missing on one side as different
    AU + "::_node_match.match": {
        "closure": {"keys": "list[str]"},
        "params": {"a1": "dict[str,any]", "a2": "dict[str,any]"},
        "returns": "bool",
        "modifies": [],
        "ensures": ["result == forall(range(len(keys)), lambda i: a1.get(keys[i]) == a2.get(keys[i]))"],
        "loops": {1: {"inv": ["forall(range(done), lambda i: a1.get(keys[i]) == a2.get(keys[i]))"]}},
    },
    # permutations -> maps relative to the canonical order: one map per permutation of the right length, position by position
    CA + "::CRNCanonicalizer._maps_from_perms": {
        "static": True,
        "params": {"ref": "list[any]", "perms": "list[list[any]]"},
        "vars": {"maps": "list[dict[any,any]]", "idxs": "list[int]"},
        "returns": "list[dict[any,any]]",
        "requires": ["forall((range(len(ref)), range(len(ref))), lambda i, j: implies(i != j, not same(ref[i], ref[j])))"],
        "modifies": [],
        "ensures": ["len(result) <= len(perms)",
                    "implies(forall(range(len(perms)), lambda k: len(perms[k]) == len(ref)), len(result) == len(perms))"],
        "ghost_ensures": ["len(idxs) == len(result)",
                          "forall(range(len(result)), lambda k: 0 <= idxs[k] and idxs[k] < len(perms) and len(perms[idxs[k]]) == len(ref) "
                          "and forall(range(len(ref)), lambda i: same(result[k][ref[i]], perms[idxs[k]][i])))"],
        "loops": {1: {"ghost_init": ["idxs = []"], "ghost_step": ["if len(idxs) < len(maps):\n    idxs.append(__done__)"],
                      "inv": ["len(idxs) == len(maps)", "len(maps) <= done",
                              "implies(forall(range(done), lambda k: len(perms[k]) == len(ref)), len(maps) == done)",
                              "forall(range(len(maps)), lambda k: 0 <= idxs[k] and idxs[k] < done and len(perms[idxs[k]]) == len(ref) "
                              "and forall(range(len(ref)), lambda i: same(maps[k][ref[i]], perms[idxs[k]][i])))"]}},
    },
}
