"""C20 bounded stand-in / replay: siphon/trap tests, Petri-net firing and realizability on real networks."""
import itertools, random, importlib

from synkit.CRN.Petri.net import PetriNet
from synkit.CRN.Path.realizability import PathwayRealizability, hypergraph_to_pr_inputs
from synkit.CRN.Hypergraph.conversion import _as_bipartite
from synkit.CRN.Props.utils import _species_order, _split_species_reactions
from pyvc import gen

ST = importlib.import_module("synkit.CRN.Petri.structure")
K_SI = "synkit/CRN/Petri/structure.py::_is_siphon_indices"
K_TR = "synkit/CRN/Petri/structure.py::_is_trap_indices"
K_EN = "synkit/CRN/Petri/net.py::PetriNet.enabled"
K_FI = "synkit/CRN/Petri/net.py::PetriNet.fire"
K_MT = "synkit/CRN/Petri/net.py::PetriNet.marking_to_tuple"
K_MIN = "synkit/CRN/Petri/structure.py::_minimal_sets"


def defn_sets(rxns, species, kind):
    """inclusion-minimal non-empty siphons / traps straight from the definition"""
    good = []
    for k in range(1, len(species) + 1):
        for S in itertools.combinations(species, k):
            S = set(S)
            ok = True
            for r, p in rxns:
                produces = any(s in S for s in p)
                consumes = any(s in S for s in r)
                if kind == "siphon" and produces and not consumes:
                    ok = False
                if kind == "trap" and consumes and not produces:
                    ok = False
            if ok:
                good.append(S)
    return [S for S in good if not any(T < S for T in good)]


def check_network(tw, rxns, fails, tags, rng, extra=()):
    H = gen.build_crn(rxns)
    for x in extra:          # species registered in the network that take part in no reaction (isolated places)
        H.species.add(x)
    species = sorted(H.species)
    nontrivial = 0
    viol = []
    G = _as_bipartite(H)
    sns, labels, _ = _species_order(G)
    _, rnodes = _split_species_reactions(G)
    for k in range(0, len(sns) + 1):
        for combo in itertools.combinations(range(len(sns)), k):
            for key, fn in ((K_SI, ST._is_siphon_indices), (K_TR, ST._is_trap_indices)):
                out, v = tw.check_call(key, fn, dict(G=G, species_nodes_sorted=list(sns), reaction_nodes=list(rnodes), S_idx=set(combo)))
                if v:
                    fails.append({"function": key.split("::")[1], "violations": v, "rxns": rxns, "S": [labels[i] for i in combo], "tags": tags})
    for kind, fn in (("siphon", ST.find_siphons), ("trap", ST.find_traps)):
        got = sorted(sorted(s) for s in fn(H))
        want = sorted(sorted(s) for s in defn_sets(rxns, species, kind))
        if got:
            nontrivial = 1
        if got != want:
            fails.append({"function": "find_%ss" % kind, "violations": ["reported %s != minimal %ss by definition %s" % (got, kind, want)],
                          "rxns": rxns, "extra": list(extra), "tags": tags})
    if extra:
        return nontrivial
    # Petri net primitives and realizability
    verts, edges, flow = hypergraph_to_pr_inputs(H, flow={eid: rng.randint(0, 2) for eid in H.edges})
    pr = PathwayRealizability().load_hypergraph_and_flow(verts, edges, flow).build_petri_net_from_flow()
    net = pr.petri
    m = dict(pr.initial_marking)
    for s in verts:
        m[s] = rng.randint(0, 2)
    for tid in list(net.transitions) + ["nope"]:
        out, v = tw.check_call(K_EN, PetriNet.enabled, dict(self=net, marking=dict(m), tid=tid))
        out2, v2 = tw.check_call(K_FI, PetriNet.fire, dict(self=net, marking=dict(m), tid=tid))
        for vv, key in ((v, K_EN), (v2, K_FI)):
            if vv:
                fails.append({"function": key.split("::")[1], "violations": vv, "rxns": rxns, "marking": m, "tid": tid, "tags": tags})
    out, v = tw.check_call(K_MT, lambda self, m: list(PetriNet.marking_to_tuple(self, m)), dict(self=net, m=dict(m)))
    if v:
        fails.append({"function": "PetriNet.marking_to_tuple", "violations": v, "rxns": rxns, "tags": tags})
    ok, cert = pr.is_realizable(max_states=20000, max_depth=50)
    if ok:
        cur = dict(pr.initial_marking)
        bad = None
        for t in cert:
            tr = net.transitions[t]
            if any(cur.get(p, 0) < w for p, w in tr.pre.items()):
                bad = "certificate fires %s when it is not enabled" % t
                break
            for p, w in tr.pre.items():
                cur[p] = cur.get(p, 0) - w
            for p, w in tr.post.items():
                cur[p] = cur.get(p, 0) + w
            if any(x < 0 for x in cur.values()):
                bad = "negative count"
                break
        if bad is None:
            counts = {e: cert.count(e) for e in edges}
            if any(counts[e] != flow[e] for e in edges):
                bad = "certificate fires %s, flow prescribes %s" % (counts, flow)
            elif any(cur.get(s, 0) != 0 for s in verts):
                bad = "species counts do not return to zero: %s" % {s: cur.get(s, 0) for s in verts}
        if bad:
            fails.append({"function": "PathwayRealizability.is_realizable", "violations": ["certificate: " + bad], "rxns": rxns,
                          "flow": flow, "tags": tags})
    else:
        # independent exhaustive search (bounded): any ordering of the multiset of firings that stays non-negative?
        seqs = [e for e in edges for _ in range(flow[e])]
        if len(seqs) <= 6:
            found = False
            for perm in set(itertools.permutations(seqs)):
                cur = {s: 0 for s in verts}
                good = True
                for e in perm:
                    t, h = edges[e]
                    if any(cur.get(p, 0) < w for p, w in t.items()):
                        good = False
                        break
                    for p, w in t.items():
                        cur[p] -= w
                    for p, w in h.items():
                        cur[p] = cur.get(p, 0) + w
                if good and all(x == 0 for x in cur.values()):
                    found = True
                    break
            if found:
                fails.append({"function": "PathwayRealizability.is_realizable", "violations": ["reported unrealizable although an ordering exists"],
                              "rxns": rxns, "flow": flow, "tags": tags})
    return nontrivial


def realizability_case(rxns, flows, fails, tags):
    """verdict and certificate of is_realizable against an exhaustive search over all orderings of the firings"""
    H = gen.build_crn(rxns)
    eids = sorted(H.edges)
    flow = dict(zip(eids, flows))
    verts, edges, flow = hypergraph_to_pr_inputs(H, flow=flow)
    pr = PathwayRealizability().load_hypergraph_and_flow(verts, edges, flow).build_petri_net_from_flow()
    ok, cert = pr.is_realizable(max_states=20000, max_depth=50)
    seqs = [e for e in edges for _ in range(flow[e])]
    truth = False
    for perm in set(itertools.permutations(seqs)):
        cur = {s: 0 for s in verts}
        good = True
        for e in perm:
            t, h = edges[e]
            if any(cur.get(p, 0) < w for p, w in t.items()):
                good = False
                break
            for p, w in t.items():
                cur[p] -= w
            for p, w in h.items():
                cur[p] = cur.get(p, 0) + w
        if good and all(x == 0 for x in cur.values()):
            truth = True
            break
    if bool(ok) != truth:
        fails.append({"function": "PathwayRealizability.is_realizable", "violations": [
            "reported %s, exhaustive search over orderings says %s" % (ok, truth)], "rxns": rxns, "flow": flow, "tags": tags})


def petri_history(tw, rng, fails, tags):
    """a history of edits on one PetriNet (including re-defining a transition), enabled/fire checked after every edit"""
    net = PetriNet()
    places = ["A", "B", "C"]
    tids = ["t1", "t2"]
    for step in range(rng.randint(2, 6)):
        tid = rng.choice(tids)
        pre = {p: rng.randint(1, 2) for p in rng.sample(places, rng.randint(0, 2))}
        post = {p: rng.randint(1, 2) for p in rng.sample(places, rng.randint(0, 2))}
        net.add_transition(tid, pre, post)
        for _ in range(2):
            m = {p: rng.randint(0, 2) for p in places}
            for t in list(net.transitions):
                out, v = tw.check_call(K_EN, PetriNet.enabled, dict(self=net, marking=dict(m), tid=t))
                out2, v2 = tw.check_call(K_FI, PetriNet.fire, dict(self=net, marking=dict(m), tid=t))
                if v or v2:
                    fails.append({"function": "PetriNet.enabled" if v else "PetriNet.fire", "violations": list(v) + list(v2),
                                  "history_len": step + 1, "marking": m, "tid": t, "pre": net.transitions[t].pre, "tags": tags})
                    return


def run(tw, tier, seed, only=None):
    rng = random.Random(seed)
    fails, cases, nontriv, samples = [], 0, 0, []
    # realizability: all networks over 2 species, <= 2 reactions, coefficients {1,2}, flows in {1,2}
    for rxns in gen.small_networks(2, 2, (1, 2), "AB"):
        for flows in itertools.product((1, 2), repeat=len(rxns)):
            if sum(flows) > 4:
                continue
            cases += 1
            realizability_case(rxns, flows, fails, {"kind": "realizability-exhaustive"})
        if len(fails) > 20:
            break
    for _ in range(60 if tier == "quick" else 600):
        cases += 1
        petri_history(tw, rng, fails, {"kind": "petri-history"})
    for rxns in gen.small_networks(3, 2 if tier == "quick" else 3, (1,)):
        cases += 1
        nontriv += check_network(tw, rxns, fails, {"kind": "exhaustive"}, rng)
        if len(fails) > 20:
            break
    # isolated species (registered, in no reaction) and open reactions (empty side): both are siphons / traps in their own right
    open_nets = [[({"A": 1}, {"B": 1}), ({"B": 1}, {"A": 1})], [({}, {"A": 1}), ({"A": 1}, {"B": 1}), ({"B": 1}, {})], [({"A": 1}, {"B": 1})],
                 [({"A": 1, "B": 1}, {"C": 1})], [({}, {"A": 1})], [({"A": 1}, {})], [({"A": 2}, {"B": 1}), ({"B": 1}, {"C": 1})]]
    for rxns in open_nets + [gen.random_network(rng, 4, 3, 2) for _ in range(10 if tier == "quick" else 100)]:
        for extra in (("X",), ("X", "Y"), ()):
            cases += 1
            nontriv += check_network(tw, rxns, fails, {"kind": "isolated/open"}, rng, extra=extra)
    ex = cases
    for _ in range(40 if tier == "quick" else 600):
        rxns = gen.random_network(rng, 5, 5, 2)
        cases += 1
        nontriv += check_network(tw, rxns, fails, {"kind": "random"}, rng)
        if len(samples) < 2:
            samples.append(rxns)
        if len(fails) > 20:
            break
    # the minimality filter under proof, natively on random families of small integer sets (duplicates, chains, incomparable sets, the empty set)
    if K_MIN in tw.functions:
        for _ in range(150 if tier == "quick" else 1500):
            cand = [set(rng.sample(range(5), rng.randint(0, 4))) for _ in range(rng.randint(0, 7))]
            out, v = tw.check_call(K_MIN, ST._minimal_sets, dict(candidates=[set(c) for c in cand]))
            cases += 1
            want = [c for c in cand if not any(d < c for d in cand)]
            got = out[1] if out[0] == "return" else None
            if v or got is None or sorted(map(sorted, got)) != sorted(map(sorted, {frozenset(c) for c in want})):
                fails.append({"function": "_minimal_sets", "violations": list(v) or ["result %s, minimal candidates %s" % (got, want)], "candidates": [sorted(c) for c in cand], "tags": {}})
    return {"cases": cases, "nontrivial": nontriv, "failures": fails, "samples": samples, "exhaustive": False,
            "evaluations": tw.evaluations,
            "bound": "all networks over 3 species with <= %d unit-coefficient reactions (%d) and all their species subsets + %d random networks <= 5 species; "
                     "random flows 0..2, certificates replayed, unrealizable verdicts checked against all orderings when <= 6 firings" % (
                         2 if tier == "quick" else 3, ex, cases - ex),
            "rule": "a network is non-trivial when it has at least one siphon or trap"}


def replay(tw, desc):
    fails = []
    check_network(tw, [tuple(x) for x in desc["rxns"]], fails, {}, random.Random(0), extra=tuple(desc.get("extra", ())))
    return {"rxns": desc["rxns"], "violations": [v for f in fails for v in f["violations"]]}
