"""C03 -- every reaction proposed by rule application is a genuine instance of the rule (sidecar contracts)."""
from pyvc.rt import *  # noqa: F401,F403

PROPERTY = "C03"
CLASSES = {}
FUNCTIONS = {}
BOUNDED_ONLY = True
