"""C03 -- every reaction proposed by rule application is a genuine instance of the rule (sidecar contracts)."""
from pyvc.rt import *  # noqa: F401,F403

PROPERTY = "C03"
SR = "synkit/Synthesis/Reactor/syn_reactor.py"
GU = "synkit/Graph/utils.py"
USES_NX = True
CLASSES = {}
TRUSTED = ["A-builtins (tuples as values; slices with constant bounds; max over a node view)", "A-nx-graph (copy, add_node / add_edge with **attrs)"]
ASSUMPTIONS = ["only the per-atom merge step (_node_glue) and the wildcard extension (add_wildcard_subgraph_for_unmapped, copy mode, integer node ids) are under contract; "
               "matching, edge merging, explicit-hydrogen rendering and SMILES output are decided by the bounded twin"]


def tgh_ok(t):
    """a typesGH descriptor: two 5-tuples (element, aromatic, hcount, charge, neighbours) with integer hydrogen counts"""
    return isinstance(t, tuple) and isinstance(t[0], tuple) and isinstance(t[1], tuple) and len(t) == 2 and len(t[0]) == 5 and len(t[1]) == 5 and isinstance(t[0][2], int) and isinstance(t[1][2], int) \
        and not isinstance(t[0][2], bool) and not isinstance(t[1][2], bool)


def is_index(n):
    return isinstance(n, int) and not isinstance(n, bool)


def unmapped_l(L, mapping, l):
    return L.has_node(l) and l not in mapping


FUNCTIONS = {
    # merging a template atom onto a substrate atom: the reactant side stays the substrate's, the product side gets exactly the
    # template's hydrogen change and the template's product charge; element and aromaticity are never taken from the template
    SR + "::SynReactor._node_glue": {
        "static": True,
        "params": {"host_n": "dict[str,any]", "pat_n": "dict[str,any]", "key": "const:'typesGH'"},
        "returns": "none",
        "requires": ["'typesGH' in host_n and 'typesGH' in pat_n", "tgh_ok(host_n['typesGH'])", "tgh_ok(pat_n['typesGH'])",
                     "pat_n['typesGH'][0][0] != '*' and pat_n['typesGH'][1][0] != '*'"],
        "modifies": [], "mutates": ["host_n"],
        "ensures": [
            "same(host_n['typesGH'][0], old(host_n['typesGH'][0]))",
            "same(host_n['typesGH'][1][0], old(host_n['typesGH'][1][0])) and same(host_n['typesGH'][1][1], old(host_n['typesGH'][1][1]))",
            "host_n['typesGH'][1][2] == old(host_n['typesGH'][0][2]) - (pat_n['typesGH'][0][2] - pat_n['typesGH'][1][2])",
            "same(host_n['typesGH'][1][3], pat_n['typesGH'][1][3])",
            "same(host_n['typesGH'][1][4], old(host_n['typesGH'][1][4]))",
            "len(host_n['typesGH']) == 2 and len(host_n['typesGH'][0]) == 5 and len(host_n['typesGH'][1]) == 5",
            "forall('str', lambda k: implies(k != 'typesGH' and k != 'h_pairs', (k in host_n) == old(k in host_n) and same(host_n.get(k), old(host_n.get(k)))))",
            "implies('h_pairs' in pat_n, same(host_n['h_pairs'], pat_n['h_pairs']))",
            "implies('h_pairs' not in pat_n, ('h_pairs' in host_n) == old('h_pairs' in host_n) and same(host_n.get('h_pairs'), old(host_n.get('h_pairs'))))",
        ],
    },
    # the wildcard extension used when template atoms stay unmapped (partial / wildcard mode): the substrate's atoms and bonds all survive
    # untouched, every unmapped template atom gets a NEW wildcard atom with an id the substrate does not use, different atoms different ids
    GU + "::add_wildcard_subgraph_for_unmapped": {
        "params": {"G": "obj:Graph", "L": "obj:Graph", "mapping": "dict[any,any]", "edge_keys": "list[str]", "inplace": "const:False"},
        "vars": {"L_to_G": "dict[any,any]", "unmapped": "set[any]", "edge_data": "dict[str,any]"},
        "returns": "tuple[obj:Graph,dict[any,any]]",
        "requires": ["forall(G.nodes, lambda n: is_index(n))",
                     "forall(mapping, lambda k: G.has_node(mapping[k]))",
                     "forall(L.edges, lambda u, v: forall(range(len(edge_keys)), lambda i: (not isinstance(L[u][v].get(edge_keys[i]), tuple)) or len(L[u][v].get(edge_keys[i])) > 0))"],
        "modifies": [],
        "ensures": [
            "is_fresh(result[0])",
            # the atoms of G are all there, untouched; its bonds are all there
            "forall(G.nodes, lambda n: result[0].has_node(n) and same(result[0].nodes[n], G.nodes[n]))",
            "forall(G.edges, lambda u, v: result[0].has_edge(u, v))",
            # the returned map extends the given one to every pattern atom
            "forall(mapping, lambda k: k in result[1] and same(result[1][k], mapping[k]))",
            "forall(L.nodes, lambda l: l in result[1])",
            # every pattern atom that had no image gets a NEW wildcard atom (an id that G does not use), different ones get different atoms
            "forall(L.nodes, lambda l: implies(l not in mapping, is_index(result[1][l]) and not G.has_node(result[1][l]) and result[0].has_node(result[1][l]) "
            "       and result[0].nodes[result[1][l]].get('element') == '*'))",
            "forall((L.nodes, L.nodes), lambda a, b: implies(a not in mapping and b not in mapping and not same(a, b), result[1][a] != result[1][b]))",
            # every bond of the pattern is present between the images of its ends
            "forall(L.edges, lambda u, v: result[0].has_edge(result[1][u], result[1][v]))",
        ],
        "loops": {
            1: {"modifies": ["G_ext.nodes", "G_ext.nattr"],
                "inv": [
                    "is_index(next_id) and forall(G_ext.nodes, lambda n: is_index(n) and n < next_id)",
                    "forall(G.nodes, lambda n: G_ext.has_node(n) and same(G_ext.nodes[n], G.nodes[n]))",
                    "forall(('any', 'any'), lambda u, v: G_ext.has_edge(u, v) == G.has_edge(u, v))",
                    "forall(mapping, lambda k: k in L_to_G and same(L_to_G[k], mapping[k]))",
                    "forall('any', lambda k: (k in L_to_G) == (k in mapping or k in done))",
                    "forall(done, lambda l: is_index(L_to_G[l]) and L_to_G[l] < next_id and not G.has_node(L_to_G[l]) and G_ext.has_node(L_to_G[l]) "
                    "       and G_ext.nodes[L_to_G[l]].get('element') == '*')",
                    "forall((done, done), lambda a, b: implies(not same(a, b), L_to_G[a] != L_to_G[b]))",
                    "forall(L_to_G, lambda k: G_ext.has_node(L_to_G[k]))",
                ]},
            2: {"modifies": ["G_ext.nodes", "G_ext.nattr", "G_ext.adj", "G_ext.eattr"],
                "inv": [
                    "forall('any', lambda n: G_ext.has_node(n) == at_entry(G_ext.has_node(n)))",
                    "forall(G_ext.nodes, lambda n: same(G_ext.nodes[n], at_entry(G_ext.nodes[n])))",
                    "forall(('any', 'any'), lambda u, v: implies(at_entry(G_ext.has_edge(u, v)), G_ext.has_edge(u, v)))",
                    "forall(L_to_G, lambda k: G_ext.has_node(L_to_G[k]))",
                    # the map built by the first loop is only read here
                    "forall(mapping, lambda k: k in L_to_G and same(L_to_G[k], mapping[k]))",
                    "forall('any', lambda k: (k in L_to_G) == (k in mapping or unmapped_l(L, mapping, k)))",
                    "forall(L.nodes, lambda l: implies(l not in mapping, is_index(L_to_G[l]) and not G.has_node(L_to_G[l]) and G_ext.has_node(L_to_G[l]) "
                    "       and G_ext.nodes[L_to_G[l]].get('element') == '*'))",
                    "forall((L.nodes, L.nodes), lambda a, b: implies(a not in mapping and b not in mapping and not same(a, b), L_to_G[a] != L_to_G[b]))",
                    "forall(G.nodes, lambda n: G_ext.has_node(n) and same(G_ext.nodes[n], G.nodes[n]))",
                    "forall(G.edges, lambda u, v: G_ext.has_edge(u, v))",
                    "forall(L.nodes, lambda l: l in L_to_G)",
                    "forall(done, lambda u, v: G_ext.has_edge(L_to_G[u], L_to_G[v]))",
                ]},
            3: {"modifies": [], "inv": ["True"]},
        },
    },
}
