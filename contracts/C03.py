"""C03 -- every reaction proposed by rule application is a genuine instance of the rule (sidecar contracts)."""
from pyvc.rt import *  # noqa: F401,F403

PROPERTY = "C03"
SR = "synkit/Synthesis/Reactor/syn_reactor.py"
CLASSES = {}
TRUSTED = ["A-builtins (tuples as values; slices with constant bounds)"]
ASSUMPTIONS = ["only the per-atom merge step is under contract; matching, edge merging, explicit-hydrogen rendering and SMILES output are decided by the bounded twin"]


def tgh_ok(t):
    """a typesGH descriptor: two 5-tuples (element, aromatic, hcount, charge, neighbours) with integer hydrogen counts"""
    return isinstance(t, tuple) and isinstance(t[0], tuple) and isinstance(t[1], tuple) and len(t) == 2 and len(t[0]) == 5 and len(t[1]) == 5 and isinstance(t[0][2], int) and isinstance(t[1][2], int) \
        and not isinstance(t[0][2], bool) and not isinstance(t[1][2], bool)


FUNCTIONS = {
    # merging a template atom onto a substrate atom: the reactant side stays the substrate's, the product side gets exactly the
    # template's hydrogen change and the template's product charge; element and aromaticity are never taken from the template
    SR + "::SynReactor._node_glue": {
        "static": True,
        "params": {"host_n": "dict[str,any]", "pat_n": "dict[str,any]", "key": "const:'typesGH'"},
        "returns": "none",
        "requires": ["'typesGH' in host_n and 'typesGH' in pat_n", "tgh_ok(host_n['typesGH'])", "tgh_ok(pat_n['typesGH'])",
                     "pat_n['typesGH'][0][0] != '*' and pat_n['typesGH'][1][0] != '*'"],
        "modifies": [], "mutates": ["host_n"],
        "ensures": [
            "same(host_n['typesGH'][0], old(host_n['typesGH'][0]))",
            "same(host_n['typesGH'][1][0], old(host_n['typesGH'][1][0])) and same(host_n['typesGH'][1][1], old(host_n['typesGH'][1][1]))",
            "host_n['typesGH'][1][2] == old(host_n['typesGH'][0][2]) - (pat_n['typesGH'][0][2] - pat_n['typesGH'][1][2])",
            "same(host_n['typesGH'][1][3], pat_n['typesGH'][1][3])",
            "same(host_n['typesGH'][1][4], old(host_n['typesGH'][1][4]))",
            "len(host_n['typesGH']) == 2 and len(host_n['typesGH'][0]) == 5 and len(host_n['typesGH'][1]) == 5",
            "forall('str', lambda k: implies(k != 'typesGH' and k != 'h_pairs', (k in host_n) == old(k in host_n) and same(host_n.get(k), old(host_n.get(k)))))",
            "implies('h_pairs' in pat_n, same(host_n['h_pairs'], pat_n['h_pairs']))",
            "implies('h_pairs' not in pat_n, ('h_pairs' in host_n) == old('h_pairs' in host_n) and same(host_n.get('h_pairs'), old(host_n.get('h_pairs'))))",
        ],
    },
}
