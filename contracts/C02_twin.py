"""C02 bounded stand-in / replay: the contracts of contracts/C02.py run natively on real ITS graphs."""
import pickle, base64, random

import importlib
DEC = importlib.import_module("synkit.Graph.ITS.its_decompose")
from synkit.Graph.Context.radius_expand import RadiusExpand
from pyvc import gen

KEY_RC = "synkit/Graph/ITS/its_decompose.py::get_rc"
KEY_K = "synkit/Graph/Context/radius_expand.py::RadiusExpand.extract_k"
KEY_INC = "synkit/Graph/ITS/its_decompose.py::_should_include_edge"
KEY_NN = "synkit/Graph/Context/radius_expand.py::RadiusExpand.find_nearest_neighbors"
DEFAULT_KEYS = ["element", "charge", "typesGH", "atom_map"]


def enc(G):
    return base64.b64encode(pickle.dumps(G)).decode()


def check_graph(tw, G, fails, tags):
    n_nontrivial = 0
    for keep in (False, True):
        out, viol = tw.check_call(KEY_RC, lambda ITS, element_key, bond_key, standard_key, disconnected, keep_mtg:
                                  DEC.get_rc(ITS, element_key, bond_key, standard_key, disconnected, keep_mtg),
                                  dict(ITS=G, element_key=list(DEFAULT_KEYS), bond_key="order", standard_key="standard_order",
                                       disconnected=False, keep_mtg=keep))
        if out[0] == "return" and out[1].number_of_edges() > 0:
            n_nontrivial = 1
            rc = out[1]
            rc2 = DEC.get_rc(rc, keep_mtg=keep)
            if gen.graph_dump(rc2) != gen.graph_dump(rc):
                viol = list(viol) + ["lemma centre_of_centre: get_rc(get_rc(I)) != get_rc(I)"]
        if viol:
            fails.append({"function": "get_rc", "violations": viol, "graph": gen.graph_desc(G), "pickle": enc(G),
                          "args": {"keep_mtg": keep}, "tags": tags})
    prev = None
    for k in (0, 1, 2, 3):
        out, viol = tw.check_call(KEY_K, lambda its, n_knn: RadiusExpand.extract_k(its, n_knn), dict(its=G, n_knn=k))
        if out[0] == "return":
            cur = out[1]
            if prev is not None and not (set(prev.nodes) <= set(cur.nodes) and
                                         {frozenset(e) for e in prev.edges} <= {frozenset(e) for e in cur.edges}):
                viol = list(viol) + ["lemma context_nested: context(%d) not within context(%d)" % (k - 1, k)]
            prev = cur
        if viol:
            fails.append({"function": "RadiusExpand.extract_k", "violations": viol, "graph": gen.graph_desc(G), "pickle": enc(G),
                          "args": {"n_knn": k}, "tags": tags})
    return n_nontrivial


def run(tw, tier, seed, only=None):
    rng = random.Random(seed)
    fails, cases, nontriv = [], 0, 0
    samples = []
    for std in (None, 0, 0.0, 1, -1, 0.5, -0.5, 1e-12, True, False, "1", (1, 2)):
        for mtg in (None, True, False, 1, 0):
            for keep in (True, False):
                out, viol = tw.check_call(KEY_INC, DEC._should_include_edge, dict(std=std, is_mtg_attr=mtg, keep_mtg=keep))
                cases += 1
                if viol:
                    fails.append({"function": "_should_include_edge", "violations": viol, "args": {"std": repr(std), "mtg": repr(mtg), "keep": keep},
                                  "tags": {}})
    nmax = 3
    for n in range(1, nmax + 1):
        for G in gen.all_small_its(n):
            cases += 1
            nontriv += check_graph(tw, G, fails, {"kind": "exhaustive"})
            if len(fails) > 20:
                break
    exhaustive_n = cases
    for i in range(150 if tier == "quick" else 2000):
        G = gen.random_its(rng, 7 if tier == "quick" else 9)
        cases += 1
        nontriv += check_graph(tw, G, fails, {"kind": "random"})
        if len(samples) < 2:
            samples.append(gen.graph_desc(G))
        if len(fails) > 20:
            break
    return {"cases": cases, "nontrivial": nontriv, "failures": fails, "samples": samples, "exhaustive": False,
            "evaluations": tw.evaluations,
            "bound": "all ITS graphs on <= %d atoms over 2 elements x 4 order pairs (%d cases incl. the include-rule grid) + %d random ITS graphs <= %d atoms; "
                     "keep_mtg on/off, radii 0..3" % (nmax, exhaustive_n, cases - exhaustive_n, 7 if tier == "quick" else 9),
            "rule": "a case is non-trivial when its reaction centre has at least one bond"}


def replay(tw, desc):
    G = pickle.loads(base64.b64decode(desc["pickle"]))
    fails = []
    check_graph(tw, G, fails, {})
    return {"graph": desc.get("graph"), "violations": [v for f in fails for v in f["violations"]], "function": desc.get("function")}
