"""C19 -- complexes, linkage classes and deficiency follow their definitions (sidecar contracts)."""
from pyvc.rt import *  # noqa: F401,F403

PROPERTY = "C19"
QUICK_TIMEOUT = 45          # _complex_vectors has slow (10-30 CPU-second) obligations; deterministic under CPU-time budgets
THOROUGH_TIMEOUT = 120
USES_NX = True
UT = "synkit/CRN/Props/utils.py"
DF = "synkit/CRN/Props/deficiency.py"
CLASSES = {"DeficiencyAnalyzer": {"file": DF, "fields": {}}}
TRUSTED = ["A-nx-graph", "A-builtins (sorted: permutation ordered by key, stable; str() of a label uninterpreted)"]
ASSUMPTIONS = ["A-linalg: exact rank (floating point / SVD tolerances are not modelled)",
               "linkage classes, weak reversibility, the rank and the deficiency formula are checked by the bounded twin against an "
               "independent exact computation; proved: the species/reaction ordering layer and the complex construction (_complex_vectors)"]
NOT_APPLICABLE_CLAUSES = ["deficiency >= 0 and sum of linkage-class deficiencies <= deficiency are theorems about the defined "
                          "quantities (Feinberg); not re-proved, checked bounded with exact ranks"]


def is_species(G, n):
    return G.nodes[n].get("kind") == "species" or G.nodes[n].get("bipartite", None) == 0


def is_reaction(G, n):
    return (not is_species(G, n)) and (G.nodes[n].get("kind") == "reaction" or G.nodes[n].get("bipartite", None) == 1)


def coef(G, a, b, role):
    """contribution of the arc a -> b (if present, with that role) to a complex vector"""
    return int(G[a][b].get("stoich", 1)) if (G.has_edge(a, b) and G[a][b].get("role") == role) else 0


def Lc(G, r, s):
    """reactant coefficient of species s in reaction r (arcs in either direction carry a role)"""
    return coef(G, s, r, "reactant") + coef(G, r, s, "reactant")


def Rc(G, r, s):
    return coef(G, s, r, "product") + coef(G, r, s, "product")


def is_lvec(vec, G, r, sn, n):
    return forall(range(n), lambda i: vec[i] == Lc(G, r, sn[i]))


def is_rvec(vec, G, r, sn, n):
    return forall(range(n), lambda i: vec[i] == Rc(G, r, sn[i]))


def is_index(n):
    return isinstance(n, int) and not isinstance(n, bool)


def reg_ok(idx_map, complexes, CG):
    """the list of complexes and the index map are mutually inverse; the complex graph has one node per list position"""
    return forall(range(len(complexes)), lambda k: complexes[k] in idx_map and idx_map[complexes[k]] == k) \
        and forall(idx_map, lambda v: 0 <= idx_map[v] and idx_map[v] < len(complexes) and same(complexes[idx_map[v]], v)) \
        and forall('any', lambda n: CG.has_node(n) == (is_index(n) and 0 <= n and n < len(complexes)))


def label_of(G, n):
    return str(G.nodes[n].get("label", n))


FUNCTIONS = {
    UT + "::_split_species_reactions": {
        "params": {"G": "obj:DiGraph"},
        "vars": {"species_nodes": "list[any]", "reaction_nodes": "list[any]"},
        "returns": "tuple[list[any],list[any]]",
        "modifies": [],
        "raises": {"ValueError": "not exists(G.nodes, lambda n: is_species(G, n)) or not exists(G.nodes, lambda n: is_reaction(G, n))"},
        "ensures": [
            "forall('any', lambda n: (n in result[0]) == (G.has_node(n) and is_species(G, n)))",
            "forall('any', lambda n: (n in result[1]) == (G.has_node(n) and is_reaction(G, n)))",
            "forall((range(len(result[0])), range(len(result[0]))), lambda i, j: implies(i != j, not same(result[0][i], result[0][j])))",
            "forall((range(len(result[1])), range(len(result[1]))), lambda i, j: implies(i != j, not same(result[1][i], result[1][j])))",
        ],
        "loops": {1: {"inv": [
            "forall('any', lambda n: (n in species_nodes) == (n in done and is_species(G, n)))",
            "forall('any', lambda n: (n in reaction_nodes) == (n in done and is_reaction(G, n)))",
            "forall((range(len(species_nodes)), range(len(species_nodes))), lambda i, j: implies(i != j, not same(species_nodes[i], species_nodes[j])))",
            "forall((range(len(reaction_nodes)), range(len(reaction_nodes))), lambda i, j: implies(i != j, not same(reaction_nodes[i], reaction_nodes[j])))",
        ]}},
    },
    UT + "::_species_order": {
        "params": {"G": "obj:DiGraph"},
        "vars": {"species_labels": "list[str]", "species_index": "dict[any,int]"},
        "returns": "tuple[list[any],list[str],dict[any,int]]",
        "modifies": [],
        "raises": {"ValueError": "not exists(G.nodes, lambda n: is_species(G, n)) or not exists(G.nodes, lambda n: is_reaction(G, n))"},
        "ensures": [
            # the ordered species nodes are exactly the species nodes, each once
            "forall('any', lambda n: (n in result[0]) == (G.has_node(n) and is_species(G, n)))",
            "forall((range(len(result[0])), range(len(result[0]))), lambda i, j: implies(i != j, not same(result[0][i], result[0][j])))",
            # labels and index follow that order
            "len(result[1]) == len(result[0])",
            "len(result[2]) == len(result[0])",
            "forall(range(len(result[0])), lambda i: result[1][i] == label_of(G, result[0][i]) and result[2][result[0][i]] == i)",
            "forall('any', lambda n: (n in result[2]) == exists(range(len(result[0])), lambda i: same(result[0][i], n)))",
            # ordered by label
            "forall((range(len(result[0])), range(len(result[0]))), lambda i, j: implies(i < j, result[1][i] <= result[1][j]))",
        ],
        "loops": {1: {"inv": [
            "len(species_labels) == done",
            "forall((range(len(species_nodes_sorted)), range(len(species_nodes_sorted))), lambda i, j: implies(i != j, not same(species_nodes_sorted[i], species_nodes_sorted[j])))",
            "len(species_index) == done",
            "forall(range(done), lambda i: species_labels[i] == label_of(G, species_nodes_sorted[i]) and species_index[species_nodes_sorted[i]] == i)",
            "forall('any', lambda n: (n in species_index) == exists(range(done), lambda i: same(species_nodes_sorted[i], n)))",
        ]}},
    },
    DF + "::DeficiencyAnalyzer._complex_vectors": {
        "params": {"G": "obj:DiGraph"},
        "vars": {"idx_map": "dict[list[int],int]", "complexes": "list[list[int]]", "lhs": "list[int]", "rhs": "list[int]", "lix": "list[int]", "rix": "list[int]"},
        "returns": "tuple[list[list[int]],dict[list[int],int],obj:DiGraph]",
        "requires": ["exists(G.nodes, lambda n: is_species(G, n))", "exists(G.nodes, lambda n: is_reaction(G, n))",
                     "forall(G.edges, lambda a, b: isinstance(G[a][b].get('stoich', 1), int) and not isinstance(G[a][b].get('stoich', 1), bool))",
                     "forall(G.nodes, lambda r: not G.has_edge(r, r))"],
        "modifies": [],
        "ensures": ["is_fresh(result[2])", "reg_ok(result[1], result[0], result[2])"],
        # every reaction is represented by its two coefficient vectors, joined by an arc; the complex graph has no other arc
        "ghost_ensures": [
            "len(lix) == len(reaction_nodes) and len(rix) == len(reaction_nodes)",
            "forall(range(len(reaction_nodes)), lambda j: 0 <= lix[j] and lix[j] < len(result[0]) and 0 <= rix[j] and rix[j] < len(result[0]) and result[2].has_edge(lix[j], rix[j]))",
            "forall(range(len(reaction_nodes)), lambda j: is_lvec(result[0][lix[j]], G, reaction_nodes[j], _species_nodes, n_s))",
            "forall(range(len(reaction_nodes)), lambda j: is_rvec(result[0][rix[j]], G, reaction_nodes[j], _species_nodes, n_s))",
            "forall(result[2].edges, lambda a, b: exists(range(len(reaction_nodes)), lambda j: same(a, lix[j]) and same(b, rix[j])))",
            # ... and every complex of the list is the reactant or the product complex of some reaction
            "forall(range(len(result[0])), lambda k: exists(range(len(reaction_nodes)), lambda j: lix[j] == k or rix[j] == k))",
        ],
        "loops": {
            1: {"modifies": ["CG.nodes", "CG.nattr", "CG.adj", "CG.eattr"],
                "ghost_init": ["lix = []", "rix = []"],
                "ghost_step": ["lix.append(u_idx)", "rix.append(v_idx)"],
                "facts": [
                    "n_s == len(_species_nodes)",
                    "forall(range(n_s), lambda i: _species_nodes[i] in species_index and species_index[_species_nodes[i]] == i)",
                    "forall(species_index, lambda n: 0 <= species_index[n] and species_index[n] < n_s and same(_species_nodes[species_index[n]], n))",
                    "forall(range(len(reaction_nodes)), lambda j: G.has_node(reaction_nodes[j]) and reaction_nodes[j] not in species_index)",
                ],
                "step_hints": [
                    # the two vectors handed to add_complex are exactly the reactant / product coefficient vectors of the reaction
                    "forall(range(n_s), lambda i: lhs[i] == Lc(G, r, _species_nodes[i]))",
                    "forall(range(n_s), lambda i: rhs[i] == Rc(G, r, _species_nodes[i]))",
                    "len(y) == n_s and len(y_prime) == n_s",
                    "forall(range(n_s), lambda i: y[i] == lhs[i] and y_prime[i] == rhs[i])",
                    "is_lvec(y, G, r, _species_nodes, n_s)",
                    "is_rvec(y_prime, G, r, _species_nodes, n_s)",
                    # the two registrations (add_complex is used through its contract) compose
                    "len(complexes) >= at_iter(len(complexes))",
                    "forall(range(at_iter(len(complexes))), lambda k: same(complexes[k], at_iter(complexes[k])))",
                    "0 <= u_idx and u_idx < len(complexes) and same(complexes[u_idx], y)",
                    "0 <= v_idx and v_idx < len(complexes) and same(complexes[v_idx], y_prime)",
                    "forall(range(len(complexes)), lambda k: implies(k >= at_iter(len(complexes)), k == u_idx or k == v_idx))",
                    "is_lvec(complexes[u_idx], G, r, _species_nodes, n_s) and is_rvec(complexes[v_idx], G, r, _species_nodes, n_s)",
                    "forall(('any', 'any'), lambda a, b: CG.has_edge(a, b) == (at_iter(CG.has_edge(a, b)) or (same(a, u_idx) and same(b, v_idx))))",
                    # the ghost index lists: old entries untouched, the new last entry is this reaction's pair
                    "len(lix) == done and len(rix) == done and lix[done - 1] == u_idx and rix[done - 1] == v_idx",
                    "forall(range(done - 1), lambda j: lix[j] == at_iter(lix[j]) and rix[j] == at_iter(rix[j]) and lix[j] < at_iter(len(complexes)) and rix[j] < at_iter(len(complexes)))",
                    "forall(range(at_iter(len(complexes))), lambda k: exists(range(done - 1), lambda j: at_iter(lix[j]) == k or at_iter(rix[j]) == k))",
                    {"assert": "forall(range(at_iter(len(complexes))), lambda k: exists(range(done - 1), lambda j: lix[j] == k or rix[j] == k))",
                     "using": ["forall(range(at_iter(len(complexes))), lambda k: exists(range(done - 1), lambda j: at_iter(lix[j]) == k or at_iter(rix[j]) == k))", "forall(range(done - 1), lambda j: lix[j] == at_iter(lix[j]) and rix[j] == at_iter(rix[j]) and lix[j] < at_iter(len(complexes)) and rix[j] < at_iter(len(complexes)))"]},
                    "forall(range(done - 1), lambda j: at_iter(0 <= lix[j] and lix[j] < len(complexes) and 0 <= rix[j] and rix[j] < len(complexes)))",
                    {"assert": "forall(range(done - 1), lambda j: same(complexes[lix[j]], at_iter(complexes[lix[j]])) and same(complexes[rix[j]], at_iter(complexes[rix[j]])))",
                     "using": ["forall(range(at_iter(len(complexes))), lambda k: same(complexes[k], at_iter(complexes[k])))", "forall(range(done - 1), lambda j: lix[j] == at_iter(lix[j]) and rix[j] == at_iter(rix[j]) and lix[j] < at_iter(len(complexes)) and rix[j] < at_iter(len(complexes)))", "forall(range(done - 1), lambda j: at_iter(0 <= lix[j] and lix[j] < len(complexes) and 0 <= rix[j] and rix[j] < len(complexes)))"]},
                    "forall(range(done - 1), lambda j: at_iter(is_lvec(complexes[lix[j]], G, reaction_nodes[j], _species_nodes, n_s)))",
                    "forall(range(done - 1), lambda j: at_iter(is_rvec(complexes[rix[j]], G, reaction_nodes[j], _species_nodes, n_s)))",
                    "forall(range(len(reaction_nodes)), lambda j: forall(range(n_s), lambda i: Rc(G, reaction_nodes[j], _species_nodes[i]) == at_iter(Rc(G, reaction_nodes[j], _species_nodes[i]))))",
                    {"assert": "forall(range(done - 1), lambda j: is_lvec(complexes[lix[j]], G, reaction_nodes[j], _species_nodes, n_s))",
                     "using": ["forall(range(done - 1), lambda j: same(complexes[lix[j]], at_iter(complexes[lix[j]])) and same(complexes[rix[j]], at_iter(complexes[rix[j]])))", "forall(range(done - 1), lambda j: at_iter(is_lvec(complexes[lix[j]], G, reaction_nodes[j], _species_nodes, n_s)))"]},
                    "forall(range(done - 1), lambda j: forall(range(n_s), lambda i: complexes[rix[j]][i] == at_iter(complexes[rix[j]][i])))",
                    {"assert": "forall(range(done - 1), lambda j: is_rvec(complexes[rix[j]], G, reaction_nodes[j], _species_nodes, n_s))",
                     "using": ["forall(range(done - 1), lambda j: at_iter(is_rvec(complexes[rix[j]], G, reaction_nodes[j], _species_nodes, n_s)))", "forall(range(done - 1), lambda j: forall(range(n_s), lambda i: complexes[rix[j]][i] == at_iter(complexes[rix[j]][i])))", "forall(range(len(reaction_nodes)), lambda j: forall(range(n_s), lambda i: Rc(G, reaction_nodes[j], _species_nodes[i]) == at_iter(Rc(G, reaction_nodes[j], _species_nodes[i]))))"]},
                    "forall(range(done - 1), lambda j: at_iter(CG.has_edge(lix[j], rix[j])))",
                    "forall(range(done - 1), lambda j: CG.has_edge(lix[j], rix[j]))",
                    "CG.has_edge(u_idx, v_idx)",
                    {"assert": "forall(range(done), lambda j: 0 <= lix[j] and lix[j] < len(complexes) and 0 <= rix[j] and rix[j] < len(complexes))",
                     "using": ["forall(range(done - 1), lambda j: at_iter(0 <= lix[j] and lix[j] < len(complexes) and 0 <= rix[j] and rix[j] < len(complexes)))", "forall(range(done - 1), lambda j: lix[j] == at_iter(lix[j]) and rix[j] == at_iter(rix[j]) and lix[j] < at_iter(len(complexes)) and rix[j] < at_iter(len(complexes)))", "len(lix) == done and len(rix) == done and lix[done - 1] == u_idx and rix[done - 1] == v_idx", "len(complexes) >= at_iter(len(complexes))", "0 <= u_idx and u_idx < len(complexes) and same(complexes[u_idx], y)", "0 <= v_idx and v_idx < len(complexes) and same(complexes[v_idx], y_prime)"]},
                    "same(reaction_nodes[done - 1], r)",
                    "forall(CG.edges, lambda a, b: implies(at_iter(CG.has_edge(a, b)), exists(range(done - 1), lambda j: same(a, lix[j]) and same(b, rix[j]))))",
                ],
                "inv": [
                    "len(lix) == done and len(rix) == done",
                    "reg_ok(idx_map, complexes, CG)",
                    # every processed reaction has its reactant and product complex in the list, joined by an arc of the complex graph
                    {"inv": "forall(range(done), lambda j: 0 <= lix[j] and lix[j] < len(complexes) and 0 <= rix[j] and rix[j] < len(complexes) and CG.has_edge(lix[j], rix[j]))",
                     "using": ["forall(range(done), lambda j: 0 <= lix[j] and lix[j] < len(complexes) and 0 <= rix[j] and rix[j] < len(complexes))", "forall(range(done - 1), lambda j: CG.has_edge(lix[j], rix[j]))", "CG.has_edge(u_idx, v_idx)", "len(lix) == done and len(rix) == done and lix[done - 1] == u_idx and rix[done - 1] == v_idx"]},
                    {"inv": "forall(range(done), lambda j: is_lvec(complexes[lix[j]], G, reaction_nodes[j], _species_nodes, n_s))",
                     "using": ["forall(range(done - 1), lambda j: is_lvec(complexes[lix[j]], G, reaction_nodes[j], _species_nodes, n_s))", "is_lvec(complexes[u_idx], G, r, _species_nodes, n_s) and is_rvec(complexes[v_idx], G, r, _species_nodes, n_s)", "len(lix) == done and len(rix) == done and lix[done - 1] == u_idx and rix[done - 1] == v_idx", "same(reaction_nodes[done - 1], r)"]},
                    {"inv": "forall(range(done), lambda j: is_rvec(complexes[rix[j]], G, reaction_nodes[j], _species_nodes, n_s))",
                     "using": ["forall(range(done - 1), lambda j: is_rvec(complexes[rix[j]], G, reaction_nodes[j], _species_nodes, n_s))", "is_lvec(complexes[u_idx], G, r, _species_nodes, n_s) and is_rvec(complexes[v_idx], G, r, _species_nodes, n_s)", "len(lix) == done and len(rix) == done and lix[done - 1] == u_idx and rix[done - 1] == v_idx", "same(reaction_nodes[done - 1], r)"]},
                    "forall(CG.edges, lambda a, b: exists(range(done), lambda j: same(a, lix[j]) and same(b, rix[j])))",
                    # every complex in the list stems from a reaction
                    {"inv": "forall(range(len(complexes)), lambda k: exists(range(done), lambda j: lix[j] == k or rix[j] == k))",
                     "using": ["forall(range(at_iter(len(complexes))), lambda k: exists(range(done - 1), lambda j: lix[j] == k or rix[j] == k))", "forall(range(len(complexes)), lambda k: implies(k >= at_iter(len(complexes)), k == u_idx or k == v_idx))", "len(lix) == done and len(rix) == done and lix[done - 1] == u_idx and rix[done - 1] == v_idx"]},
                ]},
            2: {"modifies": [],
                "facts": [
                    "n_s == len(_species_nodes)",
                    "forall(range(n_s), lambda i: _species_nodes[i] in species_index and species_index[_species_nodes[i]] == i and not same(_species_nodes[i], r))",
                    "forall(species_index, lambda n: 0 <= species_index[n] and species_index[n] < n_s and same(_species_nodes[species_index[n]], n))",
                    "r not in species_index and G.has_node(r)",
                ],
                "step_hints": [
                    "(same(u, r) or same(v, r)) and not (same(u, r) and same(v, r)) and G.has_edge(u, v)",
                    "G.has_node(u) and G.has_node(v)",
                    "same(s_node, v) if u == r else same(s_node, u)",
                    "(u == r) == same(u, r)",
                    "implies(s_node not in species_index, forall(range(n_s), lambda i: not same(_species_nodes[i], s_node)))",
                    "forall(range(n_s), lambda i: implies(not same(_species_nodes[i], s_node), not (same(u, _species_nodes[i]) and same(v, r)) "
                    "and not (same(u, r) and same(v, _species_nodes[i]))))"],
                "inv": [
                    "len(lhs) == n_s and len(rhs) == n_s",
                    "forall(range(n_s), lambda i: lhs[i] == (coef(G, _species_nodes[i], r, 'reactant') if (_species_nodes[i], r) in done else 0) "
                    "       + (coef(G, r, _species_nodes[i], 'reactant') if (r, _species_nodes[i]) in done else 0))",
                    "forall(range(n_s), lambda i: rhs[i] == (coef(G, _species_nodes[i], r, 'product') if (_species_nodes[i], r) in done else 0) "
                    "       + (coef(G, r, _species_nodes[i], 'product') if (r, _species_nodes[i]) in done else 0))",
                ]},
        },
    },
    # the registration step on its own (closure variables as parameters): a vector is looked up or appended, the list and the index map
    # stay mutually inverse, nothing already registered moves, the complex graph gets the node of a new entry
    DF + "::DeficiencyAnalyzer._complex_vectors.add_complex": {
        "closure": {"idx_map": "dict[list[int],int]", "complexes": "list[list[int]]", "CG": "obj:DiGraph"},
        "params": {"vec": "list[int]"},
        "returns": "int",
        "requires": ["reg_ok(idx_map, complexes, CG)"],
        "modifies": ["CG.nodes", "CG.nattr", "CG.adj", "CG.eattr"], "mutates": ["idx_map", "complexes"],
        "ensures": [
            "reg_ok(idx_map, complexes, CG)",
            "0 <= result and result < len(complexes) and same(complexes[result], vec) and vec in idx_map and idx_map[vec] == result",
            "len(complexes) == old(len(complexes)) + (0 if old(vec in idx_map) else 1)",
            "implies(not old(vec in idx_map), result == old(len(complexes)))",
            "forall(range(old(len(complexes))), lambda k: same(complexes[k], old(complexes[k])))",
            "forall(old(keys(idx_map)), lambda v: v in idx_map and idx_map[v] == old(idx_map[v]))",
            "forall(idx_map, lambda v: old(v in idx_map) or same(v, vec))",
            "forall(('any', 'any'), lambda a, b: CG.has_edge(a, b) == old(CG.has_edge(a, b)))",
        ],
    },
}
