"""C19 -- complexes, linkage classes and deficiency follow their definitions (sidecar contracts)."""
from pyvc.rt import *  # noqa: F401,F403

PROPERTY = "C19"
USES_NX = True
UT = "synkit/CRN/Props/utils.py"
CLASSES = {}
TRUSTED = ["A-nx-graph", "A-builtins (sorted: permutation ordered by key, stable; str() of a label uninterpreted)"]
ASSUMPTIONS = ["A-linalg: exact rank (floating point / SVD tolerances are not modelled)",
               "complex-vector bookkeeping (_complex_vectors), linkage classes and the deficiency formula are checked by the "
               "bounded twin against an independent exact computation; only the species/reaction ordering layer is proved"]
NOT_APPLICABLE_CLAUSES = ["deficiency >= 0 and sum of linkage-class deficiencies <= deficiency are theorems about the defined "
                          "quantities (Feinberg); not re-proved, checked bounded with exact ranks"]


def is_species(G, n):
    return G.nodes[n].get("kind") == "species" or G.nodes[n].get("bipartite", None) == 0


def is_reaction(G, n):
    return (not is_species(G, n)) and (G.nodes[n].get("kind") == "reaction" or G.nodes[n].get("bipartite", None) == 1)


def label_of(G, n):
    return str(G.nodes[n].get("label", n))


FUNCTIONS = {
    UT + "::_split_species_reactions": {
        "params": {"G": "obj:DiGraph"},
        "vars": {"species_nodes": "list[any]", "reaction_nodes": "list[any]"},
        "returns": "tuple[list[any],list[any]]",
        "modifies": [],
        "raises": {"ValueError": "not exists(G.nodes, lambda n: is_species(G, n)) or not exists(G.nodes, lambda n: is_reaction(G, n))"},
        "ensures": [
            "forall('any', lambda n: (n in result[0]) == (G.has_node(n) and is_species(G, n)))",
            "forall('any', lambda n: (n in result[1]) == (G.has_node(n) and is_reaction(G, n)))",
            "forall((range(len(result[0])), range(len(result[0]))), lambda i, j: implies(i != j, not same(result[0][i], result[0][j])))",
            "forall((range(len(result[1])), range(len(result[1]))), lambda i, j: implies(i != j, not same(result[1][i], result[1][j])))",
        ],
        "loops": {1: {"inv": [
            "forall('any', lambda n: (n in species_nodes) == (n in done and is_species(G, n)))",
            "forall('any', lambda n: (n in reaction_nodes) == (n in done and is_reaction(G, n)))",
            "forall((range(len(species_nodes)), range(len(species_nodes))), lambda i, j: implies(i != j, not same(species_nodes[i], species_nodes[j])))",
            "forall((range(len(reaction_nodes)), range(len(reaction_nodes))), lambda i, j: implies(i != j, not same(reaction_nodes[i], reaction_nodes[j])))",
        ]}},
    },
    UT + "::_species_order": {
        "params": {"G": "obj:DiGraph"},
        "vars": {"species_labels": "list[str]", "species_index": "dict[any,int]"},
        "returns": "tuple[list[any],list[str],dict[any,int]]",
        "modifies": [],
        "raises": {"ValueError": "not exists(G.nodes, lambda n: is_species(G, n)) or not exists(G.nodes, lambda n: is_reaction(G, n))"},
        "ensures": [
            # the ordered species nodes are exactly the species nodes, each once
            "forall('any', lambda n: (n in result[0]) == (G.has_node(n) and is_species(G, n)))",
            "forall((range(len(result[0])), range(len(result[0]))), lambda i, j: implies(i != j, not same(result[0][i], result[0][j])))",
            # labels and index follow that order
            "len(result[1]) == len(result[0])",
            "forall(range(len(result[0])), lambda i: result[1][i] == label_of(G, result[0][i]) and result[2][result[0][i]] == i)",
            "forall('any', lambda n: (n in result[2]) == exists(range(len(result[0])), lambda i: same(result[0][i], n)))",
            # ordered by label
            "forall((range(len(result[0])), range(len(result[0]))), lambda i, j: implies(i < j, result[1][i] <= result[1][j]))",
        ],
        "loops": {1: {"inv": [
            "len(species_labels) == done",
            "forall(range(done), lambda i: species_labels[i] == label_of(G, species_nodes_sorted[i]) and species_index[species_nodes_sorted[i]] == i)",
            "forall('any', lambda n: (n in species_index) == exists(range(done), lambda i: same(species_nodes_sorted[i], n)))",
        ]}},
    },
}
