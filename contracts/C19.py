"""C19 -- complexes, linkage classes and deficiency follow their definitions (sidecar contracts)."""
from pyvc.rt import *  # noqa: F401,F403

PROPERTY = "C19"
USES_NX = True
UT = "synkit/CRN/Props/utils.py"
DF = "synkit/CRN/Props/deficiency.py"
CLASSES = {"DeficiencyAnalyzer": {"file": DF, "fields": {}}}
TRUSTED = ["A-nx-graph", "A-builtins (sorted: permutation ordered by key, stable; str() of a label uninterpreted)"]
ASSUMPTIONS = ["A-linalg: exact rank (floating point / SVD tolerances are not modelled)",
               "complex-vector bookkeeping (_complex_vectors), linkage classes and the deficiency formula are checked by the "
               "bounded twin against an independent exact computation; only the species/reaction ordering layer is proved"]
NOT_APPLICABLE_CLAUSES = ["deficiency >= 0 and sum of linkage-class deficiencies <= deficiency are theorems about the defined "
                          "quantities (Feinberg); not re-proved, checked bounded with exact ranks"]


def is_species(G, n):
    return G.nodes[n].get("kind") == "species" or G.nodes[n].get("bipartite", None) == 0


def is_reaction(G, n):
    return (not is_species(G, n)) and (G.nodes[n].get("kind") == "reaction" or G.nodes[n].get("bipartite", None) == 1)


def coef(G, a, b, role):
    """contribution of the arc a -> b (if present, with that role) to a complex vector"""
    return int(G[a][b].get("stoich", 1)) if (G.has_edge(a, b) and G[a][b].get("role") == role) else 0


def Lc(G, r, s):
    """reactant coefficient of species s in reaction r (arcs in either direction carry a role)"""
    return coef(G, s, r, "reactant") + coef(G, r, s, "reactant")


def Rc(G, r, s):
    return coef(G, s, r, "product") + coef(G, r, s, "product")


def label_of(G, n):
    return str(G.nodes[n].get("label", n))


FUNCTIONS = {
    UT + "::_split_species_reactions": {
        "params": {"G": "obj:DiGraph"},
        "vars": {"species_nodes": "list[any]", "reaction_nodes": "list[any]"},
        "returns": "tuple[list[any],list[any]]",
        "modifies": [],
        "raises": {"ValueError": "not exists(G.nodes, lambda n: is_species(G, n)) or not exists(G.nodes, lambda n: is_reaction(G, n))"},
        "ensures": [
            "forall('any', lambda n: (n in result[0]) == (G.has_node(n) and is_species(G, n)))",
            "forall('any', lambda n: (n in result[1]) == (G.has_node(n) and is_reaction(G, n)))",
            "forall((range(len(result[0])), range(len(result[0]))), lambda i, j: implies(i != j, not same(result[0][i], result[0][j])))",
            "forall((range(len(result[1])), range(len(result[1]))), lambda i, j: implies(i != j, not same(result[1][i], result[1][j])))",
        ],
        "loops": {1: {"inv": [
            "forall('any', lambda n: (n in species_nodes) == (n in done and is_species(G, n)))",
            "forall('any', lambda n: (n in reaction_nodes) == (n in done and is_reaction(G, n)))",
            "forall((range(len(species_nodes)), range(len(species_nodes))), lambda i, j: implies(i != j, not same(species_nodes[i], species_nodes[j])))",
            "forall((range(len(reaction_nodes)), range(len(reaction_nodes))), lambda i, j: implies(i != j, not same(reaction_nodes[i], reaction_nodes[j])))",
        ]}},
    },
    UT + "::_species_order": {
        "params": {"G": "obj:DiGraph"},
        "vars": {"species_labels": "list[str]", "species_index": "dict[any,int]"},
        "returns": "tuple[list[any],list[str],dict[any,int]]",
        "modifies": [],
        "raises": {"ValueError": "not exists(G.nodes, lambda n: is_species(G, n)) or not exists(G.nodes, lambda n: is_reaction(G, n))"},
        "ensures": [
            # the ordered species nodes are exactly the species nodes, each once
            "forall('any', lambda n: (n in result[0]) == (G.has_node(n) and is_species(G, n)))",
            "forall((range(len(result[0])), range(len(result[0]))), lambda i, j: implies(i != j, not same(result[0][i], result[0][j])))",
            # labels and index follow that order
            "len(result[1]) == len(result[0])",
            "len(result[2]) == len(result[0])",
            "forall(range(len(result[0])), lambda i: result[1][i] == label_of(G, result[0][i]) and result[2][result[0][i]] == i)",
            "forall('any', lambda n: (n in result[2]) == exists(range(len(result[0])), lambda i: same(result[0][i], n)))",
            # ordered by label
            "forall((range(len(result[0])), range(len(result[0]))), lambda i, j: implies(i < j, result[1][i] <= result[1][j]))",
        ],
        "loops": {1: {"inv": [
            "len(species_labels) == done",
            "forall((range(len(species_nodes_sorted)), range(len(species_nodes_sorted))), lambda i, j: implies(i != j, not same(species_nodes_sorted[i], species_nodes_sorted[j])))",
            "len(species_index) == done",
            "forall(range(done), lambda i: species_labels[i] == label_of(G, species_nodes_sorted[i]) and species_index[species_nodes_sorted[i]] == i)",
            "forall('any', lambda n: (n in species_index) == exists(range(done), lambda i: same(species_nodes_sorted[i], n)))",
        ]}},
    },
    DF + "::DeficiencyAnalyzer._complex_vectors": {
        "params": {"G": "obj:DiGraph"},
        "vars": {"idx_map": "dict[list[int],int]", "complexes": "list[list[int]]", "lhs": "list[int]", "rhs": "list[int]",
                 "lix": "list[int]", "rix": "list[int]"},
        "returns": "tuple[list[list[int]],dict[list[int],int],obj:DiGraph]",
        "requires": ["exists(G.nodes, lambda n: is_species(G, n))", "exists(G.nodes, lambda n: is_reaction(G, n))",
                     "forall(G.edges, lambda a, b: isinstance(G[a][b].get('stoich', 1), int) and not isinstance(G[a][b].get('stoich', 1), bool))",
                     "forall(G.nodes, lambda r: not G.has_edge(r, r))"],
        "modifies": [],
        "ensures": ["is_fresh(result[2])",
                    "forall(range(len(result[0])), lambda k: result[0][k] in result[1] and result[1][result[0][k]] == k)",
                    "forall(result[1], lambda vec: 0 <= result[1][vec] and result[1][vec] < len(result[0]) and same(result[0][result[1][vec]], vec))",
                    "forall('int', lambda k: result[2].has_node(k) == (0 <= k and k < len(result[0])))"],
        "ghost_ensures": [
            "len(lix) == len(reaction_nodes) and len(rix) == len(reaction_nodes)",
            "forall(range(len(reaction_nodes)), lambda j: 0 <= lix[j] and lix[j] < len(result[0]) and 0 <= rix[j] and rix[j] < len(result[0]) and result[2].has_edge(lix[j], rix[j]))",
            "forall(range(len(reaction_nodes)), lambda j: forall(range(n_s), lambda i: result[0][lix[j]][i] == Lc(G, reaction_nodes[j], _species_nodes[i]) "
            "and result[0][rix[j]][i] == Rc(G, reaction_nodes[j], _species_nodes[i])))",
            "forall(result[2].edges, lambda a, b: exists(range(len(reaction_nodes)), lambda j: a == lix[j] and b == rix[j]))",
        ],
        "loops": {
            1: {"modifies": ["CG.nodes", "CG.nattr", "CG.adj", "CG.eattr"],
                "ghost_init": ["lix = []", "rix = []"],
                "ghost_step": ["lix.append(u_idx)", "rix.append(v_idx)"],
                "inv": [
                    "len(lix) == done and len(rix) == done",
                    "n_s == len(_species_nodes)",
                    "forall(range(n_s), lambda i: _species_nodes[i] in species_index and species_index[_species_nodes[i]] == i)",
                    "forall(species_index, lambda n: 0 <= species_index[n] and species_index[n] < n_s and same(_species_nodes[species_index[n]], n))",
                    "forall(range(len(reaction_nodes)), lambda j: G.has_node(reaction_nodes[j]) and reaction_nodes[j] not in species_index)",
                    # the index map and the list of complexes are mutually inverse
                    "forall(range(len(complexes)), lambda k: len(complexes[k]) == n_s and complexes[k] in idx_map and idx_map[complexes[k]] == k)",
                    "forall(idx_map, lambda vec: 0 <= idx_map[vec] and idx_map[vec] < len(complexes) and same(complexes[idx_map[vec]], vec))",
                    "forall('int', lambda k: CG.has_node(k) == (0 <= k and k < len(complexes)))",
                    # every processed reaction has its reactant and product complex in the list, joined by an arc of the complex graph
                    "forall(range(done), lambda j: 0 <= lix[j] and lix[j] < len(complexes) and 0 <= rix[j] and rix[j] < len(complexes) and CG.has_edge(lix[j], rix[j]))",
                    "forall(range(done), lambda j: forall(range(n_s), lambda i: complexes[lix[j]][i] == Lc(G, reaction_nodes[j], _species_nodes[i]) "
                    "and complexes[rix[j]][i] == Rc(G, reaction_nodes[j], _species_nodes[i])))",
                    "forall(CG.edges, lambda a, b: exists(range(done), lambda j: a == lix[j] and b == rix[j]))",
                ]},
            2: {"step_hints": [
                    "(same(u, r) or same(v, r)) and not (same(u, r) and same(v, r)) and G.has_edge(u, v)",
                    "G.has_node(u) and G.has_node(v) and G.has_node(r)",
                    "same(s_node, v) if u == r else same(s_node, u)",
                    "(u == r) == same(u, r)",
                    "implies(s_node not in species_index, forall(range(n_s), lambda i: not same(_species_nodes[i], s_node)))",
                    "forall(range(n_s), lambda i: implies(not same(_species_nodes[i], s_node), not (same(u, _species_nodes[i]) and same(v, r)) "
                    "and not (same(u, r) and same(v, _species_nodes[i]))))"],
                "inv": [
                "n_s == len(_species_nodes)",
                "forall(range(n_s), lambda i: _species_nodes[i] in species_index and species_index[_species_nodes[i]] == i and not same(_species_nodes[i], r))",
                "r not in species_index",
                "forall(species_index, lambda n: 0 <= species_index[n] and species_index[n] < n_s and same(_species_nodes[species_index[n]], n))",
                "len(lhs) == n_s and len(rhs) == n_s",
                "forall(range(n_s), lambda i: lhs[i] == (coef(G, _species_nodes[i], r, 'reactant') if (_species_nodes[i], r) in done else 0) "
                "       + (coef(G, r, _species_nodes[i], 'reactant') if (r, _species_nodes[i]) in done else 0))",
                "forall(range(n_s), lambda i: rhs[i] == (coef(G, _species_nodes[i], r, 'product') if (_species_nodes[i], r) in done else 0) "
                "       + (coef(G, r, _species_nodes[i], 'product') if (r, _species_nodes[i]) in done else 0))",
            ]},
        },
    },
}
