"""C09 -- reaction normal forms preserve the reaction; equivalence checks are exact (sidecar contracts)."""
from pyvc.rt import *  # noqa: F401,F403

PROPERTY = "C09"
CLASSES = {}
FUNCTIONS = {}
BOUNDED_ONLY = True
