"""C09 -- reaction normal forms preserve the reaction; equivalence checks are exact (sidecar contracts)."""
from pyvc.rt import *  # noqa: F401,F403

PROPERTY = "C09"
USES_NX = True
CR = "synkit/Chem/Reaction/canon_rsmi.py"
CLASSES = {}
TRUSTED = ["A-nx-graph", "A-builtins (sorted: permutation ordered by key)"]
ASSUMPTIONS = ["only the graph-level pairing step of CanonRSMI is under contract; SMILES parsing / writing, canonical numbering of the reactant graph, Standardize, "
               "AAMValidator and BalanceReactionCheck are RDKit layers decided by the bounded twin only"]


def amap(G, n):
    return G.nodes[n].get("atom_map", 0)


def maps_ok(G):
    """atom-map numbers are integers and the positive ones are pairwise different"""
    return forall(G.nodes, lambda n: isinstance(amap(G, n), int) and not isinstance(amap(G, n), bool)) and \
        forall((G.nodes, G.nodes), lambda a, b: implies(not same(a, b) and amap(G, a) > 0, amap(G, a) != amap(G, b)))


FUNCTIONS = {
    # the product graph is renumbered along the atom maps it SHARES with the canonical reactant graph: one pair per shared
    # map number, pairing the two atoms that carry it, ordered by map number
    CR + "::CanonRSMI.get_aam_pairwise_indices": {
        "static": True,
        "params": {"G": "obj:Graph", "H": "obj:Graph", "aam_key": "const:'atom_map'"},
        "vars": {"gmap": "dict[any,any]", "hmap": "dict[any,any]", "common": "list[any]"},
        "returns": "list[tuple[any,any]]",
        "requires": ["maps_ok(G)", "maps_ok(H)"],
        "modifies": [],
        "hints": [
            "forall(G.nodes, lambda g: implies(amap(G, g) > 0, amap(G, g) in gmap and same(gmap[amap(G, g)], g)))",
            "forall(H.nodes, lambda h: implies(amap(H, h) > 0, amap(H, h) in hmap and same(hmap[amap(H, h)], h)))",
            "len(result) == len(common) and forall(range(len(common)), lambda i: same(result[i][0], gmap[common[i]]) and same(result[i][1], hmap[common[i]]))",
            "forall('any', lambda k: implies(k in gmap and k in hmap, exists(range(len(common)), lambda i: same(common[i], k))))",
            "forall('any', lambda k: implies(k in gmap and k in hmap, exists(range(len(result)), lambda i: same(result[i][0], gmap[k]) and same(result[i][1], hmap[k]))))",
        ],
        "ensures": [
            # every pair joins two atoms with the same positive map number
            "forall(range(len(result)), lambda i: G.has_node(result[i][0]) and H.has_node(result[i][1]) and amap(G, result[i][0]) > 0 "
            "and amap(G, result[i][0]) == amap(H, result[i][1]))",
            # every atom of G whose map number also occurs in H is paired (and with that atom)
            "forall((G.nodes, H.nodes), lambda g, h: implies(amap(G, g) > 0 and amap(G, g) == amap(H, h), "
            "exists(range(len(result)), lambda i: same(result[i][0], g) and same(result[i][1], h))))",
            # ordered by map number, no repetition
            "forall((range(len(result)), range(len(result))), lambda i, j: implies(i < j, amap(G, result[i][0]) < amap(G, result[j][0])))",
        ],
    },
}
