"""C12 -- maximum common subgraph results are valid and of maximum size (sidecar contracts)."""
from pyvc.rt import *  # noqa: F401,F403

PROPERTY = "C12"
USES_NX = True
MM = "synkit/Graph/Matcher/mcs_matcher.py"
CLASSES = {"MCSMatcher": {"file": MM, "fields": {"_edge_attrs": "list[str]", "_mappings": "list[dict[any,any]]",
                                                 "_last_pattern_is_G1": "opt[bool]", "_last_size": "int", "prune_wc": "bool"}}}
TRUSTED = ["A-builtins (float() of a number is its value; of a non-number raises)", "A-nx-graph"]
ASSUMPTIONS = ["the size-descending search itself (_search_subgraphs: subsets via itertools.combinations, VF2 on induced sub-patterns, "
               "de-duplication keys, early exit) is bounded: validity, equal sizes and maximality are checked by the twin against brute force"]
NOT_APPLICABLE_CLAUSES = []


def is_number(x):
    return isinstance(x, (int, float))


def bond_attr_equal(hv, pv):
    """the matcher's rule for one edge attribute: both missing -> ignored; both numbers -> numerically equal; else =="""
    return (hv is None and pv is None) or (
        (float_or_none(hv) == float_or_none(pv)) if (float_or_none(hv) is not None and float_or_none(pv) is not None) else hv == pv)


def injective(m):
    return forall((m, m), lambda p, q: implies(not same(p, q), not same(m[p], m[q])))


def is_inverse(a, b):
    return forall(a, lambda p: a[p] in b and same(b[a[p]], p)) and forall(b, lambda h: b[h] in a and same(a[b[h]], h))


FUNCTIONS = {
    MM + "::MCSMatcher._edge_match": {
        "params": {"host_attrs": "dict[str,any]", "pat_attrs": "dict[str,any]"},
        "returns": "bool",
        "requires": ["forall(self._edge_attrs, lambda k: scalar_attr(host_attrs.get(k)) and scalar_attr(pat_attrs.get(k)))"],
        "modifies": [],
        # bond presence is VF2's job; this compares the order-like attributes in both directions at once (symmetric)
        "ensures": ["result == forall(self._edge_attrs, lambda k: bond_attr_equal(host_attrs.get(k), pat_attrs.get(k)))"],
        "loops": {1: {"inv": ["forall(range(done), lambda i: bond_attr_equal(host_attrs.get(self._edge_attrs[i]), pat_attrs.get(self._edge_attrs[i])))"]}},
    },
    MM + "::MCSMatcher._invert_mapping": {
        "params": {"gm_mapping": "dict[any,any]"},
        "returns": "dict[any,any]",
        "requires": ["injective(gm_mapping)"],
        "modifies": [],
        "ensures": ["is_inverse(result, gm_mapping)", "injective(result)"],
    },
    MM + "::MCSMatcher._prepare_orientation": {
        "params": {"G1": "obj:Graph", "G2": "obj:Graph"},
        "returns": "tuple[obj:Graph,obj:Graph,bool]",
        "modifies": [],
        # the pattern is the graph with fewer atoms; the flag records which one that was
        "ensures": ["result[0].number_of_nodes() <= result[1].number_of_nodes()",
                    "ite(result[2], result[0] is G1 and result[1] is G2, result[0] is G2 and result[1] is G1)"],
    },
    MM + "::MCSMatcher.get_mappings": {
        "params": {"direction": ["const:'pattern_to_host'", "const:'G1_to_G2'", "const:'G2_to_G1'"]},
        "vars": {"result": "list[dict[any,any]]"},
        "returns": "list[dict[any,any]]",
        "requires": ["forall(range(len(self._mappings)), lambda i: injective(self._mappings[i]))"],
        "modifies": [],
        "ensures": [
            "len(result) == len(self._mappings)",
            # pattern_to_host (or no search yet): copies of the cache
            "implies(direction == 'pattern_to_host' or self._last_pattern_is_G1 is None, "
            "        forall(range(len(result)), lambda i: same(result[i], self._mappings[i])))",
            # G1_to_G2 is the cached map when G1 was the pattern, its inverse otherwise; G2_to_G1 the other way round
            "implies(direction == 'G1_to_G2' and self._last_pattern_is_G1 is not None, forall(range(len(result)), lambda i: "
            "        ite(self._last_pattern_is_G1, same(result[i], self._mappings[i]), is_inverse(result[i], self._mappings[i]))))",
            "implies(direction == 'G2_to_G1' and self._last_pattern_is_G1 is not None, forall(range(len(result)), lambda i: "
            "        ite(self._last_pattern_is_G1, is_inverse(result[i], self._mappings[i]), same(result[i], self._mappings[i]))))",
        ],
        "loops": {1: {"inv": [
            "len(result) == done",
            "implies(direction == 'G1_to_G2', forall(range(done), lambda i: "
            "        ite(pattern_is_G1, same(result[i], self._mappings[i]), is_inverse(result[i], self._mappings[i]))))",
            "implies(direction == 'G2_to_G1', forall(range(done), lambda i: "
            "        ite(pattern_is_G1, is_inverse(result[i], self._mappings[i]), same(result[i], self._mappings[i]))))",
        ]}},
    },
    "lemma::directions_mutually_inverse": {
        # asking for the mapping in either direction gives mutually inverse maps
        "params": {"c": "dict[any,any]", "a": "dict[any,any]", "b": "dict[any,any]", "flag": "bool"},
        "requires": ["injective(c)", "ite(flag, same(a, c), is_inverse(a, c))", "ite(flag, is_inverse(b, c), same(b, c))"],
        "ensures": ["is_inverse(a, b)"],
    },
}


def scalar_attr(v):
    return v is None or isinstance(v, (int, float, str))
