"""C13 -- clustering partitions graphs exactly into isomorphism classes (sidecar contracts)."""
from pyvc.rt import *  # noqa: F401,F403

PROPERTY = "C13"
USES_NX = True
GC = "synkit/Graph/Matcher/graph_cluster.py"
BC = "synkit/Graph/Matcher/batch_cluster.py"
GM = "synkit/Graph/Matcher/graph_morphism.py"
CLASSES = {"GraphCluster": {"file": GC, "fields": {}},
           "BatchCluster": {"file": BC, "fields": {"nodeMatch": "any", "edgeMatch": "any"}}}
TRUSTED = ["A-vf2: graph_isomorphism(a, b, nodeMatch, edgeMatch) decides the abstract relation iso_rel(a, b), an equivalence "
           "(its own correctness is property C07)", "A-builtins"]
ASSUMPTIONS = ["the pre-grouping attribute is isomorphism-invariant or absent (precondition taken from the property statement)",
               "a set appended to `clusters` is not mutated afterwards (containers are values in the model)"]
NOT_APPLICABLE_CLAUSES = []
NATIVE_ONLY = ["iso_rel"]      # symbolically iso_rel is the engine's abstract equivalence relation (pyvc/lib_nx.py)

try:
    from networkx import Graph
except Exception:
    Graph = None
try:
    import networkx as _nx
    from networkx.algorithms.isomorphism import generic_node_match as _gnm, generic_edge_match as _gem
    from operator import eq as _eq
    _NM = _gnm(["element", "charge"], ["*", 0], [_eq, _eq])
    _EM = _gem("order", 1, _eq)
except Exception:       # prover process
    _nx = None


def iso_rel(a, b):
    """native meaning of the abstract relation: isomorphic on element, charge and bond order"""
    return _nx.is_isomorphic(a, b, node_match=_NM, edge_match=_EM)


def attr_eq(attributes, a, b):
    return True if attributes is None else attributes[a] == attributes[b]


def E(rules, attributes, a, b):
    return attr_eq(attributes, a, b) and iso_rel(rules[a], rules[b])


def tmpl_ok(T, rule_key, attribute_key):
    """class representatives: graphs, distinct integer classes, pairwise non-isomorphic within one attribute value"""
    return forall(range(len(T)), lambda a: rule_key in T[a] and isinstance(T[a][rule_key], Graph)
                  and "class" in T[a] and isinstance(T[a]["class"], int)) \
        and forall((range(len(T)), range(len(T))), lambda a, b: implies(a != b, T[a]["class"] != T[b]["class"])) \
        and forall((range(len(T)), range(len(T))), lambda a, b: implies(
            a != b and T[a].get(attribute_key) == T[b].get(attribute_key), not iso_rel(T[a][rule_key], T[b][rule_key])))


def matches(t, data, rule_key, attribute_key):
    return t.get(attribute_key) == data.get(attribute_key) and iso_rel(t[rule_key], data[rule_key])


FUNCTIONS = {
    GM + "::graph_isomorphism": {
        "assumed": True,
        "params": {"graph_1": "obj:Graph", "graph_2": "obj:Graph", "node_match": "any", "edge_match": "any", "use_defaults": "bool"},
        "returns": "bool",
        "modifies": [],
        "ensures": ["result == iso_rel(graph_1, graph_2)"],
    },
    GC + "::GraphCluster.iterative_cluster": {
        "params": {"rules": "list[obj:Graph]", "attributes": ["const:None", "list[str]"], "nodeMatch": "any", "edgeMatch": "any"},
        "vars": {"visited": "set[int]", "clusters": "list[set[int]]", "rule_to_cluster": "dict[int,int]", "reps": "list[int]"},
        "returns": "tuple[list[set[int]],dict[int,int]]",
        "requires": ["len(rules) > 0",
                     "attributes is None or len(attributes) == len(rules)",
                     "forall((range(len(rules)), range(len(rules))), lambda a, b: implies(iso_rel(rules[a], rules[b]), attr_eq(attributes, a, b)))"],
        "modifies": [],
        "ensures": [
            # every item gets exactly one class ...
            "forall(range(len(rules)), lambda i: i in result[1] and 0 <= result[1][i] and result[1][i] < len(result[0]))",
            "forall(range(len(result[0])), lambda c: forall(range(len(rules)), lambda i: (i in result[0][c]) == (result[1][i] == c)))",
            # ... and two items share a class iff their graphs are isomorphic
            "forall((range(len(rules)), range(len(rules))), lambda i, j: (result[1][i] == result[1][j]) == iso_rel(rules[i], rules[j]))",
        ],
        "loops": {
            1: {"ghost_init": ["reps = []"],
                "ghost_step": ["if len(reps) < len(clusters):\n    reps.append(i)"],
                "inv": [
                    "len(reps) == len(clusters)",
                    "forall(visited, lambda k: 0 <= k and k < len(rules))",
                    "forall(range(done), lambda k: k in visited)",
                    "keys(rule_to_cluster) == visited",
                    "forall(visited, lambda k: 0 <= rule_to_cluster[k] and rule_to_cluster[k] < len(clusters))",
                    "forall(range(len(clusters)), lambda c: 0 <= reps[c] and reps[c] < done and reps[c] in visited and rule_to_cluster[reps[c]] == c)",
                    "forall(visited, lambda k: E(rules, attributes, reps[rule_to_cluster[k]], k))",
                    "forall(range(len(clusters)), lambda c: forall(range(len(rules)), lambda m: implies(E(rules, attributes, reps[c], m), m in visited and rule_to_cluster[m] == c)))",
                    "forall(range(len(clusters)), lambda c: forall(range(len(rules)), lambda m: (m in clusters[c]) == (m in visited and rule_to_cluster[m] == c)))",
                ]},
            2: {"inv": [
                    "forall(visited, lambda k: 0 <= k and k < len(rules))",
                    "at_entry(visited) <= visited",
                    "forall(visited, lambda k: k in at_entry(visited) or (i < k and k < i + 1 + done and E(rules, attributes, i, k)))",
                    "forall(range(len(rules)), lambda m: implies(i < m and m < i + 1 + done and E(rules, attributes, i, m) and m not in at_entry(visited), m in visited))",
                    "keys(rule_to_cluster) == visited",
                    "forall(at_entry(visited), lambda k: rule_to_cluster[k] == at_entry(rule_to_cluster[k]))",
                    "forall(visited, lambda k: k in at_entry(visited) or rule_to_cluster[k] == len(clusters))",
                    "forall(range(len(rules)), lambda m: (m in cluster) == (m == i or (m in visited and m not in at_entry(visited))))",
                    # the outer facts, restated on the current state (clusters and reps do not change in this loop)
                    "i in visited and rule_to_cluster[i] == len(clusters)",
                    "forall(visited, lambda k: implies(k != i and k in at_entry(visited), 0 <= rule_to_cluster[k] and rule_to_cluster[k] < len(clusters) "
                    "       and E(rules, attributes, reps[rule_to_cluster[k]], k)))",
                ]},
        },
    },
    BC + "::BatchCluster.lib_check": {
        "params": {"data": "dict[str,any]", "templates": "list[dict[str,any]]", "rule_key": "str", "attribute_key": "str",
                   "nodeMatch": "any", "edgeMatch": "any"},
        "returns": "tuple[dict[str,any],list[dict[str,any]]]",
        "mutates": ["data", "templates"],
        "requires": ["rule_key != 'class'", "attribute_key != 'class'", "rule_key in data and isinstance(data[rule_key], Graph)",
                     "tmpl_ok(templates, rule_key, attribute_key)"],
        "modifies": [],
        "hints": ["implies(len(result[1]) == len(old(templates)) + 1, forall(range(len(old(templates))), lambda a: "
                  "        result[1][len(old(templates))]['class'] != result[1][a]['class'] and result[1][a]['class'] != result[1][len(old(templates))]['class']))"],
        "ensures": [
            # the item goes into the class of its isomorphic representative ...
            "forall(range(len(old(templates))), lambda a: implies(matches(old(templates)[a], old(data), rule_key, attribute_key), "
            "       result[0]['class'] == old(templates)[a]['class'] and len(result[1]) == len(old(templates))))",
            # ... or into a fresh class when there is none, and then becomes a representative itself
            "implies(not exists(range(len(old(templates))), lambda a: matches(old(templates)[a], old(data), rule_key, attribute_key)), "
            "        len(result[1]) == len(old(templates)) + 1 and same(result[1][len(old(templates))], result[0]) "
            "        and forall(range(len(old(templates))), lambda a: result[0]['class'] > old(templates)[a]['class']))",
            "forall(range(len(old(templates))), lambda a: same(result[1][a], old(templates)[a]))",
            "forall('str', lambda k: implies(k != 'class', (k in result[0]) == (k in old(data)) and same(result[0].get(k), old(data).get(k))))",
            "tmpl_ok(result[1], rule_key, attribute_key)",
            "same(data, result[0])", "same(templates, result[1])",     # the arguments are updated in place
        ],
        "loops": {1: {"inv": [
            "same(data, old(data))", "same(templates, old(templates))",
            "forall(range(done), lambda a: not iso_rel(sub_temp[a][rule_key], data[rule_key]))",
        ]}},
    },
}
