"""C11 -- automorphism groups and orbits are exact; pruning loses no distinct result (sidecar contracts)."""
from pyvc.rt import *  # noqa: F401,F403

PROPERTY = "C11"
USES_NX = True
DD = "synkit/Graph/Matcher/dedup_matches.py"
CLASSES = {}
TRUSTED = ["A-builtins", "functional abstraction of the three signature helpers (_free_sig_from_pattern_orbits, _free_sig_host_only, "
           "_anchor_sig): pure functions of the match and the prepared orbit data"]
ASSUMPTIONS = ["every host node of every match is covered by host_orbits when host_orbits is given (otherwise ValueError, checked by the twin)",
               "exact automorphism counts / orbits (VF2 group enumeration), the WL orbit estimate and the effect of pruning on the set of "
               "distinct reactions are bounded (twin vs brute force)"]
NOT_APPLICABLE_CLAUSES = []


def covered(host_orbits, matches):
    return host_orbits is None or forall(range(len(matches)), lambda i: forall(matches[i], lambda p: exists(
        range(len(host_orbits)), lambda k: matches[i][p] in host_orbits[k])))


FUNCTIONS = {
    DD + "::_build_host_orbit_index": {
        "params": {"host_orbits": "list[set[int]]"},
        "vars": {"host_orbit_index": "dict[int,int]"},
        "returns": "dict[int,int]",
        "modifies": [],
        "ensures": [
            "forall('int', lambda h: (h in result) == exists(range(len(host_orbits)), lambda k: h in host_orbits[k]))",
            "forall(result, lambda h: 0 <= result[h] and result[h] < len(host_orbits) and h in host_orbits[result[h]])",
        ],
        "loops": {
            1: {"inv": ["forall('int', lambda h: (h in host_orbit_index) == exists(range(done), lambda k: h in host_orbits[k]))",
                        "forall(host_orbit_index, lambda h: 0 <= host_orbit_index[h] and host_orbit_index[h] < done and h in host_orbits[host_orbit_index[h]])"]},
            2: {"inv": ["forall('int', lambda h: (h in host_orbit_index) == (h in done or at_entry(h in host_orbit_index)))",
                        "forall(host_orbit_index, lambda h: ite(h in done, host_orbit_index[h] == idx, host_orbit_index[h] == at_entry(host_orbit_index.get(h, -1))))"]},
        },
    },
    DD + "::_prepare_pattern_orbits": {
        "assumed": True, "functional": True,
        "params": {"pattern_orbits": ["const:None", "list[set[int]]"], "pattern_anchor": "set[int]"},
        "returns": "tuple[any,any]", "modifies": [], "ensures": [],
    },
    DD + "::_free_sig_from_pattern_orbits": {
        "assumed": True, "functional": True,
        "params": {"mapping": "dict[int,int]", "free_pattern_orbits": "any", "host_repr": "any"},
        "returns": "any", "modifies": [], "ensures": [],
    },
    DD + "::_free_sig_host_only": {
        "assumed": True, "functional": True,
        "params": {"mapping": "dict[int,int]", "host_repr": "any"},
        "returns": "any", "modifies": [], "ensures": [],
    },
    DD + "::_anchor_sig": {
        "assumed": True, "functional": True,
        "params": {"mapping": "dict[int,int]", "anchored_pattern_nodes": "any"},
        "returns": "any", "modifies": [], "ensures": [],
    },
    DD + "::deduplicate_matches_with_anchor": {
        "params": {"matches": "list[dict[int,int]]", "pattern_orbits": ["const:None", "list[set[int]]"],
                   "pattern_anchor": ["const:None", "set[int]"], "host_orbits": ["const:None", "list[set[int]]"], "host_anchor": "any"},
        "vars": {"seen": "set[tuple[any,any]]", "unique": "list[dict[int,int]]", "idxs": "list[int]"},
        "returns": "list[dict[int,int]]",
        "requires": ["covered(host_orbits, matches)"],
        "modifies": [],
        "ensures": [
            # the result is a sub-list of the input, in the original order
            "len(result) <= len(matches)",
            "implies(pattern_orbits is None and host_orbits is None, same(result, matches))",
        ],
        "loops": {1: {
            "ghost_init": ["idxs = []"],
            "ghost_step": ["if len(idxs) < len(unique):\n    idxs.append(len(idxs) + 0 * 0 + (done_index(idxs, unique)))" if False else
                           "if len(idxs) < len(unique):\n    idxs.append(__done__)"],
            "inv": [
                "len(idxs) == len(unique)", "len(unique) <= done",
                "forall(range(len(unique)), lambda j: 0 <= idxs[j] and idxs[j] < done and same(unique[j], matches[idxs[j]]))",
                "forall((range(len(unique)), range(len(unique))), lambda a, b: implies(a < b, idxs[a] < idxs[b]))",
                # seen = signatures of the processed matches; a match is kept iff its signature was new
                "forall(range(done), lambda i: SIG(matches[i]) in seen)",
                "forall(seen, lambda s0, s1: exists(range(done), lambda i: same(SIG(matches[i]), (s0, s1))))",
                # kept matches are the first of their signature class; dropped ones have an earlier equal signature
                "forall(range(len(unique)), lambda j: forall(range(len(matches)), lambda i2: implies(i2 < idxs[j], not same(SIG(matches[i2]), SIG(matches[idxs[j]])))))",
                "forall(range(done), lambda i: exists(range(len(unique)), lambda j: idxs[j] == i) or "
                "       exists(range(len(matches)), lambda i2: i2 < i and same(SIG(matches[i2]), SIG(matches[i]))))",
            ]}},
        "ghost_ensures": [
            "implies(not (pattern_orbits is None and host_orbits is None), len(idxs) == len(result) and "
            "  forall(range(len(result)), lambda j: 0 <= idxs[j] and idxs[j] < len(matches) and same(result[j], matches[idxs[j]])))",
            "implies(not (pattern_orbits is None and host_orbits is None), "
            "  forall((range(len(result)), range(len(result))), lambda a, b: implies(a < b, idxs[a] < idxs[b])))",
            # ... and contains exactly the first match of every signature class
            "implies(not (pattern_orbits is None and host_orbits is None), forall(range(len(result)), lambda j: forall(range(len(matches)), "
            "  lambda i2: implies(i2 < idxs[j], not same(SIG(matches[i2]), SIG(matches[idxs[j]]))))))",
            "implies(not (pattern_orbits is None and host_orbits is None), forall(range(len(matches)), lambda i: "
            "  exists(range(len(result)), lambda j: idxs[j] == i) or exists(range(len(matches)), lambda i2: i2 < i and same(SIG(matches[i2]), SIG(matches[i])))))",
        ],
    },
}
SIG_TEXT = ("((_free_sig_from_pattern_orbits(%s, free_pattern_orbits, host_repr) if use_pattern else _free_sig_host_only(%s, host_repr)), "
            "_anchor_sig(%s, anchored_pattern_nodes))")
import re as _re
for _c in FUNCTIONS.values():
    for _key in ("ensures", "ghost_ensures"):
        _c[_key] = [_re.sub(r"SIG\((matches\[[a-z0-9]*(?:\[[a-z0-9]+\])?\])\)", lambda m: SIG_TEXT % ((m.group(1),) * 3), t) for t in _c.get(_key, [])]
    for _l in (_c.get("loops") or {}).values():
        _l["inv"] = [_re.sub(r"SIG\((matches\[[a-z0-9]*(?:\[[a-z0-9]+\])?\])\)", lambda m: SIG_TEXT % ((m.group(1),) * 3), t) for t in _l.get("inv", [])]
