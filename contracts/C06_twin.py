"""C06 bounded stand-in / replay: the three strategies against brute-force monomorphism enumeration."""
import itertools, random, pickle, base64
import networkx as nx

from synkit.Graph.Matcher.subgraph_matcher import SubgraphSearchEngine as SSE
from pyvc import gen

K_ALL = "synkit/Graph/Matcher/subgraph_matcher.py::SubgraphSearchEngine._find_all_subgraph_mappings"
K_TOP = "synkit/Graph/Matcher/subgraph_matcher.py::SubgraphSearchEngine.find_subgraph_mappings"
NA, EA = ["element"], ["order"]
SELECTIONS = [(["element"], ["order"]), (["charge"], ["order"]), (["element", "charge"], []), ([], ["order"])]


def canon(ms):
    return sorted(tuple(sorted(m.items())) for m in ms)


def comp_of(G):
    cc = {}
    for i, c in enumerate(nx.connected_components(G)):
        for n in c:
            cc[n] = i
    return cc


def expected(host, pattern, strategy):
    allm = gen.brute_monos(host, pattern, NA, EA)
    hcc, pcc = nx.number_connected_components(host), nx.number_connected_components(pattern)
    if strategy == "all":
        return allm
    if pcc == 0:
        comp = [{}]
    elif hcc < pcc:
        comp = allm
    elif hcc > pcc:
        comp = []          # strict_cc_count=True (documented configuration)
    else:
        ch, cp = comp_of(host), comp_of(pattern)
        comp = []
        for m in allm:
            img = {}
            for p, h in m.items():
                img.setdefault(cp[p], set()).add(ch[h])
            sets = list(img.values())
            if all(len(s) == 1 for s in sets) and len({next(iter(s)) for s in sets}) == len(sets):
                comp.append(m)
    if strategy == "comp":
        return comp
    return comp if comp else allm


def guard_counts(host, pattern, strategy):
    """sizes of the enumerations the documented threshold guard applies to ("empty if any guard -- pre-filter or
    enumeration -- exceeds the threshold"): the whole-graph enumeration and, for the component-aware path, the number of
    embeddings of each pattern component into the candidate host components"""
    counts = [len(gen.brute_monos(host, pattern, NA, EA))] if strategy in ("all", "bt") else []
    hcc, pcc = nx.number_connected_components(host), nx.number_connected_components(pattern)
    if strategy in ("comp", "bt"):
        if 0 < pcc <= hcc:
            hcs = [host.subgraph(c).copy() for c in nx.connected_components(host)]
            for pc in nx.connected_components(pattern):
                P = pattern.subgraph(pc).copy()
                counts.append(sum(len(gen.brute_monos(h, P, NA, EA)) for h in hcs if h.number_of_nodes() >= P.number_of_nodes()))
        elif hcc < pcc:
            counts.append(len(gen.brute_monos(host, pattern, NA, EA)))
    return counts


def enc(x):
    return base64.b64encode(pickle.dumps(x)).decode()


def check_pair(tw, host, pattern, fails, tags, sel=None):
    global NA, EA
    if sel is not None:
        NA, EA = sel
    nontrivial = 0
    h0, p0 = gen.graph_dump(host), gen.graph_dump(pattern)
    for strategy in ("all", "comp", "bt"):
        want = expected(host, pattern, strategy)
        for max_results in (None, 1, 2):
            for threshold in (None, 0, 1, 3):
                out, v = tw.check_call(K_TOP, lambda host, pattern, node_attrs, edge_attrs, strategy, max_results, strict_cc_count, threshold, pre_filter:
                                       SSE.find_subgraph_mappings(host, pattern, node_attrs=node_attrs, edge_attrs=edge_attrs, strategy=strategy,
                                                                  max_results=max_results, strict_cc_count=strict_cc_count, threshold=threshold,
                                                                  pre_filter=pre_filter),
                                       dict(host=host, pattern=pattern, node_attrs=list(NA), edge_attrs=list(EA), strategy=strategy,
                                            max_results=max_results, strict_cc_count=True, threshold=threshold, pre_filter=False))
                viol = list(v)
                if out[0] == "return":
                    got = out[1]
                    thr = 5000 if threshold is None else threshold
                    cg, cw = canon(got), canon(want)
                    if len(set(cg)) != len(cg):
                        viol.append("duplicates in the result")
                    if any(g not in cw for g in cg):
                        viol.append("a returned map is not in the expected %s set" % strategy)
                    guard_hit = any(cnt > thr for cnt in guard_counts(host, pattern, strategy))
                    if guard_hit and len(got) == 0:
                        pass          # documented: empty when an enumeration guard exceeds the threshold
                    elif guard_hit and strategy == "bt":
                        # the component-aware stage gave up on its guard, the fallback is the exhaustive strategy
                        wa = canon(expected(host, pattern, "all"))
                        if any(g not in wa for g in cg):
                            viol.append("a returned map is not a monomorphism")
                        viol = [x for x in viol if "expected bt set" not in x]
                    elif max_results is None:
                        exp_len = len(want) if len(want) <= thr else 0
                        if len(got) != exp_len:
                            viol.append("strategy=%s threshold=%s: %d results, definition gives %d" % (strategy, threshold, len(got), exp_len))
                    else:
                        # limits only truncate the list or, past the threshold, empty it
                        k = min(len(want), max_results)
                        if not (len(got) == k or (len(got) == 0 and k > thr)):
                            viol.append("strategy=%s max_results=%s threshold=%s: %d results, expected %d (or 0 past the threshold)" % (
                                strategy, max_results, threshold, len(got), k))
                    if want:
                        nontrivial = 1
                if gen.graph_dump(host) != h0 or gen.graph_dump(pattern) != p0:
                    viol.append("inputs were modified")
                if viol:
                    fails.append({"function": "SubgraphSearchEngine.find_subgraph_mappings", "violations": viol, "pickle": enc((host, pattern)),
                                  "args": {"strategy": strategy, "max_results": max_results, "threshold": threshold},
                                  "host": gen.graph_desc(host), "pattern": gen.graph_desc(pattern),
                                  "tags": dict(tags, strategy=strategy, limited=max_results is not None)})
    for pf in (True,):
        got = SSE.find_subgraph_mappings(host, pattern, node_attrs=list(NA), edge_attrs=list(EA), strategy="all", pre_filter=True)
        if canon(got) != canon(expected(host, pattern, "all")):
            fails.append({"function": "SubgraphSearchEngine._quick_pre_filter", "violations": ["pre_filter changes the exhaustive result"],
                          "pickle": enc((host, pattern)), "tags": dict(tags, strategy="all", limited=False)})
    return nontrivial


def run(tw, tier, seed, only=None):
    rng = random.Random(seed)
    fails, cases, nontriv, samples = [], 0, 0, []
    hosts = gen.labelled_graphs(3 if tier == "quick" else 4, limit=120 if tier == "quick" else 600, rng=rng)
    patterns = gen.labelled_graphs(2 if tier == "quick" else 3, limit=40 if tier == "quick" else 120, rng=rng)
    for g in hosts + patterns:          # charges vary too (attribute selections without "element" must still be exact)
        for n in g.nodes:
            g.nodes[n]["charge"] = rng.choice([0, 0, 1])
    for host in hosts:
        for pattern in rng.sample(patterns, min(len(patterns), 6 if tier == "quick" else 12)):
            cases += 1
            nontriv += check_pair(tw, host, pattern, fails, {"kind": "enumerated"}, SELECTIONS[cases % len(SELECTIONS)])
        if len(fails) > 40:
            break
    # disconnected hosts / patterns (the component-aware paths)
    for _ in range(60 if tier == "quick" else 600):
        h = nx.disjoint_union(rng.choice(hosts), rng.choice(hosts))
        p = nx.disjoint_union(rng.choice(patterns), rng.choice(patterns)) if rng.random() < 0.7 else rng.choice(patterns)
        cases += 1
        nontriv += check_pair(tw, h, p, fails, {"kind": "disconnected"}, SELECTIONS[cases % len(SELECTIONS)])
        if len(samples) < 2:
            samples.append({"host": gen.graph_desc(h), "pattern": gen.graph_desc(p)})
        if len(fails) > 40:
            break
    # branched / larger skeletons: stars, branched chains and rings as hosts (alone and next to a second fragment), paths of 2-3 atoms
    # and two-fragment patterns; degree patterns the small enumeration cannot show
    def skel(edges, elems):
        g = nx.Graph()
        for i, e in enumerate(elems):
            g.add_node(i, element=e, charge=0, hcount=0)
        for a, b in edges:
            g.add_edge(a, b, order=1)
        return g
    big_hosts = [skel([(0, 1), (0, 2), (0, 3)], "CCCC"), skel([(0, 1), (0, 2), (0, 3), (0, 4)], "CCCCO"), skel([(0, 1), (1, 2), (1, 3), (3, 4)], "CCCCO"),
                 skel([(0, 1), (1, 2), (2, 3), (3, 0)], "CCCC"), skel([(0, 1), (1, 2), (2, 3), (3, 4), (4, 0)], "CCCCO"), skel([(0, 1), (1, 2), (2, 3)], "OCCC")]
    big_patterns = [skel([(0, 1), (1, 2)], "CCC"), skel([(0, 1)], "CC"), skel([(0, 1)], "CO"), skel([(0, 1), (1, 2)], "CCO")]
    for h0 in big_hosts:
        for second in (None, big_hosts[5], skel([(0, 1), (1, 2)], "CCO")):
            h = h0 if second is None else nx.disjoint_union(h0, second)
            for p0 in big_patterns:
                for p in (p0, nx.disjoint_union(p0, big_patterns[2])):
                    cases += 1
                    nontriv += check_pair(tw, h, p, fails, {"kind": "branched"}, SELECTIONS[0])
    return {"cases": cases, "nontrivial": nontriv, "failures": fails, "samples": samples, "exhaustive": False,
            "evaluations": tw.evaluations,
            "bound": "%d host x pattern pairs from the enumeration of labelled graphs (hosts <= %d atoms, patterns <= %d; 2 elements x 2 orders x hcount 0/1; sampled) "
                     "incl. disjoint unions, plus stars / branched chains / rings of 4-5 atoms against 2-3 atom and two-fragment patterns; strategies all/comp/bt x max_results None/1/2 x threshold None/0/1/3" % (cases, 3 if tier == "quick" else 4, 2 if tier == "quick" else 3),
            "rule": "a pair is non-trivial when at least one monomorphism exists"}


def replay(tw, desc):
    host, pattern = pickle.loads(base64.b64decode(desc["pickle"]))
    fails = []
    check_pair(tw, host, pattern, fails, {})
    return {"host": gen.graph_desc(host), "pattern": gen.graph_desc(pattern), "violations": sorted({v for f in fails for v in f["violations"]})}
