"""C07 -- isomorphism verdicts and embeddings are correct; pre-filters never change them (sidecar contracts)."""
from pyvc.rt import *  # noqa: F401,F403

PROPERTY = "C07"
USES_NX = True
GMF = "synkit/Graph/Matcher/graph_matcher.py"
CLASSES = {"GraphMatcherEngine": {"file": GMF, "fields": {"node_attrs": "list[str]", "edge_attrs": "list[str]", "wl1_filter": "bool",
                                                           "max_mappings": "opt[int]", "backend": "str"},
                                  # representation invariant of the compiled matchers: __init__ stores the closures returned by
                                  # _compile_node_matcher / _compile_edge_matcher for self.node_attrs / self.edge_attrs, and those
                                  # closures are proved equivalent to node_ok / edge_ok below
                                  "funcs": {"_nm": "lambda self, nh, np: node_ok(nh, np, self.node_attrs)",
                                            "_em": "lambda self, eh, ep: edge_ok(eh, ep, self.edge_attrs)"}}}
TRUSTED = ["A-vf2", "A-nx-graph", "A-builtins"]
ASSUMPTIONS = ["hcount attributes are numbers where present",
               "WL-1 histogram soundness on the isomorphism path (equal 1-WL multisets for isomorphic graphs), the symmetric/relabelling "
               "clauses and completeness of the searches are bounded (twin vs brute force)"]
NOT_APPLICABLE_CLAUSES = []


def node_ok(nh, np, attrs):
    """selected node attributes equal, host hydrogen count at least the pattern's (documented rule)"""
    return all(nh.get(k) == np.get(k) for k in attrs) and nh.get("hcount", 0) >= np.get("hcount", 0)


def edge_ok(eh, ep, attrs):
    return all(eh.get(k) == ep.get(k) for k in attrs)


def is_embedding(host, pattern, m, node_attrs, edge_attrs):
    """m is an induced embedding pattern -> host: injective, label preserving, edges and non-edges preserved"""
    return keys(m) == set(pattern.nodes) \
        and forall(m, lambda p: host.has_node(m[p]) and node_ok(host.nodes[m[p]], pattern.nodes[p], node_attrs)) \
        and forall((m, m), lambda p, q: implies(not same(p, q), not same(m[p], m[q]))) \
        and forall(pattern.edges, lambda p, q: host.has_edge(m[p], m[q]) and edge_ok(host[m[p]][m[q]], pattern[p][q], edge_attrs)) \
        and forall((m, m), lambda p, q: implies(host.has_edge(m[p], m[q]), pattern.has_edge(p, q)))


def hcounts_numeric(G):
    return forall(G.nodes, lambda n: isinstance(G.nodes[n].get("hcount", 0), (int, float)))


FUNCTIONS = {
    GMF + "::GraphMatcherEngine._compile_node_matcher.nm#2": {      # variant without attributes (breadth-first ordinal)
        "params": {"nh": "dict[str,any]", "np": "dict[str,any]"}, "inline_calls": True,
        "returns": "bool",
        "requires": ["isinstance(nh.get('hcount', 0), (int, float))", "isinstance(np.get('hcount', 0), (int, float))"],
        "ensures": ["result == node_ok(nh, np, [])"],
    },
    GMF + "::GraphMatcherEngine._compile_node_matcher.nm": {
        "params": {"nh": "dict[str,any]", "np": "dict[str,any]", "_attrs": "list[str]"}, "inline_calls": True,
        "returns": "bool",
        "requires": ["isinstance(nh.get('hcount', 0), (int, float))", "isinstance(np.get('hcount', 0), (int, float))"],
        "ensures": ["result == node_ok(nh, np, _attrs)"],
        "loops": {1: {"inv": ["forall(range(done), lambda i: nh.get(_attrs[i]) == np.get(_attrs[i]))"]}},
    },
    GMF + "::GraphMatcherEngine._compile_edge_matcher.em": {
        "params": {"eh": "dict[str,any]", "ep": "dict[str,any]", "_attrs": "list[str]"}, "inline_calls": True,
        "returns": "bool",
        "ensures": ["result == edge_ok(eh, ep, _attrs)"],
        "loops": {1: {"inv": ["forall(range(done), lambda i: eh.get(_attrs[i]) == ep.get(_attrs[i]))"]}},
    },
    GMF + "::GraphMatcherEngine._wl_hash_cached": {
        "assumed": True,          # an operational cache of _wl1_hash(g, self.node_attrs); the histogram is abstract here
        "params": {"g": "obj:Graph"},
        "returns": "dict[any,int]",
        "modifies": [],
        "ensures": [],
    },
    GMF + "::GraphMatcherEngine._pre_check": {
        "params": {"host": "obj:Graph", "pattern": "obj:Graph"},
        "returns": "bool",
        "modifies": [],
        "ensures": [
            # a cheap size test; the WL histogram comparison is only consulted for graphs of equal size
            "implies(result, host.number_of_nodes() >= pattern.number_of_nodes() and host.number_of_edges() >= pattern.number_of_edges())",
            "implies(not self.wl1_filter or host.number_of_nodes() != pattern.number_of_nodes(), "
            "        result == (host.number_of_nodes() >= pattern.number_of_nodes() and host.number_of_edges() >= pattern.number_of_edges()))",
        ],
    },
    GMF + "::GraphMatcherEngine._get_mappings_nx": {
        "params": {"host": "obj:Graph", "pattern": "obj:Graph"},
        "returns": "list[dict[any,any]]",
        "requires": ["hcounts_numeric(host)", "hcounts_numeric(pattern)"],
        "modifies": [],
        "ensures": [
            # every returned dictionary is a valid pattern -> host embedding
            "forall(range(len(result)), lambda i: is_embedding(host, pattern, result[i], self.node_attrs, self.edge_attrs))",
            # a host smaller than the pattern has no embedding; equal sizes: at most the one isomorphism VF2 reports;
            # otherwise the enumeration is cut only by max_mappings.  (That an existing embedding is FOUND is bounded: twin.)
            "implies(host.number_of_nodes() < pattern.number_of_nodes() or host.number_of_edges() < pattern.number_of_edges(), len(result) == 0)",
            "implies(pattern.number_of_nodes() == host.number_of_nodes() and pattern.number_of_edges() == host.number_of_edges(), len(result) <= 1)",
            "implies(self.max_mappings is not None and self.max_mappings >= 0 and not (pattern.number_of_nodes() == host.number_of_nodes() "
            "and pattern.number_of_edges() == host.number_of_edges()), len(result) <= self.max_mappings)",
        ],
    },
}
