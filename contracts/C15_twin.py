"""C15 bounded stand-in / replay harness: histories of edits on a real CRNHyperGraph, every operation run
under the executable twin of its contract (contracts/C15.py), plus copy-independence."""
import itertools
import random

from synkit.CRN.Hypergraph.hypergraph import CRNHyperGraph
from synkit.CRN.Hypergraph.rxn import RXNSide

HG = "synkit/CRN/Hypergraph/hypergraph.py"

SIDES = [{}, {"A": 1}, {"B": 1}, {"A": 1, "B": 2}, {"C": 1}]
IDS = [None, "r_1", "q_1"]
RULES = [None, "q"]


def dump(H):
    return (sorted(H.species),
            sorted((k, e.rule, sorted(e.reactants.data.items()), sorted(e.products.data.items())) for k, e in H.edges.items()),
            sorted((s, sorted(v)) for s, v in H.species_to_in_edges.items()),
            sorted((s, sorted(v)) for s, v in H.species_to_out_edges.items()),
            sorted((s, str(v)) for s, v in H.species_to_mol.items()))


def other_net(i):
    O = CRNHyperGraph()
    if i == 0:
        O.add_rxn({"A": 1}, {"B": 1}, edge_id="r_1")
    elif i == 1:
        O.add_rxn({"X": 1}, {"A": 2}, rule="q")
        O.add_rxn({"A": 1}, {"X": 1}, edge_id="r_2")
    return O


def ops_alphabet(small):
    ops = []
    sides = SIDES[:4] if small else SIDES
    for r, p in itertools.product(sides, sides):
        for eid in (IDS if not small else IDS[:2]):
            for rule in (RULES[:1] if small else RULES):
                ops.append(("add", r, p, rule, eid))
    ops.append(("add_side", {"A": 1}, {"B": 1}, None, None))
    for eid in ("r_1", "r_2", "q_1", "nope"):
        ops.append(("remove_rxn", eid))
    for s in ("A", "B", "Z"):
        for prune in (True, False):
            ops.append(("remove_species", s, prune))
    for i in (0, 1):
        for pre in (True, False):
            ops.append(("merge", i, pre))
    ops.append(("assign_mol", "A", "molA"))
    return ops


def apply(tw, H, op, others):
    """-> (outcome, violations, function)"""
    kind = op[0]
    if kind == "add":
        _, r, p, rule, eid = op
        key = HG + "::CRNHyperGraph.add_rxn"
        return tw.check_call(key, CRNHyperGraph.add_rxn,
                             dict(self=H, reactant_side=dict(r), product_side=dict(p), rule=rule, edge_id=eid)) + (key,)
    if kind == "add_side":
        _, r, p, rule, eid = op
        key = HG + "::CRNHyperGraph.add_rxn"
        return tw.check_call(key, CRNHyperGraph.add_rxn,
                             dict(self=H, reactant_side=RXNSide.from_any(r), product_side=RXNSide.from_any(p), rule=rule,
                                  edge_id=eid)) + (key,)
    if kind == "remove_rxn":
        key = HG + "::CRNHyperGraph.remove_rxn"
        return tw.check_call(key, CRNHyperGraph.remove_rxn, dict(self=H, edge_id=op[1])) + (key,)
    if kind == "remove_species":
        key = HG + "::CRNHyperGraph.remove_species"
        return tw.check_call(key, lambda self, species, prune_orphans: CRNHyperGraph.remove_species(
            self, species, prune_orphans=prune_orphans), dict(self=H, species=op[1], prune_orphans=op[2])) + (key,)
    if kind == "merge":
        key = HG + "::CRNHyperGraph.merge"
        O = other_net(op[1])
        others.append(O)
        return tw.check_call(key, CRNHyperGraph.merge, dict(self=H, other=O, prefix_edges=op[2])) + (key,)
    if kind == "assign_mol":
        key = HG + "::CRNHyperGraph.assign_mol"
        return tw.check_call(key, CRNHyperGraph.assign_mol, dict(self=H, species=op[1], mol=op[2])) + (key,)
    raise ValueError(op)


def run_history(tw, hist, with_copy=True):
    """-> list of failures (dicts) for this history"""
    H = CRNHyperGraph()
    others = []
    fails = []
    nontrivial = 0
    for i, op in enumerate(hist):
        cp = H.copy() if with_copy else None
        cp_dump = dump(cp) if cp is not None else None
        others_dump = [dump(o) for o in others]
        outcome, viol, key = apply(tw, H, op, others)
        if outcome[0] == "return":
            nontrivial += 1
        if cp is not None and dump(cp) != cp_dump:
            viol = list(viol) + ["copy-independence: a copy changed when the original was edited"]
        # networks merged earlier must not be affected by later edits of H
        for o, d0 in zip(others[:len(others_dump)], others_dump):
            if dump(o) != d0:
                viol = list(viol) + ["merge-independence: the merged-in network changed when the target was edited"]
        if viol:
            fails.append({"function": key.split("::")[1], "violations": viol, "history": [list(o) for o in hist[:i + 1]],
                          "tags": {"op": op[0]}})
            break
    # edits of a merged-in network must not affect H (finding 2)
    if not fails and others:
        d0 = dump(H)
        for o in others:
            for s in list(o.species):
                o.remove_species(s)
        if dump(H) != d0:
            fails.append({"function": "CRNHyperGraph.merge", "violations": ["ensures[5] sides shared: editing the merged-in network changed the target"],
                          "history": [list(o) for o in hist], "tags": {"op": "merge"}})
    return fails, nontrivial


def run(tw, tier, seed, only=None):
    rng = random.Random(seed)
    small = ops_alphabet(True)
    depth = 2 if tier == "quick" else 3
    fails, cases, nontriv = [], 0, 0
    seen = set()
    samples = []
    # exhaustive short histories over the reduced alphabet
    for hist in itertools.product(small, repeat=depth):
        f, n = run_history(tw, list(hist), with_copy=False)
        cases += 1
        nontriv += 1 if n == depth else 0
        if f and len(fails) < 20:
            fails.extend(f)
    exhaustive_n = cases
    # long random histories over the larger alphabet
    big = ops_alphabet(False)
    for _ in range(150 if tier == "quick" else 1500):
        L = rng.randint(4, 25 if tier == "quick" else 60)
        hist = [rng.choice(big) for _ in range(L)]
        f, n = run_history(tw, hist, with_copy=True)
        cases += 1
        nontriv += 1 if n >= 3 else 0
        if len(samples) < 3:
            samples.append({"history": [list(o) for o in hist[:6]], "ops_returning": n})
        if f and len(fails) < 20:
            fails.extend(f)
    return {"cases": cases, "nontrivial": nontriv, "failures": fails, "samples": samples, "exhaustive": False,
            "evaluations": tw.evaluations,
            "bound": "all histories of length %d over %d operations (%d histories) + %d random histories of length <= %d" % (
                depth, len(small), exhaustive_n, cases - exhaustive_n, 25 if tier == "quick" else 60),
            "rule": "a history is non-trivial when every (short) / at least 3 (long) of its operations return normally; "
                    "each operation is checked against the executable twin of its contract"}


def replay(tw, desc):
    hist = [tuple(o) for o in desc["history"]]
    f, n = run_history(tw, hist, with_copy=True)
    return {"history": desc["history"], "violations": [v for x in f for v in x["violations"]], "required": "contract clauses of "
            + desc.get("function", "?")}
