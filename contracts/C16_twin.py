"""C16 bounded stand-in / replay: network views round-trip exactly (bipartite, reaction strings, species graph)."""
import itertools, random, copy

from synkit.CRN.Hypergraph.hypergraph import CRNHyperGraph
from synkit.CRN.Hypergraph.rxn import RXNSide
from synkit.CRN.Hypergraph import conversion as CV
from pyvc import gen

K_NORM = "synkit/CRN/Hypergraph/rxn.py::RXNSide._normalize_any"
K_EXP = "synkit/CRN/Hypergraph/conversion.py::hypergraph_to_bipartite"


def snapshot(H):
    return {eid: (dict(e.reactants.to_dict()), dict(e.products.to_dict()), e.rule) for eid, e in H.edges.items()}


def multiset(H):
    return sorted((sorted(e.reactants.to_dict().items()), sorted(e.products.to_dict().items()), e.rule) for e in H.edges.values())


def build(rxns, rules, mols=None, ids=None):
    H = CRNHyperGraph()
    for i, (r, p) in enumerate(rxns):
        kw = {"rule": rules[i]}
        if ids:
            kw["edge_id"] = ids[i]
        H.add_rxn(dict(r), dict(p), **kw)
    if mols:
        H.set_mol_map(dict(mols))
    return H


def check_network(tw, rxns, rules, mols, ids, fails, tags):
    def bad(fn, msg, clause, extra=None):
        fails.append({"function": fn, "violations": ["%s: %s" % (clause, msg)], "rxns": rxns, "rules": rules, "mols": mols, "ids": ids,
                      "tags": dict(tags, clause=clause, **(extra or {}))})
    H = build(rxns, rules, mols, ids)
    snap, molmap = snapshot(H), dict(H.species_to_mol)
    # (1) bipartite view, string and integer ids, every flag combination that claims invertibility
    for integer_ids, include_mol, sp_pref, rx_pref in itertools.product((False, True), (False, True), ("S:", None), ("R:", None)):
        if not integer_ids and (sp_pref is None) != (rx_pref is None):
            continue
        if not integer_ids and sp_pref is None and set(H.species) & set(H.edges):
            continue          # without prefixes species and reaction ids share one namespace
        try:
            G = CV.hypergraph_to_bipartite(H, integer_ids=integer_ids, include_edge_id_attr=True, include_mol=include_mol,
                                           species_prefix=sp_pref, reaction_prefix=rx_pref)
            H2 = CV.bipartite_to_hypergraph(G, species_prefix=sp_pref or "", reaction_prefix=rx_pref or "")
        except Exception as ex:
            bad("bipartite round trip", "raised %r (integer_ids=%s include_mol=%s prefixes=%r/%r)" % (ex, integer_ids, include_mol, sp_pref, rx_pref), "bipartite")
            continue
        if snapshot(H2) != snap:
            bad("bipartite round trip", "integer_ids=%s prefixes=%r/%r: reactions %s, original %s" % (integer_ids, sp_pref, rx_pref, snapshot(H2), snap), "bipartite")
        if include_mol and dict(H2.species_to_mol) != molmap:
            bad("bipartite round trip", "integer_ids=%s: molecule labels %s, original %s" % (integer_ids, dict(H2.species_to_mol), molmap), "bipartite-mol")
        if snapshot(H) != snap:
            bad("hypergraph_to_bipartite", "export modified the network", "frame")
    # (1b) the exporter's contract (the one under proof) evaluated on the real function, both settings of the edge-id attribute
    for flag in (False, True):
        out, v = tw.check_call(K_EXP, lambda H, include_edge_id_attr: CV.hypergraph_to_bipartite(H, include_edge_id_attr=include_edge_id_attr),
                               dict(H=H, include_edge_id_attr=flag))
        if out[0] != "return" or v:
            bad("hypergraph_to_bipartite", "contract on the real function: %s %s" % (out[0] if out[0] != "return" else "", list(v)), "exporter-contract", {"eid": flag})
    # (2) reaction strings
    for sort in (True, False):
        try:
            lines = CV.hypergraph_to_rxn_strings(H, include_rule_suffix=True, sort=sort)
            H3 = CV.rxns_to_hypergraph(lines, parse_rule_from_suffix=True)
        except Exception as ex:
            bad("rxn-string round trip", "raised %r" % (ex,), "strings")
            continue
        if multiset(H3) != multiset(H):
            bad("rxn-string round trip", "lines %s parse to %s, original %s" % (lines, multiset(H3), multiset(H)), "strings")
    # parsing twice / after editing a parsed copy gives the same network (no shared state between parses)
    try:
        lines = CV.hypergraph_to_rxn_strings(H, include_rule_suffix=True)
        Ha = CV.rxns_to_hypergraph(lines)
        for e in list(Ha.edges.values())[:1]:
            for s in list(e.reactants.keys())[:1]:
                e.reactants.incr(s, 1)
        if Ha.species:
            try:
                Ha.remove_species(sorted(Ha.species)[0])
            except Exception:
                pass
        Hb = CV.rxns_to_hypergraph(lines)
        if multiset(Hb) != multiset(H):
            bad("rxn-string round trip", "second parse after editing the first parsed copy gives %s, original %s" % (multiset(Hb), multiset(H)), "strings-history")
    except Exception as ex:
        bad("rxn-string round trip", "raised %r" % (ex,), "strings-history")
    # (3) species graph (only for networks whose reactions all have reactants and products)
    if all(r and p for r, p in rxns):
        try:
            SGr = CV.hypergraph_to_species_graph(H, include_mol=True)
            H4 = CV.species_graph_to_hypergraph(SGr)
        except Exception as ex:
            bad("species-graph round trip", "raised %r" % (ex,), "species-graph")
        else:
            s4 = snapshot(H4)
            if {k: v[:2] for k, v in s4.items()} != {k: v[:2] for k, v in snap.items()}:
                bad("species-graph round trip", "reactions %s, original %s" % (s4, snap), "species-graph")
    return 1 if len(rxns) > 1 else 0


def run(tw, tier, seed, only=None):
    rng = random.Random(seed)
    fails, cases, nontriv, samples = [], 0, 0, []
    nets = []
    sides1 = [{}] + [dict(zip(c, cs)) for k in (1, 2) for c in itertools.combinations("ABCD", k) for cs in itertools.product((1, 2, 3), repeat=k)]
    single = [[(r, p)] for r in sides1 for p in sides1 if (r or p)]
    nets += single[::7] if tier == "quick" else single
    for _ in range(120 if tier == "quick" else 3000):
        k = rng.randint(2, 3)
        nets.append([rng.choice(single)[0] for _ in range(k)])
    fam = [[({"A": 2}, {"B": 3}), ({"A": 2, "X": 1}, {"B": 3, "Y": 1}), ({"A": 1}, {"B": 1, "Z": 2})],       # three reactions share a species pair
           [({"A": 1, "E": 1}, {"B": 1, "E": 1})], [({"A": 1}, {"B": 1}), ({"A": 1}, {"B": 1})],               # catalyst; repeated reaction
           [({}, {"A": 1}), ({"A": 12}, {}), ({"A": 10, "Fe": 2}, {"Cl2": 11})],                                   # source / sink / multi-digit
           [({"A": 2, "B": 1}, {"C": 3}), ({"C": 1}, {"A": 1, "D": 2}), ({"D": 1, "B": 1}, {"E": 1})],
           [({"A": 2}, {"B": 3}), ({"A": 2}, {"B": 2}), ({"A": 1}, {"B": 2}), ({"A": 2}, {"B": 3})],
           # species named by line notations (non-word characters after the first letter) with coefficients above one
           [({"C=C": 2}, {"C1CCC1": 1}), ({"CC(=O)O": 2, "C#N": 3}, {"O": 1, "C=C": 1})],
           [({"CC(=O)O": 1, "CO": 1}, {"CC(=O)OC": 1, "O": 1}), ({"C#N": 2}, {"N#CC#N": 1, "[H][H]": 1}), ({"C=C": 10}, {"C(C)C": 12})]]
    nets = fam + nets
    for _ in range(20 if tier == "quick" else 400):
        nets.append(gen.random_network(rng, 8, 10 if tier != "quick" else 5, 3))
    for i, rxns in enumerate(nets):
        rules = [rng.choice(["r", "R1", "R2", "hydrolysis"]) for _ in rxns]
        species = sorted({s for r, p in rxns for s in list(r) + list(p)})
        kind = i % 4
        mols = None
        if kind == 1:
            mols = {s: "mol_" + s for s in species}
        elif kind == 2:
            mols = {s: j for j, s in enumerate(species)}           # integer indices into an external table, starting at 0
        elif kind == 3:
            mols = {s: ("" if j == 0 else "m%d" % j) for j, s in enumerate(species)}
        ids = ["e%d" % (j + 1) for j in range(len(rxns))] if i % 3 == 0 else None
        tags = {"family": "special" if i < len(fam) else "enumerated/random"}
        try:
            nontriv += check_network(tw, rxns, rules, mols, ids, fails, tags)
        except Exception as ex:
            fails.append({"function": "C16 twin", "violations": ["raised %r" % (ex,)], "rxns": rxns, "tags": tags})
        cases += 1
        if len(samples) < 2:
            samples.append(rxns)
    # the normaliser under proof, on random mappings
    for _ in range(60):
        obj = {s: rng.randint(-1, 3) for s in rng.sample(["A", "B", "C", "Fe", "Cl2"], rng.randint(0, 4))}
        if K_NORM in tw.functions:
            out, v = tw.check_call(K_NORM, RXNSide._normalize_any, dict(obj=dict(obj)))
            if v:
                fails.append({"function": "RXNSide._normalize_any", "violations": v, "obj": obj, "tags": {}})
        cases += 1
    return {"cases": cases, "nontrivial": nontriv, "failures": fails, "samples": samples, "exhaustive": False, "evaluations": tw.evaluations,
            "bound": "%d networks: single reactions over 4 species with coefficients 1..3 (%s), random 2-3 reaction combinations, special families (shared species "
                     "pair x3, catalyst, repeated, source/sink, multi-digit), random networks up to 8 species / %d reactions; bipartite view with string and integer "
                     "ids x mol on/off x prefixes on/off, reaction strings sorted/unsorted and re-parsed after editing a parsed copy, species graph; molecule "
                     "labels as strings, integers from 0, and with an empty label" % (cases, "every 7th" if tier == "quick" else "all", 5 if tier == "quick" else 10),
            "rule": "a network is non-trivial when it has more than one reaction"}


def replay(tw, desc):
    fails = []
    check_network(tw, desc["rxns"], desc.get("rules") or ["r"] * len(desc["rxns"]), desc.get("mols"), desc.get("ids"), fails, {})
    return {"violations": [v for f in fails for v in f["violations"]]}
